#!/usr/bin/env python3
"""regenerates MANIFEST.json from the spec modules (specs/Cxx.py) and the not-applicable table below"""
import json, os, sys, importlib
HERE = os.path.dirname(os.path.abspath(__file__))
sys.path.insert(0, HERE)

NA = {
    'C05': 'quantified over thread schedules, queue and pool sizes of the Reader pipeline; CBMC contracts have no thread, future or condition-variable semantics (DESIGN.md section 10)',
    'C07': 'termination/deadlock-freedom and error propagation across three threads under every schedule and fault point: liveness over histories, not expressible as function contracts (DESIGN.md section 10)',
    'C19': 'FIFO/loss-freedom/wake-up of a monitor under all interleavings and exactly-once execution in the pool: the deciding steps are lock/wait/notify orderings (DESIGN.md section 10)',
}
NOT_BUILT = 'units not under contract yet in this build round (DESIGN.md section 13: never claimed on faith)'

ids = ['C%02d' % i for i in range(1, 21)]
checks = []
na = []
for i in ids:
    if i in NA:
        na.append(dict(property_id=i, reason=NA[i]))
        continue
    path = os.path.join(HERE, 'specs', i + '.py')
    if not os.path.exists(path):
        na.append(dict(property_id=i, reason=NOT_BUILT))
        continue
    m = importlib.import_module('specs.' + i)
    if getattr(m, 'NOT_CLAIMED', None):
        na.append(dict(property_id=i, reason=m.NOT_CLAIMED))
        continue
    checks.append(dict(
        property_id=i,
        quick_cmd='python3 cv.py check %s --tier quick' % i,
        thorough_cmd='python3 cv.py check %s --tier thorough' % i,
        evidence_file='evidence/%s.json' % i,
        replay_cmd_template='python3 cv.py replay {path}',
        engine='cv',
        level_claimed=dict(category=getattr(m, 'LEVEL', 'proof'), text=m.LEVEL_TEXT, design_ref=getattr(m, 'DESIGN_REF', 'DESIGN.md section 9, ' + i)),
        level_note=m.LEVEL_NOTE,
        technique=getattr(m, 'TECHNIQUE', 'CBMC 6.11 function contracts (goto-instrument --dfcc --enforce-contract / --replace-call-with-contract, loop contracts) on C text extracted mechanically from the C++ headers on every run; failed obligations replayed natively against the real headers'),
    ))
man = dict(
    version=1,
    setup_cmd='python3 cv.py selfcheck',
    hooks=dict(guard='OSMIUM_VERIF', enable='none needed: /repo is only read; the functions under contract are extracted from the working tree on every run',
               baseline_off_cmd='ctest --test-dir /repo/_build -j8 --timeout 900', source_commits=[], add_only=True),
    engines=[dict(name='cv', path='cv.py', serves_properties=[c['property_id'] for c in checks],
                  kind_free_text='contract-based deductive verification: cx.py extracts the named functions from /repo into C, cv.py weaves the contracts of specs/*.py, goto-instrument --dfcc enforces them function by function, cbmc discharges every obligation; replay/*.cpp run counterexamples against the real headers')],
    checks=checks,
    notes='exit 0 = all obligations discharged; exit 1 = VIOLATION line(s); exit 2 = UNDECIDED (timeout, extraction break, spec out of date) - never reported as violation. known_findings.json lists recorded defects.',
    not_applicable=na,
)
json.dump(man, open(os.path.join(HERE, 'MANIFEST.json'), 'w'), indent=1)
print('checks:', [c['property_id'] for c in checks])
print('not_applicable:', [n['property_id'] for n in na])
