#!/bin/bash
# runs every registered quick check on the current /repo tree, regenerates the evidence, validates it
cd "$(dirname "$(readlink -f "$0")")"
rc=0
for id in $(python3 -c "import json; print(' '.join(c['property_id'] for c in json.load(open('MANIFEST.json'))['checks']))"); do
  out=$(timeout 1500 python3 cv.py check $id --tier ${1:-quick} 2>&1 | grep -v "^WARNING conda" | tail -4)
  echo "$out" | tail -1
  echo "$out" | grep -q "VIOLATION\|UNDECIDED" && { echo "$out"; rc=1; }
done
python3-vt /verif/validate.py | tail -1
exit $rc
