// CXXFLAGS: -fsanitize=address,undefined -fno-sanitize-recover=all -lexpat -lz -lbz2 -lpthread
// native replay oracle for C03 (XML element handlers): families of well-formed and malformed OSM XML documents go through the real Reader
// (asserts enabled, ASan/UBSan). Each document is parsed in a child process: an abort, a sanitizer report or a wrong object count for a valid
// document is a failure. Usage:  c03_xml <document>   |   c03_xml --search <seed> <unit> <obligation>
#include <osmium/io/xml_input.hpp>
#include <osmium/io/reader.hpp>
#include <osmium/osm.hpp>
#include <sys/wait.h>
#include <unistd.h>
#include <cstdio>
#include <cstring>
#include <string>
#include <vector>

struct Expect { bool valid = false; int tags = 0; int comments = 0; int nodes = 0; int members = 0; };

// returns 0 ok, 1 mismatch
static int parse_and_check(const std::string& xml, const Expect& e, osmium::osm_entity_bits::type types) {
    int tags = 0, comments = 0, nodes = 0, members = 0;
    try {
        osmium::io::File f{xml.data(), xml.size(), "osm"};
        osmium::io::Reader r{f, types};
        while (auto b = r.read()) {
            for (const auto& item : b) {
                if (item.type() == osmium::item_type::changeset) {
                    const auto& cs = static_cast<const osmium::Changeset&>(item);
                    for (const auto& t : cs.tags()) { (void)std::strlen(t.key()); (void)std::strlen(t.value()); ++tags; }
                    for (const auto& c : cs.discussion()) { (void)std::strlen(c.user()); if (e.valid && std::string(c.text()) != "txt") return 1; (void)std::strlen(c.text()); ++comments; }
                } else if (item.type() == osmium::item_type::way) {
                    const auto& w = static_cast<const osmium::Way&>(item);
                    for (const auto& t : w.tags()) { (void)std::strlen(t.key()); ++tags; }
                    for (const auto& n : w.nodes()) { (void)n.ref(); ++nodes; }
                } else if (item.type() == osmium::item_type::relation) {
                    const auto& rel = static_cast<const osmium::Relation&>(item);
                    for (const auto& t : rel.tags()) { (void)std::strlen(t.key()); ++tags; }
                    for (const auto& m : rel.members()) { (void)std::strlen(m.role()); ++members; }
                }
            }
        }
        r.close();
    } catch (const std::exception&) {
        return e.valid ? 1 : 0;   // a valid document must be accepted; anything else may be rejected with an exception
    }
    if (!e.valid) return 0;
    if (types != osmium::osm_entity_bits::all) return 0;
    return (tags == e.tags && comments == e.comments && nodes == e.nodes && members == e.members) ? 0 : 1;
}

static int run_child(const std::string& xml, const Expect& e, osmium::osm_entity_bits::type types) {
    std::fflush(stdout);
    const pid_t pid = fork();
    if (pid == 0) { _exit(parse_and_check(xml, e, types)); }
    int st = 0; waitpid(pid, &st, 0);
    if (WIFSIGNALED(st)) return 100 + WTERMSIG(st);
    return WEXITSTATUS(st);
}

static int report(const std::string& xml, int rc, const char* what) {
    if (rc == 0) return 0;
    std::printf("%s: %s\n  document: %s\nARGV: %s\x1f\n", what, rc >= 100 ? "the reader process was killed (abort / sanitizer)" : (rc == 1 ? "valid document rejected or delivered with wrong content" : "sanitizer report"), xml.c_str(), xml.c_str());
    return 1;
}

static const char* HEAD = "<osm version=\"0.6\">";
static std::string part(char c, Expect& e) {
    switch (c) {
        case 'T': ++e.tags; return "<tag k=\"k\" v=\"v\"/>";
        case 'E': return "<discussion></discussion>";
        case 'D': ++e.comments; return "<discussion><comment uid=\"1\" user=\"u\" date=\"2020-01-01T00:00:00Z\"><text>txt</text></comment></discussion>";
        case '2': e.comments += 2; return "<discussion><comment uid=\"1\" user=\"u\" date=\"2020-01-01T00:00:00Z\"><text>txt</text></comment><comment uid=\"2\" user=\"w\" date=\"2020-01-01T00:00:00Z\"><text>txt</text></comment></discussion>";
        case '0': e.valid = false; return "<discussion><comment uid=\"1\" user=\"u\" date=\"2020-01-01T00:00:00Z\"></comment></discussion>";              // no <text>
        case 'W': e.valid = false; return "<discussion><comment uid=\"1\" user=\"u\" date=\"2020-01-01T00:00:00Z\"><text>txt</text><text>txt</text></comment></discussion>";  // two <text>
        case 'F': e.valid = false; return "<discussion><comment uid=\"1\" user=\"u\" date=\"2020-01-01T00:00:00Z\"><foo/></comment></discussion>";     // error inside <comment>
        case 'N': ++e.nodes; return "<nd ref=\"1\"/>";
        case 'B': return "<bbox/>";
        case 'M': ++e.members; return "<member type=\"n\" ref=\"1\" role=\"r\"/>";
        case 'X': e.valid = false; return "<member type=\"x\" ref=\"1\" role=\"r\"/>";
    }
    return "";
}

static int family(const char* open, const char* close, const char* alphabet, int maxlen, bool cuts) {
    const int n = static_cast<int>(std::strlen(alphabet));
    std::vector<int> idx;
    for (int len = 0; len <= maxlen; ++len) {
        idx.assign(len, 0);
        while (true) {
            Expect e; e.valid = true;
            std::string xml = HEAD; xml += open;
            for (int k : idx) xml += part(alphabet[k], e);
            {   // sub-lists split by other children (tags, nodes, tags) end up as two lists of which the accessors show the first: no content check for those
                std::string groups; for (int k : idx) { const char c = alphabet[k]; const char g = (c == 'E' || c == 'D' || c == '2') ? 'D' : c; if (groups.empty() || groups.back() != g) groups += g; }
                for (size_t i = 0; i < groups.size(); ++i) for (size_t j = i + 1; j < groups.size(); ++j) if (groups[i] == groups[j]) e.valid = false;
            }
            xml += close; xml += "</osm>";
            for (auto types : {osmium::osm_entity_bits::all, osmium::osm_entity_bits::node}) {
                if (report(xml, run_child(xml, e, types), "XML document")) return 1;
            }
            if (cuts && len <= 2) {
                Expect none;
                for (size_t p = xml.find('>'); p != std::string::npos; p = xml.find('>', p + 1)) {
                    const std::string cut = xml.substr(0, p + 1);
                    if (report(cut, run_child(cut, none, osmium::osm_entity_bits::all), "truncated XML document")) return 1;
                }
            }
            int k = len - 1;
            while (k >= 0 && ++idx[k] == n) { idx[k] = 0; --k; }
            if (k < 0) break;
        }
    }
    return 0;
}

int main(int argc, char** argv) {
    if ((argc == 2 || (argc == 3 && argv[2][0] == 0)) && std::strcmp(argv[1], "xml") != 0) {
        Expect none;
        return report(argv[1], run_child(argv[1], none, osmium::osm_entity_bits::all), "XML document");
    }
    if (family("<changeset id=\"1\">", "</changeset>", "TED20WF", 3, true)) return 1;
    if (family("<way id=\"1\">", "</way>", "NTB", 4, true)) return 1;
    if (family("<relation id=\"1\">", "</relation>", "MTBX", 3, true)) return 1;
    std::printf("search: no disagreement found\n");
    return 0;
}
