// native replay oracle for C06: o5m and PBF streams delivered to the Reader in every 1- and 2-cut segmentation (and byte by byte)
#include <osmium/io/compression.hpp>
#include <osmium/io/file.hpp>
#include <osmium/io/o5m_input.hpp>
#include <osmium/io/opl_input.hpp>
#include <osmium/io/pbf_input.hpp>
#include <osmium/io/pbf_output.hpp>
#include <osmium/io/writer.hpp>
#include <osmium/builder/osm_object_builder.hpp>
#include <fstream>
#include <unistd.h>
#include <osmium/io/reader.hpp>
#include <osmium/memory/buffer.hpp>
#include <osmium/osm.hpp>
#include <cstdio>
#include <sstream>
#include <string>
#include <vector>

static std::vector<size_t> g_cuts;
class ChunkDecompressor final : public osmium::io::Decompressor {
    std::string m_data; std::vector<size_t> m_cuts; size_t m_pos = 0, m_next = 0;
public:
    ChunkDecompressor(const char* b, size_t n) : m_data(b, n), m_cuts(g_cuts) {}
    std::string read() override { if (m_pos >= m_data.size()) return {}; size_t end = m_data.size(); if (m_next < m_cuts.size()) end = m_cuts[m_next++]; std::string p{m_data, m_pos, end - m_pos}; m_pos = end; return p; }
    void close() override {}
};
static void varint(std::string& o, uint64_t v) { while (v >= 0x80) { o += char((v & 0x7f) | 0x80); v >>= 7; } o += char(v); }
static void zvarint(std::string& o, int64_t v) { varint(o, (uint64_t(v) << 1) ^ uint64_t(v >> 63)); }
static std::string node(int64_t id, int64_t lon, int64_t lat, const char* k = nullptr, const char* v = nullptr) { std::string b; zvarint(b, id); b += '\0'; zvarint(b, lon); zvarint(b, lat); if (k) { b += '\0'; b += k; b += '\0'; b += v; b += '\0'; } return b; }
static void dataset(std::string& o, unsigned char t, const std::string& b) { o += char(t); varint(o, b.size()); o += b; }
static std::string header() { const unsigned char m[] = {0xff, 0xe0, 0x04, 'o', '5', 'm', '2'}; return std::string(reinterpret_cast<const char*>(m), sizeof m); }

static const char* g_format = "o5m.gz";
static std::string run(const std::string& stream, const std::vector<size_t>& cuts) {
    g_cuts = cuts; std::ostringstream out;
    try { osmium::io::File f{stream.data(), stream.size(), g_format}; osmium::io::Reader r{f};
        while (auto b = r.read()) for (const auto& o : b.select<osmium::OSMObject>()) { out << osmium::item_type_to_char(o.type()) << o.id(); if (o.type() == osmium::item_type::node) out << '@' << static_cast<const osmium::Node&>(o).location().x() << ',' << static_cast<const osmium::Node&>(o).location().y(); for (const auto& t : o.tags()) out << ' ' << t.key() << '=' << t.value(); out << ';'; }
        r.close(); out << "END";
    } catch (const std::exception& e) { out << "ERROR: " << e.what(); }
    return out.str();
}

// a small PBF file made with the library's own writer (three blobs: header + two data blocks)
static std::string make_pbf() {
    char name[] = "/tmp/c06_pbf_XXXXXX"; const int fd = mkstemp(name); if (fd < 0) return {}; close(fd);
    { osmium::io::File f{name, "pbf"}; osmium::io::Header h; h.set("generator", "c06"); osmium::io::Writer w{f, h, osmium::io::overwrite::allow};
      for (int blk = 0; blk < 2; ++blk) { osmium::memory::Buffer buf{4096, osmium::memory::Buffer::auto_grow::yes};
        for (int i = 1; i <= 5; ++i) { osmium::builder::NodeBuilder nb{buf}; nb.set_id(blk * 10 + i).set_version(1).set_location(osmium::Location{1.0 * i, 2.0 * blk}); nb.set_user("u"); nb.add_tags({{"k", "v"}}); }
        buf.commit(); w(std::move(buf)); w.flush(); }
      w.close(); }
    std::ifstream in{name, std::ios::binary}; std::string data{std::istreambuf_iterator<char>{in}, std::istreambuf_iterator<char>{}}; unlink(name); return data;
}
static int pbf_family() {
    g_format = "pbf.gz";
    const std::string st = make_pbf(); if (st.empty()) { std::printf("could not create the PBF sample\n"); return 2; }
    const std::string ref = run(st, {});
    if (ref.find("ERROR") != std::string::npos) { std::printf("valid PBF stream (%zu bytes) delivered in one piece is rejected: %s\nARGV: pbf\n", st.size(), ref.c_str()); return 1; }
    std::vector<size_t> all; for (size_t c = 1; c < st.size(); ++c) all.push_back(c);
    if (run(st, all) != ref) { std::printf("PBF stream delivered one byte at a time gives a different result:\n  %s\n  one piece: %s\nARGV: pbf\n", run(st, all).c_str(), ref.c_str()); return 1; }
    for (size_t a = 1; a < st.size(); ++a) if (run(st, {a}) != ref) { std::printf("PBF stream (%zu bytes) cut at offset %zu gives a different result:\n  %s\n  one piece: %s\nARGV: pbf\n", st.size(), a, run(st, {a}).c_str(), ref.c_str()); return 1; }
    for (size_t a = 1; a < st.size(); a += 7) for (size_t b = a + 1; b < st.size(); b += 5) if (run(st, {a, b}) != ref) { std::printf("PBF stream cut at offsets %zu and %zu gives a different result\nARGV: pbf\n", a, b); return 1; }
    g_format = "o5m.gz";
    return 0;
}

// OPL text delivered in pieces: lines that span one, two and three or more pieces, CR/LF split across pieces, no trailing newline
static int opl_family() {
    g_format = "opl.gz";
    std::string st = "n1 v1 dV c1 t2020-01-01T00:00:00Z i1 uu T x1 y2\nn2 v1 dV c1 t i1 uu Tk=v x3 y4\r\nw10 v1 dV c1 t i1 uu T Nn1,n2,n3,n4,n5,n6,n7,n8,n9,n10,n11,n12\n\nn3 v1 dV c1 t i1 uu T x5 y6";
    const std::string ref = run(st, {});
    if (ref.find("ERROR") != std::string::npos) { std::printf("valid OPL text delivered in one piece is rejected: %s\nARGV: opl\n", ref.c_str()); g_format = "o5m.gz"; return 1; }
    std::vector<size_t> all; for (size_t c = 1; c < st.size(); ++c) all.push_back(c);
    int rc = 0;
    if (run(st, all) != ref) { std::printf("OPL text delivered one byte at a time gives a different result:\n  %s\n  one piece: %s\nARGV: opl\n", run(st, all).c_str(), ref.c_str()); rc = 1; }
    for (size_t a = 1; a < st.size() && !rc; ++a) { if (run(st, {a}) != ref) { std::printf("OPL text cut at offset %zu gives a different result\nARGV: opl\n", a); rc = 1; }
        for (size_t b = a + 1; b < st.size() && !rc; b += 3) if (run(st, {a, b}) != ref) { std::printf("OPL text cut at offsets %zu and %zu gives a different result:\n  %s\n  one piece: %s\nARGV: opl\n", a, b, run(st, {a, b}).c_str(), ref.c_str()); rc = 1; } }
    g_format = "o5m.gz";
    return rc;
}

int main(int, char**) {
    osmium::io::CompressionFactory::instance().register_compression(osmium::io::file_compression::gzip,
        [](int, osmium::io::fsync) -> osmium::io::Compressor* { return nullptr; }, [](int) -> osmium::io::Decompressor* { return nullptr; },
        [](const char* b, size_t n) -> osmium::io::Decompressor* { return new ChunkDecompressor(b, n); });
    { const int rc = pbf_family(); if (rc) return rc; }
    { const int rc = opl_family(); if (rc) return rc; }
    std::vector<std::string> streams;
    { std::string s = header(); dataset(s, 0x10, node(1, 10, 20)); streams.push_back(s); streams.push_back(s + char(0xfe)); }                               // tiny file: one node with a 7-byte body
    { std::string s = header(); dataset(s, 0x10, node(1, 10000000, 20000000, "highway", "bus_stop")); dataset(s, 0x10, node(1, 5, -3)); s += char(0xfe); streams.push_back(s); }
    { std::string s = header(); for (int i = 0; i < 6; ++i) dataset(s, 0x10, node(1, 100 + i, -200 - i, i % 2 ? "k" : nullptr, "v")); streams.push_back(s); streams.push_back(s + char(0xfe)); }
    { std::string s = header(); dataset(s, 0x10, node(1, 1, 1, "name", "0123456789012345678901234567890123456789")); dataset(s, 0x10, node(1, 2, 2)); dataset(s, 0x10, node(3, 3, 3)); s += char(0xfe); streams.push_back(s); }
    for (size_t si = 0; si < streams.size(); ++si) {
        const std::string& st = streams[si]; std::string ref = run(st, {});
        if (ref.find("ERROR") != std::string::npos) { std::printf("valid o5m stream %zu (%zu bytes) delivered in one piece is rejected: %s\nARGV: o5m\n", si, st.size(), ref.c_str()); return 1; }
        std::vector<size_t> all; for (size_t c = 1; c < st.size(); ++c) all.push_back(c);
        if (run(st, all) != ref) { std::printf("o5m stream %zu delivered one byte at a time gives a different result:\n  %s\n  one piece: %s\nARGV: o5m\n", si, run(st, all).c_str(), ref.c_str()); return 1; }
        for (size_t a = 1; a < st.size(); ++a) { if (run(st, {a}) != ref) { std::printf("o5m stream %zu (%zu bytes) cut at offset %zu gives a different result:\n  %s\n  one piece: %s\nARGV: o5m\n", si, st.size(), a, run(st, {a}).c_str(), ref.c_str()); return 1; }
            for (size_t b = a + 1; b < st.size() && st.size() <= 80; ++b) if (run(st, {a, b}) != ref) { std::printf("o5m stream %zu cut at offsets %zu and %zu gives a different result:\n  %s\n  one piece: %s\nARGV: o5m\n", si, a, b, run(st, {a, b}).c_str(), ref.c_str()); return 1; } }
    }
    std::printf("search: no disagreement found\n"); return 0;
}
