// native replay oracle for C11: small histories (relations with overlapping / duplicate / missing way members, then the ways in id order) go through the
// real RelationsDatabase + MembersDatabase<Way> + ItemStash the way RelationsManager drives them (track, prepare_for_lookup, add with the completion
// callback doing what handle_complete_relation does); after every step the lookups are compared with a set-based model of the same history.
// Each history runs in a child process (asserts enabled): an abort counts as a failure.   Usage: c11_members <history> | c11_members search
#include <osmium/relations/members_database.hpp>
#include <osmium/relations/relations_database.hpp>
#include <osmium/builder/attr.hpp>
#include <osmium/memory/buffer.hpp>
#include <osmium/storage/item_stash.hpp>
#include <sys/wait.h>
#include <unistd.h>
#include <cstdio>
#include <cstring>
#include <random>
#include <set>
#include <string>
#include <vector>

using namespace osmium::builder::attr; // NOLINT

struct History { std::vector<std::vector<int>> rels; std::vector<int> present; };   // member way ids per relation; way ids that occur in the input

static std::string to_string(const History& h) {
    std::string s;
    for (const auto& r : h.rels) { s += "r"; for (int m : r) { s += std::to_string(m); s += ","; } s += ";"; }
    s += "w"; for (int w : h.present) { s += std::to_string(w); s += ","; }
    return s;
}

static History parse(const char* p) {
    History h;
    while (*p == 'r') { ++p; std::vector<int> r; while (*p && *p != ';') { r.push_back(std::atoi(p)); while (*p && *p != ',') ++p; if (*p) ++p; } if (*p) ++p; h.rels.push_back(r); }
    if (*p == 'w') { ++p; while (*p) { h.present.push_back(std::atoi(p)); while (*p && *p != ',') ++p; if (*p) ++p; } }
    return h;
}

// returns 0 ok, 1 disagreement (message printed)
static int run_history(const History& h) {
    const int max_id = 9;
    osmium::memory::Buffer buffer{1024 * 64, osmium::memory::Buffer::auto_grow::yes};
    std::vector<std::size_t> rel_pos, way_pos(max_id + 1, 0);
    for (std::size_t i = 0; i < h.rels.size(); ++i) {
        std::vector<member_type> ms; for (int m : h.rels[i]) ms.emplace_back(osmium::item_type::way, m, "x");
        rel_pos.push_back(osmium::builder::add_relation(buffer, _id(i % 2 ? -(100 + int(i)) : 100 + int(i)), _members(ms)));   // negative ids (objects not yet uploaded) are valid
    }
    for (int w : h.present) way_pos[w] = osmium::builder::add_way(buffer, _id(w), _nodes({1, 2}));

    osmium::ItemStash stash;
    osmium::relations::RelationsDatabase rdb{stash};
    osmium::relations::MembersDatabase<osmium::Way> mdb{stash, rdb};
    for (std::size_t i = 0; i < h.rels.size(); ++i) {
        auto rh = rdb.add(buffer.get<osmium::Relation>(rel_pos[i]));
        std::size_t n = 0; for (const auto& m : rh->members()) { mdb.track(rh, m.ref(), n); ++n; }
    }
    mdb.prepare_for_lookup();

    std::vector<int> completed(h.rels.size(), 0);
    std::set<int> arrived;
    auto model_done = [&](std::size_t i) { for (int m : h.rels[i]) if (!arrived.count(m)) return false; return !h.rels[i].empty(); };
    auto model_needed = [&](int id) { for (std::size_t i = 0; i < h.rels.size(); ++i) { bool refs = false; for (int m : h.rels[i]) refs |= (m == id); if (refs && !model_done(i)) return true; } return false; };
    auto check_lookups = [&](const char* when) {
        for (int id = 1; id <= max_id; ++id) {
            const bool want = arrived.count(id) && model_needed(id);
            const osmium::Way* w = mdb.get(id);
            if ((w != nullptr) != want || (w && w->id() != id)) {
                std::printf("%s: lookup of way %d gives %s, the model of the history says %s\n", when, id, w ? "an object" : "absent", want ? "available (a relation still needs it)" : "absent (never seen, not a member, or released after its last relation was completed)");
                return 1;
            }
        }
        return 0;
    };
    if (check_lookups("before the first way")) return 1;
    for (int w : h.present) {
        bool bad = false;
        arrived.insert(w);
        const bool added = mdb.add(buffer.get<osmium::Way>(way_pos[w]), [&](osmium::relations::RelationHandle& rh) {
            const std::size_t i = std::size_t((rh->id() < 0 ? -rh->id() : rh->id()) - 100);
            ++completed[i];
            for (const auto& m : rh->members()) { const auto* p = mdb.get(m.ref()); if (!p || p->id() != m.ref()) { std::printf("relation %zu completed but member %ld is not retrievable\n", i, long(m.ref())); bad = true; } }
            for (const auto& m : rh->members()) mdb.remove(m.ref(), rh->id());     // RelationsManager::handle_complete_relation
            rh.remove();
        });
        if (bad) return 1;
        bool is_member = false; for (const auto& r : h.rels) for (int m : r) is_member |= (m == w);
        if (added != is_member) { std::printf("way %d: add() says %s, but it is %sa member of a relation\n", w, added ? "needed" : "not needed", is_member ? "" : "not "); return 1; }
        for (std::size_t i = 0; i < h.rels.size(); ++i) {
            const int want = model_done(i) ? 1 : 0;
            if (completed[i] != want) { std::printf("after way %d: relation %zu was handed to the completion callback %d time(s), the model says %d\n", w, i, completed[i], want); return 1; }
        }
        if (check_lookups(("after way " + std::to_string(w)).c_str())) return 1;
    }
    std::size_t incomplete = 0; rdb.for_each_relation([&](const osmium::relations::RelationHandle&) { ++incomplete; });
    std::size_t want_incomplete = 0; for (std::size_t i = 0; i < h.rels.size(); ++i) want_incomplete += model_done(i) ? 0 : 1;
    if (incomplete != want_incomplete) { std::printf("%zu relations listed as incomplete, the model says %zu\n", incomplete, want_incomplete); return 1; }
    return 0;
}

static int run_child(const History& h) {
    std::fflush(stdout);
    const pid_t pid = fork();
    if (pid == 0) { _exit(run_history(h)); }
    int st = 0; waitpid(pid, &st, 0);
    if (WIFSIGNALED(st)) { std::printf("the process was killed by signal %d (assertion / memory error) in this history\n", WTERMSIG(st)); return 1; }
    return WEXITSTATUS(st);
}

int main(int argc, char** argv) {
    if (argc >= 2 && argv[1][0] == 'r') { const History h = parse(argv[1]); const int rc = run_child(h); if (rc) std::printf("history: %s\nARGV: %s\n", argv[1], argv[1]); return rc ? 1 : 0; }
    std::mt19937 rng(argc >= 3 ? unsigned(std::atoi(argv[2])) : 1U);
    for (int it = 0; it < 1500; ++it) {
        History h;
        const int nrel = 1 + int(rng() % 3);
        for (int i = 0; i < nrel; ++i) { std::vector<int> r; const int nm = 1 + int(rng() % 3); for (int k = 0; k < nm; ++k) r.push_back(1 + int(rng() % 4)); h.rels.push_back(r); }
        for (int w = 1; w <= 6; ++w) if (rng() % 4 != 0) h.present.push_back(w);
        if (run_child(h)) { const std::string s = to_string(h); std::printf("history: %s\nARGV: %s\n", s.c_str(), s.c_str()); return 1; }
    }
    std::printf("search: no disagreement found\n");
    return 0;
}
