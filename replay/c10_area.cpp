// native replay oracle for C10 (adapted from the independent demonstration of seeded change C10-a): assembles areas whose hole is aligned with a boundary vertex
// Demonstration for property C10 (assembled areas are valid multipolygons
// covering exactly the even-odd fill of the input).
//
// Scenario: a 10x10 square outer ring whose bottom edge carries an extra,
// collinear node at x=5 and a rectangular hole whose leftmost/lowest corner has
// the same x coordinate (x=5) as that extra node. The multipolygon is
// perfectly valid: one outer ring, one inner ring, area 100 - 8 = 92.
//
// Exits 0 if the assembler produces exactly that, 1 otherwise.

#include <osmium/area/assembler.hpp>
#include <osmium/area/assembler_config.hpp>
#include <osmium/builder/attr.hpp>
#include <osmium/memory/buffer.hpp>
#include <osmium/osm/area.hpp>
#include <osmium/osm/relation.hpp>
#include <osmium/osm/way.hpp>

#include <cstdint>
#include <cstdlib>
#include <iostream>
#include <vector>

using namespace osmium::builder::attr; // NOLINT

namespace {

// twice the signed area of a ring (integer coordinates, exact)
int64_t twice_signed_area(const osmium::NodeRefList& ring) {
    int64_t sum = 0;
    for (std::size_t i = 0; i + 1 < ring.size(); ++i) {
        const int64_t x1 = ring[i].location().x();
        const int64_t y1 = ring[i].location().y();
        const int64_t x2 = ring[i + 1].location().x();
        const int64_t y2 = ring[i + 1].location().y();
        sum += x1 * y2 - x2 * y1;
    }
    return sum;
}

int64_t iabs(int64_t v) {
    return v < 0 ? -v : v;
}

osmium::Location L(int32_t x, int32_t y) {
    return osmium::Location{x, y};
}

// Assemble a square (0,0)-(10,10) with an extra node on the bottom edge at
// x=extra_x and a hole (hole_x,3)-(hole_x+2,7). Returns number of failures.
int run(int32_t extra_x, int32_t hole_x, bool inner_first) {
    osmium::memory::Buffer buffer{10240};

    const auto outer_pos = osmium::builder::add_way(buffer,
        _id(1),
        _nodes({
            {1, L(0, 0)},
            {2, L(extra_x, 0)},
            {3, L(10, 0)},
            {4, L(10, 10)},
            {5, L(0, 10)},
            {1, L(0, 0)}
        })
    );

    const auto inner_pos = osmium::builder::add_way(buffer,
        _id(2),
        _nodes({
            {11, L(hole_x, 3)},
            {12, L(hole_x + 2, 3)},
            {13, L(hole_x + 2, 7)},
            {14, L(hole_x, 7)},
            {11, L(hole_x, 3)}
        })
    );

    std::size_t rel_pos = 0;
    if (inner_first) {
        rel_pos = osmium::builder::add_relation(buffer,
            _id(100),
            _tag("type", "multipolygon"),
            _member(osmium::item_type::way, 2, "inner"),
            _member(osmium::item_type::way, 1, "outer")
        );
    } else {
        rel_pos = osmium::builder::add_relation(buffer,
            _id(100),
            _tag("type", "multipolygon"),
            _member(osmium::item_type::way, 1, "outer"),
            _member(osmium::item_type::way, 2, "inner")
        );
    }

    const auto& outer_way = buffer.get<osmium::Way>(outer_pos);
    const auto& inner_way = buffer.get<osmium::Way>(inner_pos);
    const auto& relation  = buffer.get<osmium::Relation>(rel_pos);

    std::vector<const osmium::Way*> members;
    if (inner_first) {
        members = {&inner_way, &outer_way};
    } else {
        members = {&outer_way, &inner_way};
    }

    const osmium::area::AssemblerConfig config;
    osmium::area::Assembler assembler{config};

    osmium::memory::Buffer area_buffer{10240};

    std::cout << "scenario extra_x=" << extra_x << " hole_x=" << hole_x
              << (inner_first ? " (inner member first)" : " (outer member first)") << ": ";

    if (!assembler(relation, members, area_buffer)) {
        std::cout << "FAIL: valid multipolygon was not assembled\n";
        return 1;
    }

    const auto& area = area_buffer.get<osmium::Area>(0);
    const auto nr = area.num_rings();

    int64_t covered2 = 0; // twice the covered area according to the rings
    int failures = 0;
    for (const auto& outer : area.outer_rings()) {
        covered2 += iabs(twice_signed_area(outer));
        for (const auto& inner : area.inner_rings(outer)) {
            covered2 -= iabs(twice_signed_area(inner));
        }
    }

    if (nr.first != 1 || nr.second != 1) {
        std::cout << "FAIL: expected 1 outer + 1 inner ring, got "
                  << nr.first << " outer + " << nr.second << " inner";
        ++failures;
    }
    const int64_t expected2 = 2 * (100 - 8);
    if (covered2 != expected2) {
        std::cout << (failures ? "; " : "FAIL: ")
                  << "covered area (x2) is " << covered2 << ", even-odd fill of input is " << expected2;
        ++failures;
    }
    if (failures == 0) {
        std::cout << "ok";
    }
    std::cout << "\n";
    return failures;
}

} // namespace

int main() {
    int failures = 0;

    // control: hole's leftmost corner is not above any vertex of the outer ring
    failures += run(5, 4, false);
    failures += run(4, 5, false);

    // hole's leftmost/lowest corner (5,3) is straight above node (5,0) of the
    // outer ring
    failures += run(5, 5, false);
    failures += run(5, 5, true);

    if (failures) {
        std::cout << "PROPERTY VIOLATED (" << failures << " check(s) failed)\n";
        return 1;
    }
    std::cout << "property holds for all scenarios\n";
    return 0;
}
