#include <map>
#include <algorithm>
#include <utility>
#include <cstddef>
#include <osmium/osm/node_ref.hpp>
// native replay oracle for C10 (adapted from the independent demonstration of seeded change C10-a): assembles areas whose hole is aligned with a boundary vertex
// Demonstration for property C10 (assembled areas are valid multipolygons
// covering exactly the even-odd fill of the input).
//
// Scenario: a 10x10 square outer ring whose bottom edge carries an extra,
// collinear node at x=5 and a rectangular hole whose leftmost/lowest corner has
// the same x coordinate (x=5) as that extra node. The multipolygon is
// perfectly valid: one outer ring, one inner ring, area 100 - 8 = 92.
//
// Exits 0 if the assembler produces exactly that, 1 otherwise.

#include <osmium/area/assembler.hpp>
#include <osmium/area/assembler_config.hpp>
#include <osmium/builder/attr.hpp>
#include <osmium/memory/buffer.hpp>
#include <osmium/osm/area.hpp>
#include <osmium/osm/relation.hpp>
#include <osmium/osm/way.hpp>

#include <cstdint>
#include <cstdlib>
#include <iostream>
#include <vector>

using namespace osmium::builder::attr; // NOLINT

namespace {

// twice the signed area of a ring (integer coordinates, exact)
int64_t twice_signed_area(const osmium::NodeRefList& ring) {
    int64_t sum = 0;
    for (std::size_t i = 0; i + 1 < ring.size(); ++i) {
        const int64_t x1 = ring[i].location().x();
        const int64_t y1 = ring[i].location().y();
        const int64_t x2 = ring[i + 1].location().x();
        const int64_t y2 = ring[i + 1].location().y();
        sum += x1 * y2 - x2 * y1;
    }
    return sum;
}

int64_t iabs(int64_t v) {
    return v < 0 ? -v : v;
}

osmium::Location L(int32_t x, int32_t y) {
    return osmium::Location{x, y};
}

// Assemble a square (0,0)-(10,10) with an extra node on the bottom edge at
// x=extra_x and a hole (hole_x,3)-(hole_x+2,7). Returns number of failures.
int run(int32_t extra_x, int32_t hole_x, bool inner_first) {
    osmium::memory::Buffer buffer{10240};

    const auto outer_pos = osmium::builder::add_way(buffer,
        _id(1),
        _nodes({
            {1, L(0, 0)},
            {2, L(extra_x, 0)},
            {3, L(10, 0)},
            {4, L(10, 10)},
            {5, L(0, 10)},
            {1, L(0, 0)}
        })
    );

    const auto inner_pos = osmium::builder::add_way(buffer,
        _id(2),
        _nodes({
            {11, L(hole_x, 3)},
            {12, L(hole_x + 2, 3)},
            {13, L(hole_x + 2, 7)},
            {14, L(hole_x, 7)},
            {11, L(hole_x, 3)}
        })
    );

    std::size_t rel_pos = 0;
    if (inner_first) {
        rel_pos = osmium::builder::add_relation(buffer,
            _id(100),
            _tag("type", "multipolygon"),
            _member(osmium::item_type::way, 2, "inner"),
            _member(osmium::item_type::way, 1, "outer")
        );
    } else {
        rel_pos = osmium::builder::add_relation(buffer,
            _id(100),
            _tag("type", "multipolygon"),
            _member(osmium::item_type::way, 1, "outer"),
            _member(osmium::item_type::way, 2, "inner")
        );
    }

    const auto& outer_way = buffer.get<osmium::Way>(outer_pos);
    const auto& inner_way = buffer.get<osmium::Way>(inner_pos);
    const auto& relation  = buffer.get<osmium::Relation>(rel_pos);

    std::vector<const osmium::Way*> members;
    if (inner_first) {
        members = {&inner_way, &outer_way};
    } else {
        members = {&outer_way, &inner_way};
    }

    const osmium::area::AssemblerConfig config;
    osmium::area::Assembler assembler{config};

    osmium::memory::Buffer area_buffer{10240};

    std::cout << "scenario extra_x=" << extra_x << " hole_x=" << hole_x
              << (inner_first ? " (inner member first)" : " (outer member first)") << ": ";

    if (!assembler(relation, members, area_buffer)) {
        std::cout << "FAIL: valid multipolygon was not assembled\n";
        return 1;
    }

    const auto& area = area_buffer.get<osmium::Area>(0);
    const auto nr = area.num_rings();

    int64_t covered2 = 0; // twice the covered area according to the rings
    int failures = 0;
    for (const auto& outer : area.outer_rings()) {
        covered2 += iabs(twice_signed_area(outer));
        for (const auto& inner : area.inner_rings(outer)) {
            covered2 -= iabs(twice_signed_area(inner));
        }
    }

    if (nr.first != 1 || nr.second != 1) {
        std::cout << "FAIL: expected 1 outer + 1 inner ring, got "
                  << nr.first << " outer + " << nr.second << " inner";
        ++failures;
    }
    const int64_t expected2 = 2 * (100 - 8);
    if (covered2 != expected2) {
        std::cout << (failures ? "; " : "FAIL: ")
                  << "covered area (x2) is " << covered2 << ", even-odd fill of input is " << expected2;
        ++failures;
    }
    if (failures == 0) {
        std::cout << "ok";
    }
    std::cout << "\n";
    return failures;
}

} // namespace


// ---- rings that touch in the query location (scenarios adapted from the demonstration of seeded change C10-b) ----
namespace touch {
// Demonstration for property C10 (assembled areas are valid multipolygons).
//
// Scenario: rings that touch in a single shared node L, where L is the
// leftmost(-lowest) node of the second ring and the first ring passes
// through L from left to right (one of its segments ends in L, the next
// one starts in L).
//
//  Case A: two triangles that only touch in L. Both lie outside of each
//          other, so the result must be two outer rings and no inner ring.
//  Case B: a quadrilateral with a triangular hole that touches the outer
//          boundary in L. The result must be one outer ring with one inner
//          ring, and the inner ring must lie inside the outer ring.
//
// In both cases the result must not depend on member order.
//
// Exit code 0: property holds. Exit code 1: property violated.



using namespace osmium::builder::attr; // NOLINT

using nodes_type = std::vector<osmium::NodeRef>;

struct pt {
    double x;
    double y;
};

// independent even-odd point-in-polygon test (ring is closed: front == back)
static bool point_in_ring(const pt p, const osmium::NodeRefList& ring) {
    bool inside = false;
    for (std::size_t i = 0; i + 1 < ring.size(); ++i) {
        const double x1 = ring[i].location().x();
        const double y1 = ring[i].location().y();
        const double x2 = ring[i + 1].location().x();
        const double y2 = ring[i + 1].location().y();
        if ((y1 > p.y) != (y2 > p.y)) {
            const double xi = x1 + (p.y - y1) * (x2 - x1) / (y2 - y1);
            if (p.x < xi) {
                inside = !inside;
            }
        }
    }
    return inside;
}

// some point strictly inside a (triangular) ring: the centroid of its first three nodes
static pt centroid(const osmium::NodeRefList& ring) {
    pt c{0.0, 0.0};
    for (std::size_t i = 0; i < 3; ++i) {
        c.x += ring[i].location().x();
        c.y += ring[i].location().y();
    }
    c.x /= 3.0;
    c.y /= 3.0;
    return c;
}

struct result {
    bool assembled = false;
    std::size_t outer = 0;
    std::size_t inner = 0;
    bool inner_inside_outer = true;
};

static result assemble(const nodes_type& nodes1, const char* role1, const nodes_type& nodes2, const char* role2, bool swap_members) {
    osmium::memory::Buffer buffer{10240};

    const auto w1pos = osmium::builder::add_way(buffer, _id(1), _nodes(nodes1));
    const auto w2pos = osmium::builder::add_way(buffer, _id(2), _nodes(nodes2));

    std::size_t rpos = 0;
    if (swap_members) {
        rpos = osmium::builder::add_relation(buffer, _id(1),
                                             _tag("type", "multipolygon"),
                                             _member(osmium::item_type::way, 2, role2),
                                             _member(osmium::item_type::way, 1, role1));
    } else {
        rpos = osmium::builder::add_relation(buffer, _id(1),
                                             _tag("type", "multipolygon"),
                                             _member(osmium::item_type::way, 1, role1),
                                             _member(osmium::item_type::way, 2, role2));
    }

    std::vector<const osmium::Way*> members;
    if (swap_members) {
        members.push_back(&buffer.get<osmium::Way>(w2pos));
        members.push_back(&buffer.get<osmium::Way>(w1pos));
    } else {
        members.push_back(&buffer.get<osmium::Way>(w1pos));
        members.push_back(&buffer.get<osmium::Way>(w2pos));
    }

    osmium::area::AssemblerConfig config;
    config.create_empty_areas = false;
    osmium::area::Assembler assembler{config};

    osmium::memory::Buffer area_buffer{10240};
    result r;
    r.assembled = assembler(buffer.get<osmium::Relation>(rpos), members, area_buffer);
    if (!r.assembled) {
        return r;
    }

    const auto& area = area_buffer.get<osmium::Area>(0);
    for (const auto& outer_ring : area.outer_rings()) {
        ++r.outer;
        for (const auto& inner_ring : area.inner_rings(outer_ring)) {
            ++r.inner;
            if (!point_in_ring(centroid(inner_ring), outer_ring)) {
                r.inner_inside_outer = false;
            }
        }
    }
    return r;
}

static bool check(const char* name, const result& r, std::size_t want_outer, std::size_t want_inner) {
    bool ok = true;
    if (!r.assembled) {
        std::cout << name << ": valid input was NOT assembled\n";
        return false;
    }
    if (r.outer != want_outer || r.inner != want_inner) {
        std::cout << name << ": expected " << want_outer << " outer / " << want_inner
                  << " inner rings, got " << r.outer << " outer / " << r.inner << " inner\n";
        ok = false;
    }
    if (!r.inner_inside_outer) {
        std::cout << name << ": an inner ring does NOT lie inside the outer ring it is attached to\n";
        ok = false;
    }
    if (ok) {
        std::cout << name << ": ok (" << r.outer << " outer / " << r.inner << " inner)\n";
    }
    return ok;
}

int touch_main() {
    bool ok = true;

    // touching node L = node 3
    const osmium::Location L{2.0, 1.0};

    // Case A: two triangles touching in L only
    const nodes_type a1 = {{1, {0.0, 0.0}}, {2, {4.0, 0.0}}, {3, L}, {1, {0.0, 0.0}}};
    const nodes_type a2 = {{3, L}, {4, {2.0, 3.0}}, {5, {3.0, 3.0}}, {3, L}};
    ok &= check("A  (two touching outer triangles)          ", assemble(a1, "outer", a2, "outer", false), 2, 0);
    ok &= check("A' (same, member order swapped)            ", assemble(a1, "outer", a2, "outer", true), 2, 0);

    // Case B: quadrilateral with a triangular hole touching the boundary in L
    const osmium::Location M{2.0, 0.0};
    const nodes_type b1 = {{1, {0.0, 3.0}}, {2, M}, {3, {6.0, 3.0}}, {4, {3.0, 8.0}}, {1, {0.0, 3.0}}};
    const nodes_type b2 = {{2, M}, {5, {3.0, 2.0}}, {6, {2.0, 3.0}}, {2, M}};
    ok &= check("B  (outer with inner touching in one node) ", assemble(b1, "outer", b2, "inner", false), 1, 1);
    ok &= check("B' (same, member order swapped)            ", assemble(b1, "outer", b2, "inner", true), 1, 1);

    if (!ok) {
        std::cout << "PROPERTY VIOLATED\n";
        return 1;
    }
    std::cout << "property holds\n";
    return 0;
}

} // namespace touch


// ---- coinciding segments with different node ids (scenarios adapted from the demonstration of seeded change C10-c) ----
namespace dupseg {
// Demo for property C10: two adjacent unit squares given as two "outer" ways
// of a multipolygon relation. The shared edge is mapped twice. The even-odd
// fill is the 2x1 rectangle, so the assembled area must be ONE outer ring
// without the shared edge, and no segment may appear twice in the output.
// The result must not depend on whether the shared corners use the same node
// ids or distinct nodes at identical locations.



using namespace osmium::builder::attr; // NOLINT

namespace {

using loc_pair = std::pair<std::pair<int32_t, int32_t>, std::pair<int32_t, int32_t>>;

struct result {
    bool ok = false;
    std::size_t outer = 0;
    std::size_t inner = 0;
    int64_t area2 = 0;          // twice the covered area (outer minus inner), in 1e-7 deg units
    int max_segment_use = 0;    // how often the most used (undirected) segment appears
    bool rings_closed = true;
    bool orientation_ok = true;
    std::vector<loc_pair> segments;
};

template <typename TRing>
int64_t ring_sum(const TRing& ring) {
    int64_t sum = 0;
    for (auto it = ring.begin(); std::next(it) != ring.end(); ++it) {
        const int64_t x1 = it->location().x();
        const int64_t y1 = it->location().y();
        const int64_t x2 = std::next(it)->location().x();
        const int64_t y2 = std::next(it)->location().y();
        sum += x1 * y2 - x2 * y1;
    }
    return sum;
}

template <typename TRing>
void collect(const TRing& ring, result& r) {
    if (ring.size() < 4 || ring.front().location() != ring.back().location()) {
        r.rings_closed = false;
    }
    for (auto it = ring.begin(); std::next(it) != ring.end(); ++it) {
        std::pair<int32_t, int32_t> a{it->location().x(), it->location().y()};
        std::pair<int32_t, int32_t> b{std::next(it)->location().x(), std::next(it)->location().y()};
        if (b < a) {
            std::swap(a, b);
        }
        r.segments.emplace_back(a, b);
    }
}

// id_a / id_b: node ids used by the second square for the two shared corners
result run(osmium::object_id_type id_a, osmium::object_id_type id_b, bool swap_members) {
    osmium::memory::Buffer buffer{10240};

    const auto w1 = osmium::builder::add_way(buffer,
        _id(10),
        _nodes({
            {1, {0.0, 0.0}},
            {2, {0.0, 1.0}},
            {3, {1.0, 1.0}},
            {4, {1.0, 0.0}},
            {1, {0.0, 0.0}}
        })
    );

    const auto w2 = osmium::builder::add_way(buffer,
        _id(11),
        _nodes({
            {id_a, {1.0, 0.0}},
            {id_b, {1.0, 1.0}},
            {7, {2.0, 1.0}},
            {8, {2.0, 0.0}},
            {id_a, {1.0, 0.0}}
        })
    );

    const auto rpos = swap_members ?
        osmium::builder::add_relation(buffer,
            _id(100),
            _tag("type", "multipolygon"),
            _member(osmium::item_type::way, 11, "outer"),
            _member(osmium::item_type::way, 10, "outer")) :
        osmium::builder::add_relation(buffer,
            _id(100),
            _tag("type", "multipolygon"),
            _member(osmium::item_type::way, 10, "outer"),
            _member(osmium::item_type::way, 11, "outer"));

    std::vector<const osmium::Way*> members;
    if (swap_members) {
        members.push_back(&buffer.get<osmium::Way>(w2));
        members.push_back(&buffer.get<osmium::Way>(w1));
    } else {
        members.push_back(&buffer.get<osmium::Way>(w1));
        members.push_back(&buffer.get<osmium::Way>(w2));
    }

    const osmium::area::AssemblerConfig config;
    osmium::area::Assembler assembler{config};

    osmium::memory::Buffer area_buffer{10240};
    result r;
    r.ok = assembler(buffer.get<osmium::Relation>(rpos), members, area_buffer);
    if (!r.ok || area_buffer.committed() == 0) {
        r.ok = false;
        return r;
    }

    const auto& area = area_buffer.get<osmium::Area>(0);
    for (const auto& outer : area.outer_rings()) {
        ++r.outer;
        const int64_t s = ring_sum(outer);
        if (s <= 0) { // the library emits outer rings with positive shoelace sum...
            r.orientation_ok = false;
        }
        r.area2 += std::abs(s);
        collect(outer, r);
        for (const auto& inner : area.inner_rings(outer)) {
            ++r.inner;
            const int64_t si = ring_sum(inner);
            if (si >= 0) { // ...and inner rings with negative shoelace sum
                r.orientation_ok = false;
            }
            r.area2 -= std::abs(si);
            collect(inner, r);
        }
    }

    std::map<loc_pair, int> uses;
    for (const auto& s : r.segments) {
        r.max_segment_use = std::max(r.max_segment_use, ++uses[s]);
    }
    std::sort(r.segments.begin(), r.segments.end());
    return r;
}

int check(const char* name, const result& r, const result& reference) {
    int errors = 0;
    const int64_t unit = 10000000;
    std::cout << name << ": ok=" << r.ok << " outer=" << r.outer << " inner=" << r.inner
              << " area2=" << r.area2 << " segments=" << r.segments.size()
              << " max_segment_use=" << r.max_segment_use << "\n";
    if (!r.ok) {
        std::cout << "  VIOLATION: valid input was not assembled\n";
        return 1;
    }
    if (!r.rings_closed) {
        std::cout << "  VIOLATION: ring not closed or fewer than four points\n";
        ++errors;
    }
    if (!r.orientation_ok) {
        std::cout << "  VIOLATION: wrong ring orientation\n";
        ++errors;
    }
    if (r.max_segment_use > 1) {
        std::cout << "  VIOLATION: a segment appears " << r.max_segment_use
                  << " times in the rings of the area (overlapping ring segments)\n";
        ++errors;
    }
    if (r.area2 != 2 * 2 * unit * unit) {
        std::cout << "  VIOLATION: covered region is not the even-odd fill of the input\n";
        ++errors;
    }
    if (r.outer != 1 || r.inner != 0) {
        std::cout << "  VIOLATION: expected exactly one outer ring (the 2x1 rectangle), got "
                  << r.outer << " outer / " << r.inner << " inner\n";
        ++errors;
    }
    if (r.segments != reference.segments) {
        std::cout << "  VIOLATION: geometry differs from the one built with shared node ids\n";
        ++errors;
    }
    return errors;
}

} // namespace

int dup_main() {
    // Reference: second square re-uses nodes 4 and 3 for the shared corners.
    const result shared = run(4, 3, false);
    // Same geometry, but the second square has its own nodes 5 and 6 at the
    // very same locations as nodes 4 and 3.
    const result distinct = run(5, 6, false);
    const result distinct_swapped = run(5, 6, true);

    int errors = 0;
    errors += check("shared node ids       ", shared, shared);
    errors += check("distinct node ids     ", distinct, shared);
    errors += check("distinct ids, swapped ", distinct_swapped, shared);

    if (errors) {
        std::cout << "FAIL: property C10 violated (" << errors << " problems)\n";
        return 1;
    }
    std::cout << "PASS\n";
    return 0;
}

} // namespace dupseg

int main() {
    int failures = 0;

    // control: hole's leftmost corner is not above any vertex of the outer ring
    failures += run(5, 4, false);
    failures += run(4, 5, false);

    // hole's leftmost/lowest corner (5,3) is straight above node (5,0) of the
    // outer ring
    failures += run(5, 5, false);
    failures += run(5, 5, true);

    failures += touch::touch_main();
    failures += dupseg::dup_main();

    if (failures) {
        std::cout << "PROPERTY VIOLATED (" << failures << " check(s) failed)\n";
        return 1;
    }
    std::cout << "property holds for all scenarios\n";
    return 0;
}
