// CXXFLAGS: -fsanitize=address,undefined -fno-sanitize-recover=all
// native replay oracle for C13: text <-> number conversions, against an exact decimal reference
#include <osmium/osm/location.hpp>
#include <osmium/osm/timestamp.hpp>
#include <osmium/osm/types_from_string.hpp>
#include <osmium/io/opl_output.hpp>
#include <osmium/io/writer.hpp>
#include <osmium/builder/osm_object_builder.hpp>
#include <fstream>
#include <unistd.h>
#include <osmium/io/detail/opl_parser_functions.hpp>
#include <osmium/io/detail/output_format.hpp>
#include <random>
#include <string>
#include "util.hpp"

typedef __int128 i128;

// ---- reference: the accepted grammar and its exact decimal value -------------------------------
//  -? ( D{1,10} ( '.' D{0,27} )? | '.' D{1,27} ) ( [eE] -? D{1,5} )?     greedy, no backtracking
struct RefResult { bool ok; long long value; size_t consumed; };
static bool isd(char c) { return c >= '0' && c <= '9'; }
static RefResult ref_coord(const std::string& s) {
    RefResult bad{false, 0, 0};
    size_t i = 0; auto at = [&](size_t k) -> char { return k < s.size() ? s[k] : '\0'; };
    bool neg = false; if (at(i) == '-') { neg = true; ++i; }
    std::vector<int> A; size_t ni = 0;
    if (at(i) != '.') {
        if (!isd(at(i))) return bad;
        while (isd(at(i))) { A.push_back(at(i) - '0'); ++i; ++ni; }
        if (ni > 10) return bad;
    } else if (!isd(at(i + 1))) return bad;
    if (at(i) == '.') {
        ++i; size_t nf = 0;
        while (isd(at(i))) { A.push_back(at(i) - '0'); ++i; ++nf; }
        if (nf > 27) return bad;
    }
    long long E = 0;
    if (at(i) == 'e' || at(i) == 'E') {
        ++i; bool eneg = false; if (at(i) == '-') { eneg = true; ++i; }
        if (!isd(at(i))) return bad;
        size_t ne = 0; while (isd(at(i))) { E = E * 10 + (at(i) - '0'); ++i; ++ne; if (ne > 6) break; }
        if (ne > 5) return bad;
        if (eneg) E = -E;
    }
    // value * 10^7, rounded half up in magnitude: decimal point moves to position P in the digit string A
    long long P = static_cast<long long>(ni) + 7 + E;
    i128 M = 0; const i128 BIG = static_cast<i128>(1) << 100;
    if (P > 0) {
        for (long long k = 0; k < P; ++k) {
            int d = k < static_cast<long long>(A.size()) ? A[k] : 0;
            M = M * 10 + d; if (M > BIG) { M = BIG; if (k >= static_cast<long long>(A.size())) break; }
            if (M == 0 && k >= static_cast<long long>(A.size())) break;
        }
    }
    int rd = (P >= 0 && P < static_cast<long long>(A.size())) ? A[P] : 0;
    if (rd >= 5) M += 1;
    i128 v = neg ? -M : M;
    if (v > INT32_MAX || v < INT32_MIN) return bad;
    return RefResult{true, static_cast<long long>(v), i};
}

static int check_coord(const std::string& s, bool quiet) {
    ExactCStr c{s};
    const char* p = c.p; const char** data = &p;
    bool threw = false; bool wrongexc = false; int32_t got = 0;
    try { got = osmium::detail::string_to_location_coordinate(data); }
    catch (const osmium::invalid_location&) { threw = true; }
    catch (...) { threw = true; wrongexc = true; }
    // the reference sees the bytes up to the first NUL, like the real function
    RefResult r = ref_coord(std::string(c.p));
    bool bad = false; std::string why;
    if (wrongexc) { bad = true; why = "exception is not osmium::invalid_location"; }
    else if (threw != !r.ok) { bad = true; why = threw ? "real code rejected a string the grammar accepts" : "real code accepted a string that must be rejected"; }
    else if (!threw && got != r.value) { bad = true; why = "wrong value"; }
    else if (!threw && static_cast<size_t>(p - c.p) != r.consumed) { bad = true; why = "consumed a different number of characters"; }
    else if (threw && p != c.p) { bad = true; why = "pointer advanced although the input was rejected"; }
    if (bad) {
        std::printf("string_to_location_coordinate(\"%s\"): %s\n  real code: %s value=%d consumed=%ld\n  reference: %s value=%lld consumed=%zu\n",
                    printable(s).c_str(), why.c_str(), threw ? "threw" : "returned", got, long(p - c.p), r.ok ? "accepts" : "rejects", r.value, r.consumed);
        std::printf("ARGV: coord %s\n", tohex(s).c_str());
        return 1;
    }
    if (!quiet) std::printf("string_to_location_coordinate(\"%s\") agrees with the reference (%s %d)\n", printable(s).c_str(), threw ? "rejected" : "value", got);
    return 0;
}

// ---- formatter and round trip --------------------------------------------------------------------
static std::string ref_format(int32_t x) {
    long long v = x; std::string o; if (v < 0) { o += '-'; v = -v; }
    char b[32]; std::snprintf(b, sizeof b, "%lld.%07lld", v / 10000000, v % 10000000); o += b;
    while (o.back() == '0') o.pop_back();
    if (o.back() == '.') o.pop_back();
    return o;
}
static int check_fmt(int32_t x, bool quiet) {
    char* buf = static_cast<char*>(std::malloc(12));   // documented maximum: "-214.7483648" = 12 chars
    char* e = osmium::detail::append_location_coordinate_to_string(buf, x);
    std::string got(buf, e); std::free(buf);
    std::string want = ref_format(x);
    if (got != want) { std::printf("append_location_coordinate_to_string(%d): real code \"%s\", reference \"%s\"\nARGV: fmt %d\n", x, got.c_str(), want.c_str(), x); return 1; }
    ExactCStr c{got}; const char* p = c.p; int32_t back = 0; bool threw = false;
    try { back = osmium::detail::string_to_location_coordinate(&p); } catch (...) { threw = true; }
    if (threw || back != x || *p != 0) { std::printf("round trip of %d through \"%s\": %s %d\nARGV: fmt %d\n", x, got.c_str(), threw ? "threw" : "gave", back, x); return 1; }
    if (!quiet) std::printf("format/parse of %d agrees (\"%s\")\n", x, got.c_str());
    return 0;
}

// ---- opl_parse_int<T> -----------------------------------------------------------------------------
template <typename T> static int check_int_t(const std::string& s, const char* tn, bool quiet) {
    ExactCStr c{s}; const char* p = c.p; bool threw = false; T got = 0;
    try { got = osmium::io::detail::opl_parse_int<T>(&p); } catch (const osmium::opl_error&) { threw = true; }
    // reference: -?D+ greedy; exact value must lie in T
    std::string z(c.p); size_t i = 0; bool neg = false; if (i < z.size() && z[i] == '-') { neg = true; ++i; }
    bool ok = i < z.size() && isd(z[i]); i128 v = 0; bool big = false;
    while (ok && i < z.size() && isd(z[i])) { v = v * 10 + (z[i] - '0'); if (v > (static_cast<i128>(1) << 70)) big = true; if (big) v = static_cast<i128>(1) << 70; ++i; }
    if (neg) v = -v;
    if (ok && (v < static_cast<i128>(std::numeric_limits<T>::min()) || v > static_cast<i128>(std::numeric_limits<T>::max()))) ok = false;
    bool bad = (threw != !ok) || (!threw && (static_cast<i128>(got) != v || static_cast<size_t>(p - c.p) != i));
    if (bad) { std::printf("opl_parse_int<%s>(\"%s\"): real code %s %lld consumed %ld; reference %s %lld consumed %zu\nARGV: int %s %s\n", tn, printable(s).c_str(), threw ? "threw" : "returned", (long long)got, long(p - c.p), ok ? "accepts" : "rejects", (long long)v, i, tn, tohex(s).c_str()); return 1; }
    if (!quiet) std::printf("opl_parse_int<%s>(\"%s\") agrees\n", tn, printable(s).c_str());
    return 0;
}
static int check_int(const std::string& t, const std::string& s, bool quiet) {
    if (t == "int64_t") return check_int_t<int64_t>(s, "int64_t", quiet);
    if (t == "int32_t") return check_int_t<int32_t>(s, "int32_t", quiet);
    if (t == "uint32_t") return check_int_t<uint32_t>(s, "uint32_t", quiet);
    return 2;
}

static std::string gen_coord(std::mt19937_64& rng) {
    std::string s; auto digs = [&](int n) { for (int i = 0; i < n; ++i) s += char('0' + (rng() % 4 == 0 ? (rng() % 2 ? 0 : 9) : rng() % 10)); };
    if (rng() % 2) s += '-';
    int shape = rng() % 8;
    if (shape == 0) { s += '.'; digs(1 + rng() % 28); }
    else { digs(1 + rng() % (rng() % 6 == 0 ? 12 : 4)); if (rng() % 3) { s += '.'; digs(rng() % (rng() % 4 == 0 ? 30 : 10)); } }
    if (rng() % 3 == 0) { s += (rng() % 2 ? 'e' : 'E'); if (rng() % 2) s += '-'; digs(rng() % 7 == 0 ? 6 : 1 + rng() % 2); }
    if (rng() % 4 == 0) s += " ,x\t5.e-"[rng() % 8];
    if (rng() % 16 == 0 && !s.empty()) s.erase(rng() % s.size(), 1);
    return s;
}

// string_to_object_version / changeset / uid (string_to_ulong): "-1" means 0; otherwise optional '+', decimal digits only, value below 2^32-1, whole string
static int check_attr(const std::string& s, bool search) {
    bool ref_ok = false; unsigned long long ref = 0;
    if (s == "-1") { ref_ok = true; ref = 0; }
    else if (!s.empty() && s[0] != '-' && !std::isspace(static_cast<unsigned char>(s[0]))) {
        size_t i = (s[0] == '+') ? 1 : 0; bool digits = i < s.size(); unsigned __int128 v = 0;
        for (; i < s.size(); ++i) { if (s[i] < '0' || s[i] > '9') { digits = false; break; } v = v * 10 + unsigned(s[i] - '0'); if (v > (unsigned __int128)1 << 70) v = (unsigned __int128)1 << 70; }
        if (digits && v < 4294967295ULL) { ref_ok = true; ref = static_cast<unsigned long long>(v); }
    }
    bool ok = true; unsigned long long got = 0;
    try { got = osmium::string_to_object_version(s.c_str()); } catch (const std::range_error&) { ok = false; }
    if (ok != ref_ok || (ok && got != ref)) {
        std::printf("string_to_object_version(\"%s\"): library %s%llu, reference %s%llu\nARGV: attr %s\n", s.c_str(), ok ? "returns " : "rejects ", got, ref_ok ? "returns " : "rejects ", ref, search ? "search" : s.c_str());
        return 1; }
    return 0;
}

// output_int through the OPL writer: the id of a node as text
static int check_outint(long long v, bool search) {
    char name[] = "/tmp/c13_outint_XXXXXX"; const int fd = mkstemp(name); if (fd < 0) return 2; close(fd);
    { osmium::io::File f{name, "opl"}; osmium::io::Writer w{f, osmium::io::overwrite::allow}; osmium::memory::Buffer buf{10240};
      { osmium::builder::NodeBuilder b{buf}; b.set_id(v).set_version(1); b.set_user("u"); }
      buf.commit(); w(std::move(buf)); w.close(); }
    std::ifstream in(name); std::string line; std::getline(in, line); unlink(name);
    const std::string got = line.substr(1, line.find(' ') - 1); const std::string want = std::to_string(v);
    if (got != want) { std::printf("OPL writer: node id %lld is written as \"%s\"\nARGV: outint %s\n", v, got.c_str(), search ? "search" : want.c_str()); return 1; }
    return 0;
}

// Timestamp::to_iso_all against strftime(gmtime_r), and the parse/format round trip
static int check_iso(uint32_t t, bool search) {
    const std::string got = osmium::Timestamp{t}.to_iso_all();
    char ref[32]; std::time_t tt = t; std::tm tm; gmtime_r(&tt, &tm); std::strftime(ref, sizeof ref, "%Y-%m-%dT%H:%M:%SZ", &tm);
    if (got != ref) { std::printf("Timestamp(%u).to_iso_all() = \"%s\", the calendar says \"%s\"\nARGV: iso %u\n", t, got.c_str(), ref, search ? 0u : t); return 1; }
    if (uint32_t(osmium::Timestamp{got.c_str()}) != t) { std::printf("parse(iso(%u)) = %u\nARGV: iso %u\n", t, uint32_t(osmium::Timestamp{got.c_str()}), t); return 1; }
    return 0;
}

int main(int argc, char** argv) {
    if (argc >= 2 && std::string(argv[1]) == "--search") {
        unsigned seed = argc > 2 ? unsigned(std::atoll(argv[2])) : 0; std::string only = argc > 3 ? argv[3] : "";
        std::mt19937_64 rng(seed);
        bool all = only.empty();
        if (all || only == "string_to_location_coordinate" || only.find("coord") != std::string::npos) {
            const char* corpus[] = {"", "-", ".", "-.", "1", "1.", ".5", "1e", "1e-", "1e5", "180", "180.0000000", "214.7483647", "214.7483648", "-214.7483648", "-214.7483649",
                                    "0.00000005", "0.00000004999", "1e100", "0.5e64", "2e63", "1e-100", "0e99999", "0.000000012345e5", "1.00000000999e1", "12345678901", "1.0000000000000000000000000001", "1e123456"};
            for (auto c : corpus) if (check_coord(c, true)) return 1;
            for (int i = 0; i < 300000; ++i) if (check_coord(gen_coord(rng), true)) return 1;
        }
        if (all || only.find("append_location") != std::string::npos || only.find("roundtrip") != std::string::npos || only.find("coord") != std::string::npos) {
            const int32_t edge[] = {0, 1, -1, 9, 10, 9999999, 10000000, 10000001, 99999999, 100000000, 999999999, 1000000000, 1800000000, INT32_MAX, INT32_MIN, INT32_MIN + 1};
            for (auto x : edge) if (check_fmt(x, true)) return 1;
            for (int i = 0; i < 300000; ++i) if (check_fmt(int32_t(rng()), true)) return 1;
        }
        if (all || only.find("opl_parse_int") != std::string::npos) {
            const char* ts[] = {"int64_t", "int32_t", "uint32_t"};
            const char* corpus[] = {"0", "-0", "-", "", "9223372036854775807", "9223372036854775808", "-9223372036854775808", "-9223372036854775809", "4294967295", "4294967296", "2147483647", "2147483648", "-2147483648", "-2147483649", "-1", "00000000000000000000001", "99999999999999999999"};
            for (auto t : ts) { if (!all && only.find(t) == std::string::npos && only != "opl_parse_int") continue;
                for (auto c : corpus) if (check_int(t, c, true)) return 1;
                for (int i = 0; i < 100000; ++i) { std::string s; if (rng() % 3 == 0) s += '-'; int n = rng() % 22; for (int k = 0; k < n; ++k) s += char('0' + rng() % 10); if (rng() % 4 == 0) s += " x"[rng() % 2]; if (check_int(t, s, true)) return 1; } }
        }
        if (all || only.find("timestamp") != std::string::npos || only.find("iso") != std::string::npos) {
            for (uint32_t t : {0u, 1u, 86399u, 86400u, 951782400u, 4102444799u, 4102444800u, 4294967295u, 2147483648u, 1583020800u}) if (check_iso(t, true)) return 1;
            for (int i = 0; i < 200000; ++i) if (check_iso(uint32_t(rng()), true)) return 1;
        }
        if (all || only.find("output_int") != std::string::npos) {
            for (long long v : {0LL, 1LL, -1LL, 9LL, 10LL, -10LL, 9223372036854775807LL, -9223372036854775807LL, -9223372036854775807LL - 1, 1000000000000000000LL, -999999999999999999LL}) if (check_outint(v, true)) return 1;
            for (int i = 0; i < 300; ++i) if (check_outint((long long)rng(), true)) return 1;
        }
        if (all || only.find("string_to") != std::string::npos) {
            const char* corpus[] = {"", "-1", "-0", "-2", "0", "1", "+5", " 5", "5 ", "4294967294", "4294967295", "4294967296", "18446744073709551615", "18446744073709551616", "-18446744073709551615",
                                    "-18446744073709551574", "-18446744069414584322", "-18446744073709551616", "99999999999999999999999", "0x10", "1e3", "00000000000000000000000000000000000007", "-", "+"};
            for (auto c : corpus) if (check_attr(c, true)) return 1;
            for (int i = 0; i < 200000; ++i) { std::string s2; if (rng() % 4 == 0) s2 += "-+ "[rng() % 3]; int n = rng() % 22; for (int k = 0; k < n; ++k) s2 += char('0' + rng() % 10); if (rng() % 8 == 0) s2 += " x"[rng() % 2]; if (check_attr(s2, true)) return 1; }
        }
        std::printf("search: no disagreement found\n");
        return 0;
    }
    if (argc < 3) return 2;
    std::string m = argv[1];
    if (m == "coord") return check_coord(unhex(argv[2]), false);
    if (m == "iso") return check_iso(uint32_t(std::atoll(argv[2])), false);
    if (m == "outint") return check_outint(std::atoll(argv[2]), false);
    if (m == "attr") return check_attr(argv[2], false);
    if (m == "fmt") return check_fmt(int32_t(std::atoll(argv[2])), false);
    if (m == "int" && argc >= 4) return check_int(argv[2], unhex(argv[3]), false);
    return 2;
}
