// shared helpers for the native replay oracles
#pragma once
#include <string>
#include <vector>
#include <cstdio>
#include <cstdlib>
#include <cstdint>
#include <cstring>
inline std::string unhex(const char* h) {
    std::string out;
    if (!h || (h[0] == '-' && h[1] == 0)) return out;
    size_t n = std::strlen(h);
    for (size_t i = 0; i + 1 < n; i += 2) {
        unsigned v = 0;
        std::sscanf(h + i, "%2x", &v);
        out.push_back(static_cast<char>(v));
    }
    return out;
}
inline std::string tohex(const std::string& s) {
    static const char* d = "0123456789abcdef";
    std::string o;
    for (unsigned char c : s) { o.push_back(d[c >> 4]); o.push_back(d[c & 15]); }
    return o.empty() ? "-" : o;
}
inline std::string printable(const std::string& s) {
    std::string o;
    for (unsigned char c : s) { if (c >= 32 && c < 127) o.push_back(char(c)); else { char b[8]; std::snprintf(b, 8, "\\x%02x", c); o += b; } }
    return o;
}
// a heap copy with the NUL exactly at the end of the allocation, so ASan sees any read past it
struct ExactCStr {
    char* p;
    explicit ExactCStr(const std::string& s) : p(static_cast<char*>(std::malloc(s.size() + 1))) { std::memcpy(p, s.data(), s.size()); p[s.size()] = 0; }
    ~ExactCStr() { std::free(p); }
    ExactCStr(const ExactCStr&) = delete;
};
