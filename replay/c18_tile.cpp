// CXXFLAGS: -fsanitize=undefined,float-cast-overflow -fno-sanitize-recover=all
// native replay oracle for C18: tile numbers for any double / any valid location
#include <osmium/geom/tile.hpp>
#include <osmium/geom/mercator_projection.hpp>
#include <osmium/osm/location.hpp>
#include <cmath>
#include <random>
#include <string>
#include <cstring>
#include "util.hpp"
using namespace osmium::geom;

static double from_bits(const char* s) { unsigned long long b = std::strtoull(s, nullptr, 16); double d; std::memcpy(&d, &b, 8); return d; }
static std::string bits(double d) { unsigned long long b; std::memcpy(&b, &d, 8); char buf[32]; std::snprintf(buf, 32, "%llx", b); return buf; }

static int check_tile(bool isx, uint32_t zoom, double v, bool quiet) {
    uint32_t t = isx ? mercx_to_tilex(zoom, v) : mercy_to_tiley(zoom, v);
    const double M = detail::max_coordinate_epsg3857; uint32_t last = (1u << zoom) - 1;
    bool lo = isx ? (v <= -M) : (v >= M), hi = isx ? (v >= M) : (v <= -M);
    if (t > last || (lo && t != 0) || (hi && t != last)) {
        std::printf("%s(zoom %u, %.17g) = %u: outside the tile range / wrong edge tile (range 0..%u)\nARGV: %s %u %s\n", isx ? "mercx_to_tilex" : "mercy_to_tiley", zoom, v, t, last, isx ? "tilex" : "tiley", zoom, bits(v).c_str());
        return 1; }
    if (!quiet) std::printf("tile %u ok\n", t);
    return 0;
}

static int check_location(uint32_t zoom, int32_t x, int32_t y) {
    osmium::Location loc{x, y};
    Tile t{zoom, loc};
    uint32_t last = (1u << zoom) - 1;
    if (t.x > last || t.y > last) { std::printf("Tile(zoom %u, location %d %d) = %u/%u outside 0..%u\nARGV: loc %u %d %d\n", zoom, x, y, t.x, t.y, last, zoom, x, y); return 1; }
    // moving south never decreases y; moving east never decreases x; finer zoom nests
    if (y > -900000000) { Tile s{zoom, osmium::Location{x, y - 1}}; if (s.y < t.y) { std::printf("tile y decreases when moving south at zoom %u lat %d\nARGV: loc %u %d %d\n", zoom, y, zoom, x, y); return 1; } }
    if (x < 1800000000) { Tile e{zoom, osmium::Location{x + 1, y}}; if (e.x < t.x) { std::printf("tile x decreases when moving east at zoom %u lon %d\nARGV: loc %u %d %d\n", zoom, x, zoom, x, y); return 1; } }
    if (zoom < 30) { Tile f{zoom + 1, loc}; if ((f.x >> 1) != t.x || (f.y >> 1) != t.y) { std::printf("tile of zoom %u not inside tile of zoom %u for location %d %d\nARGV: loc %u %d %d\n", zoom + 1, zoom, x, y, zoom, x, y); return 1; } }
    return 0;
}

int main(int argc, char** argv) {
    if (argc >= 2 && std::string(argv[1]) == "--search") {
        unsigned seed = argc > 2 ? unsigned(std::atoll(argv[2])) : 0; std::mt19937_64 rng(seed);
        const double M = detail::max_coordinate_epsg3857;
        const double special[] = {0.0, M, -M, std::nextafter(M, 1e300), std::nextafter(-M, -1e300), 2.4e8, -2.4e8, -6.1e7, 6.1e7, 1e300, -1e300, INFINITY, -INFINITY, detail::lat_to_y(-89.995), detail::lat_to_y(89.995), detail::lon_to_x(180.0), detail::lon_to_x(-180.0)};
        for (uint32_t z = 0; z <= 30; ++z) for (double v : special) { if (check_tile(true, z, v, true)) return 1; if (check_tile(false, z, v, true)) return 1; }
        const int32_t lats[] = {-900000000, -899999999, -899950000, -899900000, -850511288, 0, 850511288, 899900000, 899999999, 900000000};
        const int32_t lons[] = {-1800000000, -1799999999, 0, 1799999999, 1800000000};
        for (uint32_t z = 0; z <= 30; ++z) for (auto la : lats) for (auto lo : lons) if (check_location(z, lo, la)) return 1;
        for (int i = 0; i < 300000; ++i) { uint32_t z = rng() % 31; int32_t lo = int32_t(rng() % 3600000001ULL) - 1800000000, la = int32_t(rng() % 1800000001ULL) - 900000000; if (check_location(z, lo, la)) return 1; }
        std::printf("search: no disagreement found\n"); return 0;
    }
    if (argc >= 4 && (std::string(argv[1]) == "tilex" || std::string(argv[1]) == "tiley")) return check_tile(argv[1][4] == 'x', uint32_t(std::atoll(argv[2])), from_bits(argv[3]), false);
    if (argc >= 5 && std::string(argv[1]) == "loc") return check_location(uint32_t(std::atoll(argv[2])), int32_t(std::atoll(argv[3])), int32_t(std::atoll(argv[4])));
    if (argc >= 3 && std::string(argv[1]) == "laty") { double lat = from_bits(argv[2]); double y = detail::lat_to_y(lat); double c = detail::lat_to_y_with_tan(lat);
        if ((lat < -78.0 || lat > 78.0) && y != c) { std::printf("lat_to_y(%.17g) = %.17g differs from the canonical formula %.17g outside the fitted range of the approximation\nARGV: laty %s\n", lat, y, c, bits(lat).c_str()); return 1; }
        std::printf("lat_to_y ok\n"); return 0; }
    return 2;
}
