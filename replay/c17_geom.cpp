// native replay oracle for C17: WKT output against a model of the coordinate sequence (duplicates, undefined locations, rings), double2string
#include <osmium/geom/wkt.hpp>
#include <osmium/geom/wkb.hpp>
#include <osmium/geom/geojson.hpp>
#include <osmium/builder/attr.hpp>
#include <osmium/geom/factory.hpp>
#include <osmium/builder/osm_object_builder.hpp>
#include <osmium/memory/buffer.hpp>
#include <osmium/osm/area.hpp>
#include <osmium/util/double.hpp>
#include <random>
#include <sstream>
#include <string>
#include <vector>
#include <cstdio>
#include <cmath>
using osmium::Location;

static std::string num(double v) { std::string s; osmium::double2string(s, v, 7); return s; }
static std::string pt(const Location& l) { return num(l.lon()) + " " + num(l.lat()); }

static int check_linestring(std::mt19937_64& rng) {
    osmium::geom::WKTFactory<> f; osmium::memory::Buffer buf{4096, osmium::memory::Buffer::auto_grow::yes};
    int n = 1 + rng() % 6; std::vector<Location> locs;
    for (int i = 0; i < n; ++i) { int r = rng() % 8; if (r == 0) locs.push_back(Location{}); else if (r <= 2 && !locs.empty()) locs.push_back(locs.back()); else locs.push_back(Location{int32_t(rng() % 5) * 10000000, int32_t(rng() % 5) * 10000000}); }
    { osmium::builder::WayBuilder wb{buf}; wb.set_id(1); { osmium::builder::WayNodeListBuilder nl{wb}; for (int i = 0; i < n; ++i) nl.add_node_ref(osmium::NodeRef{i + 1, locs[i]}); } }
    buf.commit(); const auto& way = buf.get<osmium::Way>(0);
    for (int uniq = 0; uniq < 2; ++uniq) for (int back = 0; back < 2; ++back) {
        std::vector<Location> seq(locs); if (back) std::reverse(seq.begin(), seq.end());
        std::vector<Location> want; bool bad = false;
        for (size_t i = 0; i < seq.size(); ++i) { if (!seq[i].valid()) bad = true; if (uniq && i > 0 && seq[i] == seq[i - 1]) continue; want.push_back(seq[i]); }
        std::string expect; if (!bad && want.size() >= 2) { expect = "LINESTRING("; for (size_t i = 0; i < want.size(); ++i) { if (i) expect += ','; expect += pt(want[i]); } expect += ")"; }
        std::string got; bool threw = false;
        try { got = f.create_linestring(way, uniq ? osmium::geom::use_nodes::unique : osmium::geom::use_nodes::all, back ? osmium::geom::direction::backward : osmium::geom::direction::forward); } catch (const std::exception&) { threw = true; }
        if (threw != expect.empty() || (!threw && got != expect)) {
            std::printf("linestring (%s, %s) of [", uniq ? "unique" : "all", back ? "backward" : "forward"); for (auto& l : locs) std::printf("%s ", l.valid() ? pt(l).c_str() : "undefined"); 
            std::printf("]: real code %s%s, the coordinate sequence demands %s\nARGV: search\n", threw ? "threw" : "gave ", got.c_str(), expect.empty() ? "a geometry or location error" : expect.c_str()); return 1; }
    }
    return 0;
}

static int check_multipolygon() {
    // outer ring, inner ring that starts where the outer ring ended, second outer ring that starts where the inner ring ended
    osmium::memory::Buffer buf{4096, osmium::memory::Buffer::auto_grow::yes};
    auto L = [](int x, int y) { return Location{x * 10000000, y * 10000000}; };
    std::vector<std::vector<Location>> rings = {{L(0,0), L(10,0), L(10,10), L(0,10), L(0,0)}, {L(0,0), L(5,1), L(1,5), L(0,0)}, {L(0,0), L(-3,0), L(0,-3), L(0,0)}};
    { osmium::builder::AreaBuilder ab{buf}; ab.set_id(2);
      { osmium::builder::OuterRingBuilder r{ab}; long id = 1; for (auto& l : rings[0]) r.add_node_ref(osmium::NodeRef{id++, l}); }
      { osmium::builder::InnerRingBuilder r{ab}; long id = 20; for (auto& l : rings[1]) r.add_node_ref(osmium::NodeRef{id++, l}); }
      { osmium::builder::OuterRingBuilder r{ab}; long id = 40; for (auto& l : rings[2]) r.add_node_ref(osmium::NodeRef{id++, l}); } }
    buf.commit();
    osmium::geom::WKTFactory<> f; std::string got = f.create_multipolygon(buf.get<osmium::Area>(0));
    auto ring = [&](const std::vector<Location>& r) { std::string s = "("; for (size_t i = 0; i < r.size(); ++i) { if (i) s += ','; s += pt(r[i]); } return s + ")"; };
    std::string expect = "MULTIPOLYGON((" + ring(rings[0]) + "," + ring(rings[1]) + "),(" + ring(rings[2]) + "))";
    if (got != expect) { std::printf("multipolygon with rings that start where the previous ring ended:\n  real code: %s\n  demanded:  %s\nARGV: multipolygon\n", got.c_str(), expect.c_str()); return 1; }
    return 0;
}

static int check_double2string(std::mt19937_64& rng) {
    for (int i = 0; i < 200000; ++i) {
        if (rng() % 50 == 0) { std::string t; osmium::double2string(t, 1e300 * double(rng() % 1000), int(rng() % 18)); }
        double v = (rng() % 3 == 0) ? double(int64_t(rng() % 40000000) - 20000000) : (double(int64_t(rng() % 4000000000ULL) - 2000000000LL) / 1e7) * ((rng() % 4 == 0) ? 111319.49 : 1.0);
        int prec = (rng() % 5 == 0) ? int(rng() % 18) : 7;
        std::string s; osmium::double2string(s, v, prec);
        char ref[64]; std::snprintf(ref, sizeof ref, "%.*f", prec, v); std::string r(ref); if (r.find('.') != std::string::npos) { while (r.back() == '0') r.pop_back(); if (r.back() == '.') r.pop_back(); }
        if (s != r) { std::printf("double2string(%.17g, precision %d) = \"%s\", exact to the requested precision is \"%s\"\nARGV: search\n", v, prec, s.c_str(), r.c_str()); return 1; }
    }
    return 0;
}

// a WKB factory that is used again after a geometry failed half way: the next result must be what a fresh factory gives
static int check_wkb_reuse() {
    using namespace osmium::builder::attr;
    osmium::memory::Buffer buf{10240};
    const auto bad_line = osmium::builder::add_way(buf, _id(1), _nodes({{1, {1.0, 1.0}}}));                                   // one point: create_linestring throws after linestring_start
    const auto good_line = osmium::builder::add_way(buf, _id(2), _nodes({{1, {1.0, 1.0}}, {2, {2.0, 2.0}}, {3, {3.0, 1.0}}}));
    const auto open_ring = osmium::builder::add_way(buf, _id(3), _nodes({{1, {0.0, 0.0}}, {2, {1.0, 0.0}}, {3, {1.0, 1.0}}}));  // not closed: create_polygon throws
    const auto ring = osmium::builder::add_way(buf, _id(4), _nodes({{1, {0.0, 0.0}}, {2, {1.0, 0.0}}, {3, {1.0, 1.0}}, {1, {0.0, 0.0}}}));
    for (auto wt : {osmium::geom::wkb_type::wkb, osmium::geom::wkb_type::ewkb}) {
        osmium::geom::WKBFactory<> used{wt}; osmium::geom::WKBFactory<> fresh1{wt}; osmium::geom::WKBFactory<> fresh2{wt};
        try { (void)used.create_linestring(buf.get<osmium::Way>(bad_line)); } catch (const std::exception&) {}
        if (used.create_linestring(buf.get<osmium::Way>(good_line)) != fresh1.create_linestring(buf.get<osmium::Way>(good_line))) {
            std::printf("WKB of a linestring created after a failed create_linestring differs from what a fresh factory creates (left-over bytes of the abandoned geometry)\nARGV: wkbreuse\n"); return 1; }
        try { (void)used.create_polygon(buf.get<osmium::Way>(open_ring)); } catch (const std::exception&) {}
        if (used.create_polygon(buf.get<osmium::Way>(ring)) != fresh2.create_polygon(buf.get<osmium::Way>(ring))) {
            std::printf("WKB of a polygon created after a failed create_polygon differs from what a fresh factory creates\nARGV: wkbreuse\n"); return 1; }
        try { (void)used.create_linestring(buf.get<osmium::Way>(bad_line)); } catch (const std::exception&) {}
        if (used.create_polygon(buf.get<osmium::Way>(ring)) != fresh2.create_polygon(buf.get<osmium::Way>(ring))) {
            std::printf("WKB of a polygon created after a failed create_linestring differs from what a fresh factory creates\nARGV: wkbreuse\n"); return 1; }
    }
    return 0;
}

// the same for the text formats: a WKT / GeoJSON factory used again after a geometry failed half way
template <typename TFactory> static int check_text_reuse_with(const char* what) {
    using namespace osmium::builder::attr;
    osmium::memory::Buffer buf{10240};
    const auto bad_line = osmium::builder::add_way(buf, _id(1), _nodes({{1, {1.0, 1.0}}}));
    const auto good_line = osmium::builder::add_way(buf, _id(2), _nodes({{1, {1.0, 1.0}}, {2, {2.0, 2.0}}, {3, {3.0, 1.0}}}));
    const auto open_ring = osmium::builder::add_way(buf, _id(3), _nodes({{1, {0.0, 0.0}}, {2, {1.0, 0.0}}, {3, {1.0, 1.0}}}));
    const auto ring = osmium::builder::add_way(buf, _id(4), _nodes({{1, {0.0, 0.0}}, {2, {1.0, 0.0}}, {3, {1.0, 1.0}}, {1, {0.0, 0.0}}}));
    TFactory used; TFactory fresh;
    try { (void)used.create_linestring(buf.get<osmium::Way>(bad_line)); } catch (const std::exception&) {}
    if (used.create_linestring(buf.get<osmium::Way>(good_line)) != fresh.create_linestring(buf.get<osmium::Way>(good_line))) {
        std::printf("%s of a linestring created after a failed create_linestring differs from what a fresh factory creates (left-over text of the abandoned geometry)\nARGV: textreuse\n", what); return 1; }
    try { (void)used.create_polygon(buf.get<osmium::Way>(open_ring)); } catch (const std::exception&) {}
    if (used.create_polygon(buf.get<osmium::Way>(ring)) != fresh.create_polygon(buf.get<osmium::Way>(ring))) {
        std::printf("%s of a polygon created after a failed create_polygon differs from what a fresh factory creates\nARGV: textreuse\n", what); return 1; }
    try { (void)used.create_polygon(buf.get<osmium::Way>(open_ring)); } catch (const std::exception&) {}
    if (used.create_linestring(buf.get<osmium::Way>(good_line)) != fresh.create_linestring(buf.get<osmium::Way>(good_line))) {
        std::printf("%s of a linestring created after a failed create_polygon differs from what a fresh factory creates\nARGV: textreuse\n", what); return 1; }
    return 0;
}
static int check_text_reuse() { return check_text_reuse_with<osmium::geom::WKTFactory<>>("WKT") || check_text_reuse_with<osmium::geom::GeoJSONFactory<>>("GeoJSON"); }

int main(int argc, char** argv) {
    if (argc > 1 && std::string(argv[1]) == "textreuse") return check_text_reuse();
    if (argc > 1 && std::string(argv[1]) == "wkbreuse") return check_wkb_reuse();
    unsigned seed = argc > 2 ? unsigned(std::atoll(argv[2])) : 1; std::mt19937_64 rng(seed);
    std::string only = argc > 3 ? argv[3] : "";
    if (only.empty() || only.find("linestring") != std::string::npos || only.find("polygon") != std::string::npos || only.find("points") != std::string::npos) {
        for (int i = 0; i < 20000; ++i) if (check_linestring(rng)) return 1;
        if (check_multipolygon()) return 1; }
    if (only.empty() || only.find("WKB") != std::string::npos || only.find("wkb") != std::string::npos) if (check_wkb_reuse()) return 1;
    if (only.empty() || only.find("WKT") != std::string::npos || only.find("GeoJSON") != std::string::npos) if (check_text_reuse()) return 1;
    if (only.empty() || only.find("double") != std::string::npos) if (check_double2string(rng)) return 1;
    std::printf("search: no disagreement found\n"); return 0;
}
