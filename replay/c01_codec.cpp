// native replay oracle for C01: PBF writer/reader pairs through the real Writer and Reader
#include <osmium/io/xml_input.hpp>
#include <osmium/io/xml_output.hpp>
#include <osmium/io/pbf_input.hpp>
#include <osmium/io/pbf_output.hpp>
#include <osmium/io/reader.hpp>
#include <osmium/io/writer.hpp>
#include <osmium/builder/osm_object_builder.hpp>
#include <osmium/memory/buffer.hpp>
#include <osmium/util/delta.hpp>
#include <random>
#include <string>
#include <vector>
#include <cstdio>
#include <unistd.h>

static std::string tmpname(const char* ext) { return "/tmp/c01_oracle_" + std::to_string(getpid()) + ext; }

static int check_box(int32_t x, int32_t y) {
    std::string fn = tmpname(".osm.pbf");
    osmium::io::Header h; osmium::Box box; box.extend(osmium::Location{x, y}); box.extend(osmium::Location{x, y}); h.add_box(box);
    { osmium::io::Writer w{fn, h, osmium::io::overwrite::allow}; w.close(); }
    osmium::io::Reader r{fn}; osmium::io::Header h2 = r.header(); r.close(); ::unlink(fn.c_str());
    if (h2.boxes().empty() || h2.boxes()[0].bottom_left().x() != x || h2.boxes()[0].bottom_left().y() != y || h2.boxes()[0].top_right().x() != x) {
        std::printf("PBF header bounding box corner (%d, %d) comes back as (%d, %d)\nARGV: box %d\n", x, y, h2.boxes().empty() ? 0 : h2.boxes()[0].bottom_left().x(), h2.boxes().empty() ? 0 : h2.boxes()[0].bottom_left().y(), x); return 1; }
    return 0;
}

static int check_dense(const char* metadata, bool history, bool dense) {
    std::string fn = tmpname(history ? ".osh.pbf" : ".osm.pbf");
    osmium::memory::Buffer buf{4096, osmium::memory::Buffer::auto_grow::yes};
    struct N { long long id; bool visible; unsigned version; } nodes[] = {{10, false, 1}, {10, true, 2}, {12, false, 3}, {13, true, 1}};
    for (auto& n : nodes) { { osmium::builder::NodeBuilder b{buf}; b.set_id(n.id).set_version(n.version).set_visible(n.visible).set_changeset(7).set_uid(3).set_timestamp(osmium::Timestamp{uint32_t(1000 + n.version)}); b.set_user("u"); if (n.visible) b.object().set_location(osmium::Location{1, 2}); } buf.commit(); }
    osmium::io::File f{fn}; f.set("add_metadata", metadata); f.set("pbf_dense_nodes", dense ? "true" : "false");
    { osmium::io::Writer w{f, osmium::io::overwrite::allow}; w(std::move(buf)); w.close(); }
    osmium::io::Reader r{fn}; size_t i = 0; int rc = 0; osmium::metadata_options mo{metadata};
    while (auto b2 = r.read()) for (const auto& n : b2.select<osmium::Node>()) {
        if (i >= 4) { rc = 1; break; }
        bool want_visible = history ? nodes[i].visible : true;
        if (n.id() != nodes[i].id || n.visible() != want_visible || (mo.version() && n.version() != nodes[i].version)) {
            std::printf("PBF round trip (add_metadata=%s, %s, %s nodes): node %zu (id %lld) reads back visible=%d version=%u, written visible=%d version=%u\nARGV: dense %s %d %d\n", metadata, history ? "history" : "no history", dense ? "dense" : "plain", i, nodes[i].id, n.visible(), n.version(), nodes[i].visible, nodes[i].version, metadata, history, dense); rc = 1; }
        ++i; }
    r.close(); ::unlink(fn.c_str());
    if (!rc && i != 4) { std::printf("PBF round trip: %zu of 4 nodes read back\nARGV: dense %s %d %d\n", i, metadata, history, dense); rc = 1; }
    return rc;
}

// nodes with tags, including empty keys, empty values and empty user names, through dense and plain PBF
static int check_tags(bool dense) {
    std::string fn = tmpname(".osm.pbf");
    struct T { const char* k; const char* v; };
    const std::vector<std::vector<T>> tagsets = {{{"name", "A"}, {"", "odd"}, {"ref", "7"}}, {{"highway", "bus_stop"}, {"note", ""}}, {}, {{"", ""}}, {{"a", "b"}}};
    osmium::memory::Buffer buf{4096, osmium::memory::Buffer::auto_grow::yes};
    long long id = 10;
    for (const auto& ts : tagsets) { { osmium::builder::NodeBuilder b{buf}; b.set_id(id++).set_version(1).set_changeset(1).set_uid(1).set_timestamp(osmium::Timestamp{uint32_t(1000)}); b.set_user(id % 2 ? "" : "u"); b.object().set_location(osmium::Location{1, 2});
        if (!ts.empty()) { osmium::builder::TagListBuilder tl{b}; for (const auto& t : ts) tl.add_tag(t.k, t.v); } } buf.commit(); }
    osmium::io::File f{fn}; f.set("pbf_dense_nodes", dense ? "true" : "false");
    { osmium::io::Writer w{f, osmium::io::overwrite::allow}; w(std::move(buf)); w.close(); }
    osmium::io::Reader r{fn}; size_t i = 0; int rc = 0;
    while (auto b2 = r.read()) for (const auto& n : b2.select<osmium::Node>()) {
        if (i >= tagsets.size()) { rc = 1; break; }
        size_t k = 0; bool same = n.tags().size() == tagsets[i].size();
        if (same) for (const auto& t : n.tags()) { if (std::string(t.key()) != tagsets[i][k].k || std::string(t.value()) != tagsets[i][k].v) same = false; ++k; }
        if (!same) { std::printf("PBF round trip (%s nodes): node %zu comes back with %zu tags instead of %zu, or with different keys/values (tag keys and values may be empty strings)\nARGV: densetags\n", dense ? "dense" : "plain", i, n.tags().size(), tagsets[i].size()); rc = 1; }
        ++i; }
    r.close(); ::unlink(fn.c_str());
    if (!rc && i != tagsets.size()) { std::printf("PBF round trip: %zu of %zu nodes read back\nARGV: densetags\n", i, tagsets.size()); rc = 1; }
    return rc;
}

// blocks whose unbounded parts are large: many distinct long strings (ways), many tags per dense node. What is written must be readable again.
static int check_blocksize(bool nodes) {
    std::string fn = tmpname(".osm.pbf"); size_t written = 0;
    { osmium::io::File f{fn}; osmium::io::Writer w{f, osmium::io::overwrite::allow};
      osmium::memory::Buffer buf{1024 * 1024, osmium::memory::Buffer::auto_grow::yes};
      for (int i = 1; i <= 8000; ++i) {
        if (nodes) { osmium::builder::NodeBuilder b{buf}; b.set_id(i).set_version(1); b.set_user("u"); b.object().set_location(osmium::Location{1, 2});
          osmium::builder::TagListBuilder tl{b}; for (int k = 0; k < 1200; ++k) tl.add_tag(("k" + std::to_string(k)).c_str(), "v"); }
        else { osmium::builder::WayBuilder b{buf}; b.set_id(i).set_version(1); b.set_user("u");
          osmium::builder::TagListBuilder tl{b}; for (int k = 0; k < 6; ++k) { std::string v(1000, char('a' + k)); v += std::to_string(i); tl.add_tag(("k" + std::to_string(k)).c_str(), v.c_str()); } }
        buf.commit(); ++written;
        if (buf.committed() > 512 * 1024) { w(std::move(buf)); buf = osmium::memory::Buffer{1024 * 1024, osmium::memory::Buffer::auto_grow::yes}; } }
      w(std::move(buf)); w.close(); }
    size_t got = 0; std::string err;
    try { osmium::io::Reader r{fn}; while (auto b = r.read()) for (const auto& o : b.select<osmium::OSMObject>()) { (void)o; ++got; } r.close(); } catch (const std::exception& e) { err = e.what(); }
    ::unlink(fn.c_str());
    if (got != written || !err.empty()) { std::printf("PBF file with 8000 %s: %zu objects written, %zu read back %s%s\nARGV: blocksize\n", nodes ? "nodes carrying 1200 tags each" : "ways carrying six distinct 1000-byte tag values each", written, got, err.empty() ? "" : "- reader: ", err.c_str()); return 1; }
    return 0;
}

// changesets with and without tags / discussion / comments_count through the XML writer and reader
static int check_xml_changeset() {
    std::string fn = tmpname(".osm");
    osmium::memory::Buffer buf{10240, osmium::memory::Buffer::auto_grow::yes};
    struct C { bool tags; int comments; unsigned num_comments; } cases[] = {{false, 0, 0}, {true, 0, 0}, {false, 2, 0}, {false, 2, 2}, {true, 1, 0}, {true, 1, 1}};
    long long id = 1;
    for (const auto& c : cases) { { osmium::builder::ChangesetBuilder b{buf}; b.set_id(id++).set_uid(1).set_num_comments(c.num_comments).set_created_at(osmium::Timestamp{uint32_t(1000)}); b.set_user("u");
        if (c.tags) { osmium::builder::TagListBuilder tl{b}; tl.add_tag("k", "v"); }
        if (c.comments) { osmium::builder::ChangesetDiscussionBuilder db{b}; for (int i = 0; i < c.comments; ++i) { db.add_comment(osmium::Timestamp{uint32_t(2000 + i)}, 7, "w"); db.add_comment_text("text"); } } } buf.commit(); }
    { osmium::io::File f{fn}; osmium::io::Writer w{f, osmium::io::overwrite::allow}; w(std::move(buf)); w.close(); }
    osmium::io::Reader r{fn, osmium::osm_entity_bits::changeset}; size_t i = 0; int rc = 0;
    while (auto b2 = r.read()) for (const auto& cs : b2.select<osmium::Changeset>()) {
        if (i >= 6) { rc = 1; break; }
        if (int(cs.discussion().size()) != cases[i].comments || (cs.tags().size() != 0) != cases[i].tags) {
            std::printf("XML round trip: changeset %zu (tags: %d, %d comments, comments_count %u) comes back with %zu tags and %zu comments\nARGV: xmlchangeset\n", i + 1, cases[i].tags, cases[i].comments, cases[i].num_comments, cs.tags().size(), cs.discussion().size()); rc = 1; }
        ++i; }
    r.close(); ::unlink(fn.c_str());
    if (!rc && i != 6) { std::printf("XML round trip: %zu of 6 changesets read back\nARGV: xmlchangeset\n", i); rc = 1; }
    return rc;
}

template <typename TV, typename TD, typename RV> static int check_delta(std::mt19937_64& rng, const char* what, long long lo, long long hi) {
    osmium::util::DeltaEncode<TV, TD> e; osmium::util::DeltaDecode<RV, int64_t> d;
    for (int i = 0; i < 100000; ++i) { long long v = (rng() % 4 == 0) ? ((rng() % 2) ? lo : hi) : (lo + (long long)(rng() % (unsigned long long)(hi - lo + 1 > 0 ? hi - lo + 1 : 1000)));
        RV back = d.update(static_cast<int64_t>(e.update(static_cast<TV>(v)))); if (static_cast<long long>(back) != static_cast<long long>(static_cast<TV>(v))) { std::printf("delta coding (%s): %lld decoded as %lld\nARGV: delta\n", what, v, (long long)back); return 1; } }
    return 0;
}

int main(int argc, char** argv) {
    std::string mode = argc > 1 ? argv[1] : "--search"; std::string only = argc > 3 ? argv[3] : ""; unsigned seed = argc > 2 ? unsigned(std::atoll(argv[2])) : 1; std::mt19937_64 rng(seed);
    if (mode == "box" && argc > 2) return check_box(int32_t(std::atoll(argv[2])), 5);
    if (mode == "xmlchangeset") return check_xml_changeset();
    if (mode == "blocksize") return check_blocksize(false) || check_blocksize(true);
    if (mode == "densetags") return check_tags(true) || check_tags(false);
    if (mode == "dense" && argc > 4) return check_dense(argv[2], std::atoi(argv[3]), std::atoi(argv[4]));
    bool all = only.empty();
    if (all || only.find("box") != std::string::npos) { for (int32_t x : {0, 1, -1, 1800000000, -1800000000, -1374389507, 999999999, 123456789}) if (check_box(x, 900000000)) return 1;
        for (int i = 0; i < 300; ++i) if (check_box(int32_t(rng() % 3600000001ULL) - 1800000000, int32_t(rng() % 1800000001ULL) - 900000000)) return 1; }
    if (all || only.find("Dense") != std::string::npos || only.find("serialize") != std::string::npos)
        for (const char* md : {"all", "none", "version", "version+timestamp", "uid+user", "changeset"}) for (int h = 0; h < 2; ++h) for (int dn = 0; dn < 2; ++dn) if (check_dense(md, h, dn)) return 1;
    if (all || only.find("size") != std::string::npos || only.find("can_add") != std::string::npos) { if (check_blocksize(false) || check_blocksize(true)) return 1; }
    if (all || only.find("xml") != std::string::npos || only.find("XML") != std::string::npos) { if (check_xml_changeset()) return 1; }
    if (all || only.find("add_node") != std::string::npos) { if (check_tags(true) || check_tags(false)) return 1; }
    if (all || only.find("delta") != std::string::npos) { if (check_delta<int64_t, int64_t, int64_t>(rng, "int64 ids", -(1LL << 62), (1LL << 62))) return 1; if (check_delta<uint32_t, int32_t, int64_t>(rng, "uid uint32/int32 -> int64", 0, 2147483647)) return 1; if (check_delta<uint32_t, int64_t, int64_t>(rng, "timestamp", 0, 4294967295LL)) return 1; }
    std::printf("search: no disagreement found\n"); return 0;
}
