// native replay oracle for C15: IdSetDense against std::set, ItemStash against a map model (with garbage collections)
#define NDEBUG 1
#include <osmium/index/relations_map.hpp>
#include <algorithm>
#include <vector>
#include <osmium/index/id_set.hpp>
#include <osmium/storage/item_stash.hpp>
#include <osmium/builder/osm_object_builder.hpp>
#include <osmium/memory/buffer.hpp>
#include <osmium/osm/node.hpp>
#include <map>
#include <set>
#include <random>
#include <string>
#include <vector>
#include <cstdio>

template <typename T, size_t CB> static int check_set(std::mt19937_64& rng, int ops, const char* tn) {
    osmium::index::IdSetDense<T, CB> s; std::set<T> m;
    const T span = T(1) << (CB + 3);
    std::vector<T> pool = {0, 1, 7, 8, 9, T(span - 1), span, T(span + 1), T(2 * span - 1), T(2 * span), T(5 * span + 3)};
    if (sizeof(T) == 4) { pool.push_back(T(0xFFFFFFFFu)); pool.push_back(T(0xFFFFFFF0u)); pool.push_back(T(0xFFFFFFFFu - span)); }
    for (int i = 0; i < ops; ++i) {
        T id = (rng() % 3) ? pool[rng() % pool.size()] : T(rng() % (8 * span));
        int op = rng() % 4;
        if (op <= 1) { bool added = s.check_and_set(id); bool want = m.insert(id).second; if (added != want) { std::printf("IdSetDense<%s,%zu>::check_and_set(%llu) returned %d, model says %d\n", tn, CB, (unsigned long long)id, added, want); return 1; } }
        else if (op == 2) { s.unset(id); m.erase(id); }
        else { if (s.get(id) != (m.count(id) != 0)) { std::printf("IdSetDense<%s,%zu>::get(%llu) wrong\n", tn, CB, (unsigned long long)id); return 1; } }
        if (s.size() != m.size()) { std::printf("IdSetDense<%s,%zu>::size() = %llu, model has %zu\n", tn, CB, (unsigned long long)s.size(), m.size()); return 1; }
    }
    std::vector<T> it; for (auto id : s) it.push_back(id);
    std::vector<T> want(m.begin(), m.end());
    if (it != want) { std::printf("IdSetDense<%s,%zu>: ascending iteration yields %zu ids, the set has %zu (first difference near %llu)\n", tn, CB, it.size(), want.size(), (unsigned long long)(want.empty() ? 0 : want.back())); return 1; }
    return 0;
}

static int check_last32() {
    osmium::index::IdSetDense<uint32_t> s; s.set(5); s.set(0xFFFFFFFFu);
    int n = 0; uint32_t lastv = 0; for (auto id : s) { ++n; lastv = id; }
    if (n != 2 || lastv != 0xFFFFFFFFu) { std::printf("IdSetDense<uint32_t> {5, 0xFFFFFFFF}: size %u but iteration yields %d ids\n", s.size(), n); return 1; }
    return 0;
}

// ItemStash history with automatic garbage collections, compared with a map handle -> node id
static int check_stash(unsigned seed, int rounds) {
    std::mt19937_64 rng(seed);
    osmium::ItemStash stash; std::map<size_t, std::pair<osmium::ItemStash::handle_type, long long>> live; size_t key = 0; long long next_id = 1;
    osmium::memory::Buffer buf{4096, osmium::memory::Buffer::auto_grow::yes};
    auto add = [&]() { buf.clear(); { osmium::builder::NodeBuilder b{buf}; b.set_id(next_id); b.set_user("0123456789012345678901234567890123456789"); } buf.commit();
        auto h = stash.add_item(buf.get<osmium::memory::Item>(0)); live[key++] = {h, next_id++}; };
    auto verify = [&](const char* when) -> int { for (auto& kv : live) { auto& node = stash.get<osmium::Node>(kv.second.first); if (node.type() != osmium::item_type::node || node.id() != kv.second.second) {
            std::printf("ItemStash %s: handle of node %lld resolves to an item of type %c id %lld\n", when, kv.second.second, osmium::item_type_to_char(node.type()), (long long)node.id()); return 1; } }
        if (stash.size() != live.size()) { std::printf("ItemStash %s: size() %zu, model %zu\n", when, stash.size(), live.size()); return 1; } return 0; };
    for (int r = 0; r < rounds; ++r) {
        for (int i = 0; i < 14000; ++i) add();
        // remove a scattered 80 percent (more than 10000), low offsets included
        std::vector<size_t> keys; for (auto& kv : live) keys.push_back(kv.first);
        std::shuffle(keys.begin(), keys.end(), rng);
        size_t nrem = keys.size() * 8 / 10; for (size_t i = 0; i < nrem; ++i) { stash.remove_item(live[keys[i]].first); live.erase(keys[i]); }
        size_t before = stash.count_removed();
        for (int i = 0; i < 2000 && stash.count_removed() >= before; ++i) add();   // until the automatic collection ran
        if (verify("after automatic garbage collection")) return 1;
        for (int i = 0; i < 3000; ++i) add();
        if (verify("after refilling")) return 1;
    }
    return 0;
}

// relation maps against a multimap model, including ids at and beyond the 32-bit boundary in the small (32-bit) index
static int check_relmap() {
    const std::vector<std::pair<uint64_t, uint64_t>> pairs = {{5, 100}, {5, 101}, {7, 200}, {4294967295ULL, 7}, {4294967295ULL, 9}, {0, 3}, {4294967294ULL, 11}};
    osmium::index::RelationsMapStash stash; for (const auto& p : pairs) stash.add(p.first, p.second);
    const auto index = stash.build_member_to_parent_index();
    for (uint64_t key : {0ULL, 5ULL, 6ULL, 7ULL, 4294967294ULL, 4294967295ULL, 4294967296ULL, 4294967296ULL + 5, (1ULL << 33) + 7, 18446744073709551615ULL}) {
        std::vector<uint64_t> want; for (const auto& p : pairs) if (p.first == key) want.push_back(p.second);
        std::vector<uint64_t> got; index.for_each(key, [&](osmium::unsigned_object_id_type id) { got.push_back(id); });
        std::sort(want.begin(), want.end()); std::sort(got.begin(), got.end());
        if (got != want) { std::printf("relations map (member to parent, 32-bit index): lookup of id %llu returns %zu entries, %zu were recorded for it\nARGV: relmap\n", (unsigned long long)key, got.size(), want.size()); return 1; }
    }
    return 0;
}

int main(int argc, char** argv) {
    unsigned seed = 1; std::string only;
    if (argc >= 2 && std::string(argv[1]) == "--search") { seed = argc > 2 ? unsigned(std::atoll(argv[2])) : 0; only = argc > 3 ? argv[3] : ""; }
    else if (argc >= 2 && std::string(argv[1]) == "stash") only = "ItemStash";
    else if (argc >= 2 && std::string(argv[1]) == "relmap") return check_relmap();
    else if (argc >= 2 && std::string(argv[1]) == "last") only = "last";
    else if (argc >= 2 && std::string(argv[1]) == "search") only = "IdSetDense";
    std::mt19937_64 rng(seed);
    bool all = only.empty();
    if (all || only.find("flat_map") != std::string::npos) if (check_relmap()) return 1;
    if (all || only.find("ItemStash") != std::string::npos || only.find("cleanup_helper") != std::string::npos) { if (check_stash(seed, 3)) { std::printf("ARGV: stash\n"); return 1; } }
    if (all || only.find("last") != std::string::npos || only.find("IdSetDense") != std::string::npos) if (check_last32()) { std::printf("ARGV: last uint32_t\n"); return 1; }
    if (all || only.find("IdSetDense") != std::string::npos || only.find("id_to_bit") != std::string::npos) {
        for (int k = 0; k < 200; ++k) { if (check_set<uint32_t, 4>(rng, 300, "uint32_t") || check_set<uint64_t, 4>(rng, 300, "uint64_t") || check_set<uint32_t, 10>(rng, 200, "uint32_t")) { std::printf("ARGV: search\n"); return 1; } }
        if (check_set<uint32_t, 22>(rng, 12, "uint32_t")) { std::printf("ARGV: search\n"); return 1; }
    }
    std::printf("search: no disagreement found\n");
    return 0;
}
