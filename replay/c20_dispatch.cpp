// native replay oracle for C20: handler dispatch and DiffIterator against the property's table
#define NDEBUG 1
#include <osmium/builder/osm_object_builder.hpp>
#include <osmium/memory/buffer.hpp>
#include <osmium/visitor.hpp>
#include <osmium/handler.hpp>
#include <osmium/diff_iterator.hpp>
#include <osmium/osm/diff_object.hpp>
#include <random>
#include <string>
#include <vector>
#include "util.hpp"

// both overloads of every callback: the handler notes when it is handed an object with a const-ness other than that of the item the dispatcher was given
struct LogHandler : public osmium::handler::Handler {
    std::vector<std::string> log; bool item_is_const = true;
#define CB(name, T) void name(const osmium::T&) { log.push_back(item_is_const ? #name : #name "[as const " #T "&]"); } \
                    void name(osmium::T&) { log.push_back(item_is_const ? #name "[as non-const " #T "&]" : #name); }
    CB(osm_object, OSMObject) CB(node, Node) CB(way, Way) CB(relation, Relation) CB(area, Area) CB(changeset, Changeset) CB(tag_list, TagList) CB(way_node_list, WayNodeList)
    CB(relation_member_list, RelationMemberList) CB(outer_ring, OuterRing) CB(inner_ring, InnerRing) CB(changeset_discussion, ChangesetDiscussion)
#undef CB
};

static const char* own_cb(unsigned t) {
    switch (t) { case 1: return "node"; case 2: return "way"; case 3: return "relation"; case 4: return "area"; case 5: return "changeset"; case 0x11: return "tag_list";
        case 0x12: return "way_node_list"; case 0x13: case 0x23: return "relation_member_list"; case 0x40: return "outer_ring"; case 0x41: return "inner_ring"; case 0x80: return "changeset_discussion"; }
    return nullptr;
}

static int check_dispatch(const std::string& variant, unsigned t, bool quiet) {
    alignas(8) unsigned char mem[256] = {0};
    uint32_t size = 64; std::memcpy(mem, &size, 4); uint16_t ty = uint16_t(t); std::memcpy(mem + 4, &ty, 2);
    LogHandler h; bool threw = false; h.item_is_const = variant.find("const") != std::string::npos;
    try {
        if (variant == "apply_item_generic") { auto& item = *reinterpret_cast<osmium::memory::Item*>(mem); osmium::detail::apply_item_impl(item, h); }
        else if (variant == "apply_item_const_entity") { const auto& item = *reinterpret_cast<const osmium::OSMEntity*>(mem); osmium::detail::apply_item_impl(item, h); }
        else if (variant == "apply_item_entity") { auto& item = *reinterpret_cast<osmium::OSMEntity*>(mem); osmium::detail::apply_item_impl(item, h); }
        else if (variant == "apply_item_const_object") { const auto& item = *reinterpret_cast<const osmium::OSMObject*>(mem); osmium::detail::apply_item_impl(item, h); }
        else if (variant == "apply_item_object") { auto& item = *reinterpret_cast<osmium::OSMObject*>(mem); osmium::detail::apply_item_impl(item, h); }
        else return 2;
    } catch (const osmium::unknown_type&) { threw = true; }
    bool isobj = t >= 1 && t <= 4;
    bool handled = variant == "apply_item_generic" ? own_cb(t) != nullptr : (variant.find("entity") != std::string::npos ? (isobj || t == 5) : isobj);
    std::vector<std::string> want; bool want_throw = false;
    if (handled) { if (isobj) want.push_back("osm_object"); want.push_back(own_cb(t)); } else if (variant != "apply_item_generic") want_throw = true;
    if (h.log != want || threw != want_throw) {
        std::printf("%s on item type 0x%x: real code made callbacks [", variant.c_str(), t); for (auto& s : h.log) std::printf("%s ", s.c_str());
        std::printf("]%s, the property demands [", threw ? " and threw unknown_type" : ""); for (auto& s : want) std::printf("%s ", s.c_str()); std::printf("]%s\nARGV: dispatch %s %u\n", want_throw ? " and unknown_type" : "", variant.c_str(), t);
        return 1; }
    if (!quiet) std::printf("%s type 0x%x ok\n", variant.c_str(), t);
    return 0;
}

struct V { int type; long long id; unsigned version; };
static int check_diff(const std::vector<V>& seq, bool quiet) {
    osmium::memory::Buffer buf{1024 * 64, osmium::memory::Buffer::auto_grow::yes};
    for (auto& v : seq) {
        if (v.type == 1) { osmium::builder::NodeBuilder b{buf}; b.set_id(v.id).set_version(v.version); }
        else if (v.type == 2) { osmium::builder::WayBuilder b{buf}; b.set_id(v.id).set_version(v.version); }
        else { osmium::builder::RelationBuilder b{buf}; b.set_id(v.id).set_version(v.version); }
        buf.commit();
    }
    std::vector<const osmium::OSMObject*> objs; for (auto& o : buf.select<osmium::OSMObject>()) objs.push_back(&o);
    auto it = osmium::make_diff_iterator(buf.begin<osmium::OSMObject>(), buf.end<osmium::OSMObject>());
    auto end = osmium::make_diff_iterator(buf.end<osmium::OSMObject>(), buf.end<osmium::OSMObject>());
    size_t i = 0; auto same = [&](size_t a, size_t b) { return seq[a].type == seq[b].type && seq[a].id == seq[b].id; };
    auto argv = [&]() { std::printf("ARGV: diff"); for (auto& v : seq) std::printf(" %d:%lld:%u", v.type, v.id, v.version); std::printf("\n"); };
    for (; it != end; ++it, ++i) {
        if (i >= seq.size()) { std::printf("DiffIterator visits more than %zu elements\n", seq.size()); argv(); return 1; }
        const osmium::DiffObject& d = *it;
        const osmium::OSMObject* wp = (i > 0 && same(i - 1, i)) ? objs[i - 1] : objs[i];
        const osmium::OSMObject* wn = (i + 1 < seq.size() && same(i + 1, i)) ? objs[i + 1] : objs[i];
        if (&d.curr() != objs[i] || &d.prev() != wp || &d.next() != wn || d.first() != (wp == objs[i]) || d.last() != (wn == objs[i])) {
            std::printf("DiffIterator at position %zu: prev/curr/next = %ld/%ld/%ld (first=%d last=%d), the property demands %ld/%ld/%ld (first=%d last=%d)\n", i,
                        long(std::find(objs.begin(), objs.end(), &d.prev()) - objs.begin()), long(std::find(objs.begin(), objs.end(), &d.curr()) - objs.begin()), long(std::find(objs.begin(), objs.end(), &d.next()) - objs.begin()), d.first(), d.last(),
                        long(std::find(objs.begin(), objs.end(), wp) - objs.begin()), long(i), long(std::find(objs.begin(), objs.end(), wn) - objs.begin()), wp == objs[i], wn == objs[i]);
            argv(); return 1; }
    }
    if (i != seq.size()) { std::printf("DiffIterator visited %zu of %zu elements\n", i, seq.size()); argv(); return 1; }
    if (!quiet) std::printf("diff iteration over %zu objects ok\n", seq.size());
    return 0;
}

int main(int argc, char** argv) {
    const char* variants[] = {"apply_item_generic", "apply_item_const_entity", "apply_item_entity", "apply_item_const_object", "apply_item_object"};
    if (argc >= 2 && std::string(argv[1]) == "--search") {
        unsigned seed = argc > 2 ? unsigned(std::atoll(argv[2])) : 0; std::string only = argc > 3 ? argv[3] : ""; std::mt19937_64 rng(seed);
        for (auto v : variants) if (only.empty() || only == v) for (unsigned t = 0; t < 0x10000; ++t) if (check_dispatch(v, t, true)) return 1;
        if (only.empty() || only.find("DiffIterator") != std::string::npos) for (int it = 0; it < 100000; ++it) {
            std::vector<V> seq; int n = rng() % 7; int type = 1; long long id = 1; unsigned ver = 1;
            for (int k = 0; k < n; ++k) { int r = rng() % 4; if (r == 0 && type < 3) { ++type; if (rng() % 2) id = 1 + rng() % 3; ver = 1; } else if (r == 1) { id += 1 + rng() % 2; ver = 1; } else ++ver; seq.push_back(V{type, id, ver}); }
            if (check_diff(seq, true)) return 1; }
        std::printf("search: no disagreement found\n"); return 0;
    }
    if (argc >= 4 && std::string(argv[1]) == "dispatch") return check_dispatch(argv[2], unsigned(std::atoll(argv[3])), false);
    if (argc >= 2 && std::string(argv[1]) == "diff") { std::vector<V> seq; for (int i = 2; i < argc; ++i) { V v; std::sscanf(argv[i], "%d:%lld:%u", &v.type, &v.id, &v.version); seq.push_back(v); } return check_diff(seq, false); }
    return 2;
}
