// native replay oracle for C16: runs the real libosmium comparators / CheckOrder and
// evaluates the same specification macros the contracts use (stubs/c16_spec.h)
#include <osmium/builder/osm_object_builder.hpp>
#include <osmium/memory/buffer.hpp>
#include <osmium/osm/object_comparisons.hpp>
#include <osmium/handler/check_order.hpp>
#include <cstdio>
#include <cstring>
#include <cstdlib>
#include <random>
#include <string>
#include "../stubs/c16_spec.h"

struct O { uint16_t m_type; int64_t m_id; uint32_t m_version; struct { uint32_t m_timestamp; } m_timestamp; bool m_deleted; };

static osmium::memory::Buffer g_buf{1024 * 1024, osmium::memory::Buffer::auto_grow::yes};

static osmium::OSMObject& make(const O& o) {
    size_t pos;
    {
        osmium::builder::NodeBuilder b{g_buf};
        b.set_id(o.m_id).set_version(o.m_version).set_timestamp(osmium::Timestamp{o.m_timestamp.m_timestamp}).set_deleted(o.m_deleted);
    }
    pos = g_buf.commit();
    auto& obj = g_buf.get<osmium::OSMObject>(pos);
    // the type field is the uint16 at offset 4 of every item
    std::memcpy(reinterpret_cast<unsigned char*>(&obj) + 4, &o.m_type, 2);
    return obj;
}

static O parse(const char* s) {
    O o{}; long long t, id, v, ts, d;
    if (std::sscanf(s, "%lld,%lld,%lld,%lld,%lld", &t, &id, &v, &ts, &d) != 5) { std::fprintf(stderr, "bad object %s\n", s); std::exit(2); }
    o.m_type = uint16_t(t); o.m_id = id; o.m_version = uint32_t(v) & 0x7fffffffU; o.m_timestamp.m_timestamp = uint32_t(ts); o.m_deleted = d != 0;
    return o;
}

static int check_pair(const std::string& fn, const O& a, const O& b, bool quiet) {
    osmium::OSMObject& x = make(a);
    osmium::OSMObject& y = make(b);
    bool got, want;
    const O* lhs = &a; const O* rhs = &b;
    if (fn == "OSMObject_lt") { got = x < y; want = SPEC_LT(lhs, rhs); }
    else if (fn == "OSMObject_eq") { got = x == y; want = SPEC_EQ(lhs, rhs); }
    else if (fn == "order_nots_call") { got = osmium::object_order_type_id_version_without_timestamp{}(x, y); want = SPEC_LT_NOTS(lhs, rhs); }
    else if (fn == "order_rev_call") { got = osmium::object_order_type_id_reverse_version{}(x, y); want = SPEC_LT_REV(lhs, rhs); }
    else { std::fprintf(stderr, "unknown function %s\n", fn.c_str()); return 2; }
    g_buf.clear();
    if (got != want) {
        std::printf("%s(a,b): real code returned %d, specification demands %d\n  a: type=%u id=%lld version=%u ts=%u deleted=%d\n  b: type=%u id=%lld version=%u ts=%u deleted=%d\n",
                    fn.c_str(), got, want, a.m_type, (long long)a.m_id, a.m_version, a.m_timestamp.m_timestamp, a.m_deleted,
                    b.m_type, (long long)b.m_id, b.m_version, b.m_timestamp.m_timestamp, b.m_deleted);
        std::printf("ARGV: %s %u,%lld,%u,%u,%d %u,%lld,%u,%u,%d\n", fn.c_str(), a.m_type, (long long)a.m_id, a.m_version, a.m_timestamp.m_timestamp, a.m_deleted,
                    b.m_type, (long long)b.m_id, b.m_version, b.m_timestamp.m_timestamp, b.m_deleted);
        return 1;
    }
    if (!quiet) std::printf("%s: real code agrees with the specification (%d)\n", fn.c_str(), got);
    return 0;
}

static int check_id(long long a, long long b, bool quiet) {
    bool got = osmium::id_order{}(a, b), want = SPEC_ID_LT(a, b);
    if (got != want) { std::printf("id_order(%lld, %lld): real code %d, specification %d\nARGV: id_order %lld %lld\n", a, b, got, want, a, b); return 1; }
    if (!quiet) std::printf("id_order agrees (%d)\n", got);
    return 0;
}

// CheckOrder: history = sequence "n:<id>" "w:<id>" "r:<id>"; accepted iff strictly ascending by (type, id rule)
static int check_history(int n, char** h, bool quiet) {
    osmium::handler::CheckOrder co;
    int lastk = -1; long long lastid = 0; bool have[3] = {false, false, false}; long long mx[3] = {0, 0, 0};
    for (int i = 0; i < n; ++i) {
        char k = h[i][0]; long long id = std::atoll(h[i] + 2);
        int kk = k == 'n' ? 0 : k == 'w' ? 1 : 2;
        O o{}; o.m_id = id; o.m_version = 1;
        osmium::OSMObject& obj = make(o);
        bool later = (kk == 0 && (have[1] || have[2])) || (kk == 1 && have[2]);
        bool want_accept = !later && (!have[kk] || SPEC_ID_LT(mx[kk], id));
        bool accepted = true;
        try {
            if (kk == 0) co.node(static_cast<osmium::Node&>(obj));
            else if (kk == 1) co.way(static_cast<osmium::Way&>(obj));
            else co.relation(static_cast<osmium::Relation&>(obj));
        } catch (const osmium::out_of_order_error&) { accepted = false; }
        if (accepted != want_accept) {
            std::printf("CheckOrder: step %d (%s) real code %s, specification %s\nARGV: history", i, h[i], accepted ? "accepted" : "rejected", want_accept ? "accepts" : "rejects");
            for (int j = 0; j <= i; ++j) std::printf(" %s", h[j]);
            std::printf("\n");
            return 1;
        }
        if (!accepted) break;
        have[kk] = true; mx[kk] = id; (void)lastk; (void)lastid;
    }
    if (!quiet) std::printf("CheckOrder history agrees with the specification\n");
    return 0;
}

int main(int argc, char** argv) {
    if (argc >= 2 && std::string(argv[1]) == "--search") {
        unsigned seed = argc > 2 ? unsigned(std::atoll(argv[2])) : 0;
        std::string only = argc > 3 ? argv[3] : "";
        std::mt19937_64 rng(seed);
        const long long ids[] = {0, 1, -1, 2, -2, 3, -3, INT64_MAX, INT64_MIN + 1, INT64_MAX - 1, INT64_MIN + 2, 1LL << 32, -(1LL << 32)};
        const int NI = sizeof(ids) / sizeof(ids[0]);
        const char* fns[] = {"OSMObject_lt", "OSMObject_eq", "order_nots_call", "order_rev_call"};
        if (only.empty() || only == "id_order_call") for (int i = 0; i < NI; ++i) for (int j = 0; j < NI; ++j) if (check_id(ids[i], ids[j], true)) return 1;
        for (int it = 0; it < 200000; ++it) {
            O a{}, b{};
            a.m_type = 1 + rng() % 3; b.m_type = (rng() % 3) ? a.m_type : 1 + rng() % 3;
            a.m_id = ids[rng() % NI]; b.m_id = (rng() % 2) ? a.m_id : ids[rng() % NI];
            a.m_version = rng() % 3; b.m_version = (rng() % 2) ? a.m_version : rng() % 3;
            a.m_timestamp.m_timestamp = rng() % 3; b.m_timestamp.m_timestamp = rng() % 3;
            a.m_deleted = rng() % 2; b.m_deleted = rng() % 2;
            for (auto f : fns) if ((only.empty() || only == f) && check_pair(f, a, b, true)) return 1;
        }
        // CheckOrder histories of length <= 4 over a small id alphabet
        const char* kinds = "nwr";
        const long long hid[] = {0, -1, 1, -2, 2};
        for (int it = 0; it < 20000 && (only.empty() || only.rfind("CheckOrder", 0) == 0); ++it) {
            char bufs[4][32]; char* hv[4]; int n = 1 + rng() % 4;
            for (int i = 0; i < n; ++i) { std::snprintf(bufs[i], 32, "%c:%lld", kinds[rng() % 3], hid[rng() % 5]); hv[i] = bufs[i]; }
            if (check_history(n, hv, true)) return 1;
        }
        std::printf("search: no disagreement found\n");
        return 0;
    }
    if (argc < 2) return 2;
    std::string fn = argv[1];
    if (fn == "id_order" && argc == 4) return check_id(std::atoll(argv[2]), std::atoll(argv[3]), false);
    if (fn == "history") return check_history(argc - 2, argv + 2, false);
    if (argc == 4) return check_pair(fn, parse(argv[2]), parse(argv[3]), false);
    return 2;
}
