// CXXFLAGS: -fsanitize=address,undefined -fno-sanitize-recover=all
// native replay oracle for C03 (builder layer): user names of any length arriving through the OPL parser and the builders
#include <osmium/builder/osm_object_builder.hpp>
#include <osmium/memory/buffer.hpp>
#include <osmium/opl.hpp>
#include <osmium/io/pbf_input.hpp>
#include <osmium/io/pbf_output.hpp>
#include <osmium/io/reader.hpp>
#include <osmium/io/writer.hpp>
#include <fstream>
#include <cstring>
#include <unistd.h>
#include <osmium/osm.hpp>
#include <string>
#include <cstdio>

static int check_len(size_t len) {
    std::string user(len, 'A');
    // through the OPL parser
    { osmium::memory::Buffer buf{1024, osmium::memory::Buffer::auto_grow::yes}; std::string line = "n1 v1 dV c1 t2020-01-01T00:00:00Z i1 u" + user + " T x1 y2";
      bool threw = false; try { osmium::opl_parse(line.c_str(), buf); } catch (const std::exception&) { threw = true; }
      if (!threw) { for (const auto& n : buf.select<osmium::Node>()) { if (std::string(n.user()) != user) { std::printf("OPL node with a %zu byte user name: delivered user has %zu bytes\nARGV: user\n", len, std::strlen(n.user())); return 1; } for (const auto& t : n.tags()) (void)t; } } }
    // through the builders directly (object and changeset, both overloads)
    for (int which = 0; which < 4; ++which) { osmium::memory::Buffer buf{1024, osmium::memory::Buffer::auto_grow::yes}; bool threw = false;
      try { if (which == 0) { osmium::builder::NodeBuilder b{buf}; b.set_user(user); } else if (which == 1) { osmium::builder::NodeBuilder b{buf}; b.set_user(user.c_str()); }
            else if (which == 2) { osmium::builder::ChangesetBuilder b{buf}; b.set_user(user); } else { osmium::builder::ChangesetBuilder b{buf}; b.set_user(user.c_str()); } buf.commit(); }
      catch (const std::length_error&) { threw = true; buf.rollback(); }
      if (!threw) { std::string got = which < 2 ? std::string(buf.get<osmium::Node>(0).user()) : std::string(buf.get<osmium::Changeset>(0).user());
        if (got != user) { std::printf("builder %d with a %zu byte user name: stored user has %zu bytes (truncated)\nARGV: user\n", which, len, got.size()); return 1; }
        if (which < 2) for (const auto& t : buf.get<osmium::Node>(0).tags()) (void)t; } }
    return 0;
}

// a PBF file whose string table holds a tag key with an embedded zero byte: the reader must reject it or deliver tags that lie inside the tag list
static int check_pbf_nul() {
    for (int dense = 0; dense < 2; ++dense) {
        char name[] = "/tmp/c03_pbfnul_XXXXXX"; const int fd = mkstemp(name); if (fd < 0) return 2; close(fd);
        osmium::io::File of{name, "pbf"}; of.set("pbf_compression", "none"); of.set("pbf_dense_nodes", dense ? "true" : "false");
        { osmium::io::Writer w{of, osmium::io::overwrite::allow}; osmium::memory::Buffer buf{10240};
          { osmium::builder::NodeBuilder b{buf}; b.set_id(1); b.object().set_location(osmium::Location{1, 1}); { osmium::builder::TagListBuilder t{b}; t.add_tag("kXey", "value"); t.add_tag("zzz", "yyy"); } }
          buf.commit(); w(std::move(buf)); w.close(); }
        std::ifstream in(name, std::ios::binary); std::string d((std::istreambuf_iterator<char>(in)), std::istreambuf_iterator<char>()); unlink(name);
        const auto p = d.find("kXey"); if (p == std::string::npos) return 2; d[p + 1] = '\0';
        try { osmium::io::File f{d.data(), d.size(), "pbf"}; osmium::io::Reader r{f};
            while (auto b = r.read()) for (const auto& n : b.select<osmium::Node>()) { const char* end = reinterpret_cast<const char*>(n.tags().data()) + n.tags().byte_size(); int count = 0;
                for (const auto& t : n.tags()) { if (++count > 100 || t.value() >= end || t.value() + std::strlen(t.value()) >= end) {
                    std::printf("PBF file with a zero byte inside a tag key (%s nodes): iterating over the tags leaves the tag list (tag %d)\nARGV: pbfnul\n", dense ? "dense" : "plain", count); return 1; } } }
            r.close(); } catch (const std::exception&) { }
    }
    return 0;
}
int main(int argc, char** argv) {
    if (argc > 1 && std::string(argv[1]) == "pbfnul") return check_pbf_nul();
    if (check_pbf_nul()) return 1;
    for (size_t len : {size_t(0), size_t(1), size_t(7), size_t(8), size_t(255), size_t(1020), size_t(1024), size_t(1025), size_t(4000), size_t(65534), size_t(65535), size_t(65536), size_t(65541), size_t(70000)}) if (check_len(len)) return 1;
    std::printf("search: no disagreement found\n"); return 0;
}
