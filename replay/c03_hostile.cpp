// CXXFLAGS: -fsanitize=address,undefined -fno-sanitize-recover=all
// native replay oracle for C03 (builder layer): user names of any length arriving through the OPL parser and the builders
#include <osmium/builder/osm_object_builder.hpp>
#include <osmium/memory/buffer.hpp>
#include <osmium/opl.hpp>
#include <osmium/osm.hpp>
#include <string>
#include <cstdio>

static int check_len(size_t len) {
    std::string user(len, 'A');
    // through the OPL parser
    { osmium::memory::Buffer buf{1024, osmium::memory::Buffer::auto_grow::yes}; std::string line = "n1 v1 dV c1 t2020-01-01T00:00:00Z i1 u" + user + " T x1 y2";
      bool threw = false; try { osmium::opl_parse(line.c_str(), buf); } catch (const std::exception&) { threw = true; }
      if (!threw) { for (const auto& n : buf.select<osmium::Node>()) { if (std::string(n.user()) != user) { std::printf("OPL node with a %zu byte user name: delivered user has %zu bytes\nARGV: user\n", len, std::strlen(n.user())); return 1; } for (const auto& t : n.tags()) (void)t; } } }
    // through the builders directly (object and changeset, both overloads)
    for (int which = 0; which < 4; ++which) { osmium::memory::Buffer buf{1024, osmium::memory::Buffer::auto_grow::yes}; bool threw = false;
      try { if (which == 0) { osmium::builder::NodeBuilder b{buf}; b.set_user(user); } else if (which == 1) { osmium::builder::NodeBuilder b{buf}; b.set_user(user.c_str()); }
            else if (which == 2) { osmium::builder::ChangesetBuilder b{buf}; b.set_user(user); } else { osmium::builder::ChangesetBuilder b{buf}; b.set_user(user.c_str()); } buf.commit(); }
      catch (const std::length_error&) { threw = true; buf.rollback(); }
      if (!threw) { std::string got = which < 2 ? std::string(buf.get<osmium::Node>(0).user()) : std::string(buf.get<osmium::Changeset>(0).user());
        if (got != user) { std::printf("builder %d with a %zu byte user name: stored user has %zu bytes (truncated)\nARGV: user\n", which, len, got.size()); return 1; }
        if (which < 2) for (const auto& t : buf.get<osmium::Node>(0).tags()) (void)t; } }
    return 0;
}
int main(int, char**) {
    for (size_t len : {size_t(0), size_t(1), size_t(7), size_t(8), size_t(255), size_t(1020), size_t(1024), size_t(1025), size_t(4000), size_t(65534), size_t(65535), size_t(65536), size_t(65541), size_t(70000)}) if (check_len(len)) return 1;
    std::printf("search: no disagreement found\n"); return 0;
}
