// CXXFLAGS: -fsanitize=address -fno-sanitize-recover=all
// native replay oracle for C04: builders across every growth point (capacity sweep), buffer bookkeeping
#define NDEBUG 1
#include <osmium/builder/osm_object_builder.hpp>
#include <osmium/memory/buffer.hpp>
#include <osmium/osm/relation.hpp>
#include <osmium/osm/changeset.hpp>
#include <random>
#include <string>
#include <vector>
#include <cstdio>
#include <cstring>
using osmium::memory::Buffer;

static int check_members(Buffer::auto_grow mode) {
    for (size_t cap = 64; cap <= 640; cap += 8) for (size_t fill = 0; fill <= 200; fill += 8) {
        Buffer buf{cap, mode};
        { osmium::builder::NodeBuilder nb{buf}; nb.set_id(7); nb.set_user(std::string(fill, 'u').c_str()); } buf.commit();
        std::vector<std::pair<long long, std::string>> want = {{11, "outer"}, {-12, std::string(37, 'r')}, {13, ""}, {14, "inner_role_xy"}};
        { osmium::builder::RelationBuilder rb{buf}; rb.set_id(99); rb.set_user("someone");
          { osmium::builder::RelationMemberListBuilder ml{rb}; for (auto& m : want) ml.add_member(osmium::item_type::way, m.first, m.second.c_str()); }
          { osmium::builder::TagListBuilder tl{rb}; tl.add_tag("type", "multipolygon"); } }
        buf.commit();
        // find the relation (it may be in this buffer; earlier committed data may have moved to nested buffers)
        const osmium::Relation* rel = nullptr; for (auto& r : buf.select<osmium::Relation>()) rel = &r;
        if (!rel) { std::printf("relation not found (capacity %zu fill %zu)\nARGV: members\n", cap, fill); return 1; }
        size_t i = 0;
        for (const auto& m : rel->members()) { if (i >= want.size() || m.ref() != want[i].first || want[i].second != m.role() || m.type() != osmium::item_type::way) {
                std::printf("relation built with initial capacity %zu (filler %zu, growth mode %d): member %zu reads back as ref %lld role \"%s\"\nARGV: members\n", cap, fill, int(mode), i, (long long)m.ref(), i < 6 ? m.role() : "?"); return 1; } ++i; }
        if (i != want.size() || std::string(rel->tags().get_value_by_key("type", "")) != "multipolygon") { std::printf("relation built with initial capacity %zu (filler %zu, growth mode %d): %zu members / tags wrong\nARGV: members\n", cap, fill, int(mode), i); return 1; }
    }
    return 0;
}

static int check_discussion(Buffer::auto_grow mode) {
    for (int committed_before = 0; committed_before < 2; ++committed_before) for (size_t cap = 64; cap <= 512; cap += 8) for (size_t ulen = 1; ulen <= 120; ulen += 7) {
        Buffer buf{cap, mode};
        std::string user(ulen, 'n'), text(ulen * 2 + 3, 't');
        if (committed_before) { { osmium::builder::NodeBuilder nb{buf}; nb.set_id(1); nb.set_user("n"); } buf.commit(); }   // committed() != 0 while the discussion is built
        { osmium::builder::ChangesetBuilder cb{buf}; cb.set_id(5); cb.set_user("x");
          { osmium::builder::ChangesetDiscussionBuilder db{cb}; db.add_comment(osmium::Timestamp{uint32_t(100)}, 42, user.c_str()); db.add_comment_text(text.c_str());
            db.add_comment(osmium::Timestamp{uint32_t(200)}, 43, "second"); db.add_comment_text("t2"); } }
        buf.commit();
        const osmium::Changeset* cs = nullptr; for (auto& c : buf.select<osmium::Changeset>()) cs = &c;
        if (!cs) { std::printf("changeset not found\nARGV: discussion\n"); return 1; }
        int n = 0; for (const auto& c : cs->discussion()) { bool ok = n == 0 ? (user == c.user() && text == c.text() && c.uid() == 42) : (std::string("second") == c.user() && std::string("t2") == c.text() && c.uid() == 43);
            if (!ok || n > 1) { std::printf("changeset discussion built with initial capacity %zu (user length %zu, growth mode %d): comment %d reads back wrong (user \"%.20s\" text size %zu)\nARGV: discussion\n", cap, ulen, int(mode), n, c.user(), std::strlen(c.text())); return 1; } ++n; }
        if (n != 2) { std::printf("changeset discussion: %d comments instead of 2 (capacity %zu, user length %zu)\nARGV: discussion\n", n, cap, ulen); return 1; }
    }
    return 0;
}

static int check_bookkeeping(unsigned seed) {
    std::mt19937_64 rng(seed);
    for (int it = 0; it < 2000; ++it) {
        Buffer buf{64 + 8 * (rng() % 20), Buffer::auto_grow::yes}; std::vector<long long> committed, pending;
        long long id = 1;
        for (int op = 0; op < 30; ++op) { int o = rng() % 6;
            if (o <= 2) { osmium::builder::NodeBuilder nb{buf}; nb.set_id(id); nb.set_user(std::string(rng() % 50, 'a').c_str()); pending.push_back(id++); }
            else if (o == 3) { buf.commit(); committed.insert(committed.end(), pending.begin(), pending.end()); pending.clear(); }
            else if (o == 4) { buf.rollback(); pending.clear(); }
            else { if (rng() % 5 == 0) { buf.clear(); committed.clear(); pending.clear(); } }
            std::vector<long long> got; for (auto& n : buf.select<osmium::Node>()) got.push_back(n.id());
            if (got != committed || buf.committed() % 8 != 0 || buf.written() % 8 != 0) { std::printf("buffer history: after operation %d the committed item sequence has %zu nodes, the model %zu\nARGV: search\n", op, got.size(), committed.size()); return 1; } }
    }
    return 0;
}

// internal growth while an object larger than the remaining capacity is being built behind committed data: the reservation must end inside the buffer
static int check_internal_growth() {
    for (size_t cap : {size_t(64), size_t(128), size_t(256), size_t(1024)}) for (size_t first : {size_t(8), size_t(48)}) for (size_t w : {size_t(8), size_t(56)}) for (size_t req = 8; req <= 4 * cap; req += 8) {
        Buffer buf{cap, Buffer::auto_grow::internal};
        if (first > cap) continue;
        buf.reserve_space(first); buf.commit();
        if (buf.written() + w <= buf.capacity() || true) { buf.reserve_space(w); }
        const size_t before = buf.written() - buf.committed();
        unsigned char* p = buf.reserve_space(req);
        if (buf.written() > buf.capacity() || p + req > buf.data() + buf.capacity() || buf.written() - buf.committed() != before + req) {
            std::printf("Buffer(capacity %zu, auto_grow internal): after commit of %zu bytes, %zu uncommitted bytes and reserve_space(%zu): written=%zu capacity=%zu (reservation ends outside the buffer)\nARGV: search\n",
                        cap, first, w, req, buf.written(), buf.capacity()); return 1; }
        std::memset(p, 0xab, req);   // ASan would see a write outside the allocation
    }
    return 0;
}

int main(int argc, char** argv) {
    std::string only = argc > 3 ? argv[3] : (argc > 1 ? argv[1] : ""); unsigned seed = argc > 2 ? unsigned(std::atoll(argv[2])) : 1;
    bool all = only.empty() || only == "--search" || only == "search";
    if (all || only.find("member") != std::string::npos || only.find("add_role") != std::string::npos || only.find("Builder") != std::string::npos)
        for (auto m : {Buffer::auto_grow::yes, Buffer::auto_grow::internal}) if (check_members(m)) return 1;
    if (all || only.find("iscussion") != std::string::npos || only.find("comment") != std::string::npos || only.find("Builder") != std::string::npos)
        for (auto m : {Buffer::auto_grow::yes, Buffer::auto_grow::internal}) if (check_discussion(m)) return 1;
    if (all || only.find("Buffer") != std::string::npos || only.find("reserve") != std::string::npos || only.find("grow") != std::string::npos) if (check_internal_growth()) return 1;
    if (all || only.find("Buffer") != std::string::npos || only.find("padded") != std::string::npos || only.find("capacity") != std::string::npos) if (check_bookkeeping(seed)) return 1;
    std::printf("search: no disagreement found\n"); return 0;
}
