// native replay oracle for C12: index implementations against std::map
#include <osmium/index/map/dense_mmap_array.hpp>
#include <unistd.h>
#include <cstdlib>
#include <osmium/index/map/dense_file_array.hpp>
#include <osmium/index/map/flex_mem.hpp>
#include <osmium/index/map/dense_mem_array.hpp>
#include <osmium/index/map/sparse_mem_array.hpp>
#include <osmium/index/map/sparse_mem_map.hpp>
#include <osmium/osm/location.hpp>
#include <osmium/osm/types.hpp>
#include <map>
#include <random>
#include <string>
#include <cstdio>
using osmium::Location; using osmium::unsigned_object_id_type;

template <typename M> static int check_small(const char* name, unsigned seed, bool needs_sort) {
    std::mt19937_64 rng(seed);
    for (int round = 0; round < 50; ++round) {
        M m; std::map<uint64_t, Location> model;
        int n = 1 + rng() % 200;
        for (int i = 0; i < n; ++i) { uint64_t id = (rng() % 4 == 0) ? rng() % 100000 : rng() % 300; if (model.count(id)) continue; Location l{int32_t(rng() % 1000000), int32_t(rng() % 1000000)}; m.set(id, l); model[id] = l; }
        if (needs_sort) m.sort();
        for (uint64_t id = 0; id < 320; ++id) { Location got = m.get_noexcept(id); bool has = model.count(id) != 0;
            if (has ? (got != model[id]) : got.valid()) { std::printf("%s: lookup of id %llu returns %s, the map %s it\nARGV: search\n", name, (unsigned long long)id, got.valid() ? "a value" : "not found", has ? "contains" : "does not contain"); return 1; }
            bool threw = false; try { (void)m.get(id); } catch (const osmium::not_found&) { threw = true; } if (threw == has) { std::printf("%s: get(%llu) %s\nARGV: search\n", name, (unsigned long long)id, threw ? "threw for an inserted id" : "did not throw for an absent id"); return 1; } }
    }
    return 0;
}

static int check_flex_switch() {
    osmium::index::map::FlexMem<unsigned_object_id_type, Location> m;
    const uint64_t N = 0xffffff + 20;
    for (uint64_t id = 1; id <= N; ++id) m.set(id, Location{int32_t(id & 0x7fffffff), int32_t(id % 1000)});
    if (!m.is_dense()) { std::printf("FlexMem did not switch to dense after %llu ascending ids\nARGV: flex\n", (unsigned long long)N); return 1; }
    for (uint64_t id = 1; id <= N; ++id) { Location got = m.get_noexcept(id); if (got != Location{int32_t(id & 0x7fffffff), int32_t(id % 1000)}) { std::printf("FlexMem: id %llu was inserted (around the automatic sparse->dense switch) but lookup returns %s\nARGV: flex\n", (unsigned long long)id, got.valid() ? "another value" : "not found"); return 1; } }
    if (m.get_noexcept(N + 5).valid() || m.get_noexcept(0).valid()) { std::printf("FlexMem returns a value for an id never inserted\nARGV: flex\n"); return 1; }
    return 0;
}

// mmap/file backed dense arrays growing beyond their first capacity: ids in the grown region that were never set must be "not found"
template <typename TMap> static int check_mmap_growth(const char* what, TMap& m) {
    using osmium::Location;
    const osmium::unsigned_object_id_type set_ids[] = {5, (1ULL << 20) + 7, (5ULL << 20) + 1};
    for (auto id : set_ids) m.set(id, Location{int32_t(id % 1000), 7});
    for (auto id : set_ids) { if (m.get(id) != Location{int32_t(id % 1000), 7}) { std::printf("%s: id %llu comes back with a different value\nARGV: mmapgrow\n", what, (unsigned long long)id); return 1; } }
    for (osmium::unsigned_object_id_type id : {6ULL, (1ULL << 20) + 3, (1ULL << 20) + 8, (2ULL << 20) + 100, (5ULL << 20), (5ULL << 20) - 1}) {
        bool found = true; try { (void)m.get(id); } catch (const osmium::not_found&) { found = false; }
        if (found || m.get_noexcept(id) != osmium::index::empty_value<Location>()) { std::printf("%s: id %llu was never set but is found (an element of the grown region does not hold the empty value)\nARGV: mmapgrow\n", what, (unsigned long long)id); return 1; } }
    return 0;
}
static int check_mmapgrow() {
    { osmium::index::map::DenseMmapArray<osmium::unsigned_object_id_type, osmium::Location> m; if (check_mmap_growth("DenseMmapArray", m)) return 1; }
    { char name[] = "/tmp/c12_dense_XXXXXX"; const int fd = mkstemp(name); if (fd < 0) return 2; unlink(name);
      osmium::index::map::DenseFileArray<osmium::unsigned_object_id_type, osmium::Location> m{fd}; const int rc = check_mmap_growth("DenseFileArray", m); close(fd); if (rc) return rc; }
    return 0;
}

int main(int argc, char** argv) {
    if (argc > 1 && std::string(argv[1]) == "mmapgrow") return check_mmapgrow();
    std::string only = argc > 3 ? argv[3] : (argc > 1 ? argv[1] : ""); unsigned seed = argc > 2 ? unsigned(std::atoll(argv[2])) : 1;
    bool all = only.empty() || only == "--search" || only == "search";
    if (all || only.find("mmap") != std::string::npos) if (check_mmapgrow()) return 1;
    if (all || only.find("Dense") != std::string::npos || only.find("dense") != std::string::npos) if (check_small<osmium::index::map::DenseMemArray<unsigned_object_id_type, Location>>("DenseMemArray", seed, false)) return 1;
    if (all) { if (check_small<osmium::index::map::SparseMemArray<unsigned_object_id_type, Location>>("SparseMemArray", seed, true)) return 1;
               if (check_small<osmium::index::map::SparseMemMap<unsigned_object_id_type, Location>>("SparseMemMap", seed, false)) return 1; }
    if (all || only.find("lex") != std::string::npos) { if (check_small<osmium::index::map::FlexMem<unsigned_object_id_type, Location>>("FlexMem", seed, true)) return 1; if (check_flex_switch()) return 1; }
    std::printf("search: no disagreement found\n"); return 0;
}
