// native replay oracle for C02 kernels: BlobHeader size, metadata ranges through Writer/Reader, o5m reference table
// CXXFLAGS: -fno-access-control
#include <osmium/io/detail/pbf_input_format.hpp>
#include <osmium/io/detail/o5m_input_format.hpp>
#include <osmium/io/pbf_input.hpp>
#include <osmium/io/pbf_output.hpp>
#include <osmium/io/reader.hpp>
#include <osmium/io/writer.hpp>
#include <osmium/builder/osm_object_builder.hpp>
#include <osmium/memory/buffer.hpp>
#include <deque>
#include <random>
#include <string>
#include <unistd.h>
#include "util.hpp"

static int check_nbo(uint32_t s, bool quiet) {
    char d[4] = {char(s >> 24), char(s >> 16), char(s >> 8), char(s)};
    uint32_t got = osmium::io::detail::PBFParser::get_size_in_network_byte_order(d);
    if (got != s) { std::printf("get_size_in_network_byte_order(%02x %02x %02x %02x) = 0x%x, the format says 0x%x\nARGV: nbo %u\n", (unsigned char)d[0], (unsigned char)d[1], (unsigned char)d[2], (unsigned char)d[3], got, s, s); return 1; }
    if (s <= 64 * 1024) { try { osmium::io::detail::PBFParser::check_size(got); } catch (...) { std::printf("legal BlobHeader size %u rejected\nARGV: nbo %u\n", s, s); return 1; } }
    if (!quiet) std::printf("network byte order ok\n");
    return 0;
}

static int check_meta(const std::string& kind, long long v, bool quiet) {
    if (v < 0 || v > 4294967295LL || (kind == "ver" && v > 2147483647LL)) { if (!quiet) std::printf("value %lld cannot be produced by the Writer; not replayable natively\n", v); return 0; }
    for (int dense = 0; dense < 2; ++dense) {
        std::string fn = "/tmp/c02_oracle_" + std::to_string(getpid()) + ".osm.pbf";
        osmium::memory::Buffer buf{4096, osmium::memory::Buffer::auto_grow::yes};
        { osmium::builder::NodeBuilder b{buf}; b.set_id(1).set_version(kind == "ver" ? uint32_t(v) : 1).set_changeset(kind == "cs" ? uint32_t(v) : 1).set_timestamp(osmium::Timestamp{uint32_t(1)}).set_uid(1); b.set_user("u"); }
        buf.commit();
        try {
            osmium::io::File f{fn}; f.set("pbf_dense_nodes", dense ? "true" : "false");
            { osmium::io::Writer w{f, osmium::io::overwrite::allow}; w(std::move(buf)); w.close(); }
            buf = osmium::memory::Buffer{4096, osmium::memory::Buffer::auto_grow::yes};
            { osmium::builder::NodeBuilder b{buf}; b.set_id(1).set_version(kind == "ver" ? uint32_t(v) : 1).set_changeset(kind == "cs" ? uint32_t(v) : 1).set_timestamp(osmium::Timestamp{uint32_t(1)}).set_uid(1); b.set_user("u"); }
            buf.commit();
            osmium::io::Reader r{fn}; long long got = -2;
            while (auto b2 = r.read()) for (const auto& n : b2.select<osmium::Node>()) got = kind == "cs" ? n.changeset() : n.version();
            r.close(); ::unlink(fn.c_str());
            if (got != v) { std::printf("PBF (%s nodes): %s %lld written, %lld read back\nARGV: meta %s %lld\n", dense ? "dense" : "plain", kind.c_str(), v, got, kind.c_str(), v); return 1; }
        } catch (const std::exception& e) { ::unlink(fn.c_str()); std::printf("PBF (%s nodes): %s %lld written by the Writer is rejected by the Reader: %s\nARGV: meta %s %lld\n", dense ? "dense" : "plain", kind.c_str(), v, e.what(), kind.c_str(), v); return 1; }
    }
    if (!quiet) std::printf("%s %lld round trip ok\n", kind.c_str(), v);
    return 0;
}

static int check_rtable(unsigned seed) {
    std::mt19937_64 rng(seed); osmium::io::detail::ReferenceTable t; std::deque<std::string> model;   // front = most recent entered string
    for (int i = 0; i < 40000; ++i) {
        size_t len = (rng() % 4 == 0) ? 248 + rng() % 8 : 1 + rng() % 40;
        std::string s(len, '\0'); for (auto& c : s) c = char('a' + rng() % 26); s[len - 1] = 0; if (len > 4) s[len / 2] = 0;
        t.add(s.data(), s.size());
        if (s.size() <= 252) { model.push_front(s); if (model.size() > 15000) model.pop_back(); }   // o5m: pairs of up to 250 characters (+2 NULs) are entered
        if (i % 7 == 0 && !model.empty()) {
            uint64_t idx = 1 + rng() % std::min<size_t>(model.size(), (rng() % 2) ? 5 : 15000);
            const char* p = t.get(idx);
            if (std::memcmp(p, model[idx - 1].data(), model[idx - 1].size()) != 0) { std::printf("o5m reference table: reference %llu after %d adds (last size %zu) does not return the string entered %llu accepted adds ago\nARGV: rtable\n", (unsigned long long)idx, i + 1, len, (unsigned long long)idx); return 1; }
        }
    }
    for (uint64_t bad : {uint64_t(0), uint64_t(15001), uint64_t(1) << 40}) { bool threw = false; try { t.get(bad); } catch (const osmium::o5m_error&) { threw = true; } if (!threw) { std::printf("o5m reference %llu accepted\nARGV: rtable\n", (unsigned long long)bad); return 1; } }
    return 0;
}

int main(int argc, char** argv) {
    if (argc >= 2 && std::string(argv[1]) == "--search") {
        unsigned seed = argc > 2 ? unsigned(std::atoll(argv[2])) : 0; std::string only = argc > 3 ? argv[3] : ""; bool all = only.empty(); std::mt19937_64 rng(seed);
        if (all || only.find("network_byte_order") != std::string::npos || only.find("blob_header") != std::string::npos || only.find("L1_every") != std::string::npos) {
            for (uint32_t s = 0; s <= 70000; ++s) if (check_nbo(s, true)) return 1;
            for (int i = 0; i < 100000; ++i) if (check_nbo(uint32_t(rng()), true)) return 1; }
        if (all || only.find("blk_changeset") != std::string::npos) for (long long v : {0LL, 1LL, 2147483647LL, 2147483648LL, 4294967294LL, 4294967295LL}) if (check_meta("cs", v, true)) return 1;
        if (all || only.find("blk_version") != std::string::npos) for (long long v : {0LL, 1LL, 2147483646LL, 2147483647LL}) if (check_meta("ver", v, true)) return 1;
        if (all || only.find("ReferenceTable") != std::string::npos) if (check_rtable(seed)) return 1;
        std::printf("search: no disagreement found\n"); return 0;
    }
    if (argc >= 3 && std::string(argv[1]) == "nbo") return check_nbo(uint32_t(std::atoll(argv[2])), false);
    if (argc >= 4 && std::string(argv[1]) == "meta") return check_meta(argv[2], std::atoll(argv[3]), false);
    if (argc >= 2 && std::string(argv[1]) == "rtable") return check_rtable(1);
    if (argc >= 2 && std::string(argv[1]) == "nbo-search") { for (uint32_t s : {128u, 255u, 0x8000u, 0xff00u, 65536u}) if (check_nbo(s, false)) return 1; return 0; }
    if (argc >= 2 && std::string(argv[1]) == "search") return 0;
    return 2;
}
