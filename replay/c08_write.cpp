// CXXFLAGS: -lz
// native replay oracle for C08: reliable_write / NoCompressor under short writes provoked with RLIMIT_FSIZE; GzipCompressor under a single transient
// write(2) failure (write() is interposed for one file descriptor: the k-th call fails once with ENOSPC, all later calls succeed)
#include <osmium/io/detail/read_write.hpp>
#include <osmium/io/compression.hpp>
#include <osmium/io/gzip_compression.hpp>
#include <sys/syscall.h>
#include <cerrno>
#include <sys/resource.h>
#include <sys/stat.h>
#include <csignal>
#include <cstdio>
#include <string>
#include <vector>
#include <fcntl.h>
#include <unistd.h>

static int g_fd = -1, g_fail_at = -1, g_calls = 0, g_injected = 0;
static bool same_file(int a, int b) { struct stat x, y; return ::fstat(a, &x) == 0 && ::fstat(b, &y) == 0 && x.st_dev == y.st_dev && x.st_ino == y.st_ino; }   // the compressor works on a dup() of the descriptor
extern "C" ssize_t write(int fd, const void* buf, size_t count) {
    if (g_fd >= 0 && g_fail_at >= 0 && same_file(fd, g_fd)) { if (g_calls++ == g_fail_at) { ++g_injected; errno = ENOSPC; return -1; } }
    return static_cast<ssize_t>(::syscall(SYS_write, fd, buf, count));
}

static int gzip_transient() {
    std::string fn = "/tmp/c08_oracle_gz_" + std::to_string(getpid());
    std::string chunk(20000, 'x'); unsigned long long st = 88172645463325252ULL;
    for (auto& c : chunk) { st ^= st << 13; st ^= st >> 7; st ^= st << 17; c = char(st >> 24); }   // incompressible
    for (int k = 0; k < 12; ++k) {
        int fd = ::open(fn.c_str(), O_WRONLY | O_CREAT | O_TRUNC, 0600);
        g_fd = fd; g_fail_at = k; g_calls = 0; g_injected = 0;
        bool threw = false;
        try { osmium::io::GzipCompressor c{fd, osmium::io::fsync::no}; try { for (int i = 0; i < 10; ++i) c.write(chunk); c.close(); } catch (...) { g_fail_at = -1; try { c.close(); } catch (...) {} throw; } }
        catch (const std::exception&) { threw = true; }
        g_fd = -1; g_fail_at = -1; ::unlink(fn.c_str());
        if (g_injected && !threw) { std::printf("GzipCompressor: write(2) call number %d on the output file failed once with ENOSPC, yet neither write() nor close() of the compressor threw: the data of that call is silently missing\nARGV: search\n", k); return 1; }
        if (!g_injected && threw) { std::printf("GzipCompressor: exception without an injected fault\nARGV: search\n"); return 1; }
    }
    return 0;
}

static long file_size(const std::string& fn) { struct stat st; return ::stat(fn.c_str(), &st) == 0 ? long(st.st_size) : -1; }

int main(int, char**) {
    std::signal(SIGXFSZ, SIG_IGN);
    std::string fn = "/tmp/c08_oracle_" + std::to_string(getpid());
    std::string data(5000, 'x'); for (size_t i = 0; i < data.size(); ++i) data[i] = char('a' + i % 26);
    struct rlimit old; getrlimit(RLIMIT_FSIZE, &old);
    for (int use_compressor = 0; use_compressor < 2; ++use_compressor)
    for (long limit : {0L, 1L, 100L, 4095L, 4096L, 4097L, 4999L, 5000L, 9000L, 9999L, 10000L, 20000L}) {
        struct rlimit rl = old; rl.rlim_cur = rlim_t(limit); setrlimit(RLIMIT_FSIZE, &rl);
        int fd = ::open(fn.c_str(), O_WRONLY | O_CREAT | O_TRUNC, 0600);
        bool threw = false; size_t reported = 0;
        try {
            if (use_compressor) { osmium::io::NoCompressor c{fd, osmium::io::fsync::no}; c.write(data); c.write(data); reported = c.file_size(); c.close(); }
            else { osmium::io::detail::reliable_write(fd, data.data(), data.size()); osmium::io::detail::reliable_write(fd, data.data(), data.size()); reported = 2 * data.size(); ::close(fd); }
        } catch (const std::system_error&) { threw = true; if (!use_compressor) ::close(fd); }
        setrlimit(RLIMIT_FSIZE, &old);
        long on_disk = file_size(fn); ::unlink(fn.c_str());
        if (!threw && (on_disk != long(2 * data.size()) || reported != 2 * data.size())) {
            std::printf("%s: the kernel refused to write beyond offset %ld, yet no exception: reported size %zu, %ld of %zu bytes on disk\nARGV: search\n", use_compressor ? "NoCompressor" : "reliable_write", limit, reported, on_disk, 2 * data.size());
            return 1; }
        if (threw && limit >= long(2 * data.size())) { std::printf("exception although the limit %ld was not reached\nARGV: search\n", limit); return 1; }
    }
    if (gzip_transient()) return 1;
    std::printf("search: no disagreement found\n"); return 0;
}
