// native replay oracle for C08: reliable_write / NoCompressor under short writes provoked with RLIMIT_FSIZE
#include <osmium/io/detail/read_write.hpp>
#include <osmium/io/compression.hpp>
#include <sys/resource.h>
#include <sys/stat.h>
#include <csignal>
#include <cstdio>
#include <string>
#include <vector>
#include <fcntl.h>
#include <unistd.h>

static long file_size(const std::string& fn) { struct stat st; return ::stat(fn.c_str(), &st) == 0 ? long(st.st_size) : -1; }

int main(int, char**) {
    std::signal(SIGXFSZ, SIG_IGN);
    std::string fn = "/tmp/c08_oracle_" + std::to_string(getpid());
    std::string data(5000, 'x'); for (size_t i = 0; i < data.size(); ++i) data[i] = char('a' + i % 26);
    struct rlimit old; getrlimit(RLIMIT_FSIZE, &old);
    for (int use_compressor = 0; use_compressor < 2; ++use_compressor)
    for (long limit : {0L, 1L, 100L, 4095L, 4096L, 4097L, 4999L, 5000L, 9000L, 9999L, 10000L, 20000L}) {
        struct rlimit rl = old; rl.rlim_cur = rlim_t(limit); setrlimit(RLIMIT_FSIZE, &rl);
        int fd = ::open(fn.c_str(), O_WRONLY | O_CREAT | O_TRUNC, 0600);
        bool threw = false; size_t reported = 0;
        try {
            if (use_compressor) { osmium::io::NoCompressor c{fd, osmium::io::fsync::no}; c.write(data); c.write(data); reported = c.file_size(); c.close(); }
            else { osmium::io::detail::reliable_write(fd, data.data(), data.size()); osmium::io::detail::reliable_write(fd, data.data(), data.size()); reported = 2 * data.size(); ::close(fd); }
        } catch (const std::system_error&) { threw = true; if (!use_compressor) ::close(fd); }
        setrlimit(RLIMIT_FSIZE, &old);
        long on_disk = file_size(fn); ::unlink(fn.c_str());
        if (!threw && (on_disk != long(2 * data.size()) || reported != 2 * data.size())) {
            std::printf("%s: the kernel refused to write beyond offset %ld, yet no exception: reported size %zu, %ld of %zu bytes on disk\nARGV: search\n", use_compressor ? "NoCompressor" : "reliable_write", limit, reported, on_disk, 2 * data.size());
            return 1; }
        if (threw && limit >= long(2 * data.size())) { std::printf("exception although the limit %ld was not reached\nARGV: search\n", limit); return 1; }
    }
    std::printf("search: no disagreement found\n"); return 0;
}
