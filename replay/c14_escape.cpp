// CXXFLAGS: -fsanitize=address,undefined -fno-sanitize-recover=all
// native replay oracle for C14: OPL/XML escaping against the real headers
#include <osmium/io/detail/string_util.hpp>
#include <osmium/io/detail/opl_parser_functions.hpp>
#include <random>
#include <string>
#include "util.hpp"
#include "../stubs/c14_spec.h"

using namespace osmium::io::detail;

static std::string utf8(uint32_t cp) { unsigned char b[4]; int n = spec_utf8_encode(cp, b); return std::string(reinterpret_cast<char*>(b), n); }

static std::string parse_back(const std::string& esc, bool& threw, size_t& consumed) {
    ExactCStr c{esc}; const char* p = c.p; std::string res; threw = false;
    try { opl_parse_string(&p, res); } catch (const std::exception&) { threw = true; }
    consumed = p - c.p; return res;
}

// string of code points: escape, check structural characters, parse back
static int check_string(const std::string& s, bool quiet, const char* tag) {
    ExactCStr in{s}; std::string out; bool threw = false;
    try { append_utf8_encoded_string(out, in.p); } catch (const std::exception& e) { threw = true; }
    if (threw) { std::printf("%s: escaping well-formed \"%s\" threw\nARGV: str %s\n", tag, printable(s).c_str(), tohex(s).c_str()); return 1; }
    for (size_t k = 0; k < out.size(); ++k) {
        char ch = out[k];
        bool pct_ok = false;
        if (ch == '%') { // must delimit a hex chunk
            size_t a = out.rfind('%', k ? k - 1 : std::string::npos); (void)a; pct_ok = true; }
        if ((SPEC_OPL_STRUCTURAL(ch) && !(ch == '%' && pct_ok)) || (ch >= 0 && ch < 0x20) || ch == 0x7f) {
            std::printf("%s: escaped form of \"%s\" contains structural/control byte 0x%02x: \"%s\"\nARGV: str %s\n", tag, printable(s).c_str(), (unsigned char)ch, printable(out).c_str(), tohex(s).c_str()); return 1; }
    }
    bool pthrew; size_t consumed; std::string back = parse_back(out, pthrew, consumed);
    if (pthrew || back != s || consumed != out.size()) {
        std::printf("%s: parse(escape(s)) != s for s=\"%s\" (hex %s): escaped \"%s\", parsed back hex %s%s\nARGV: str %s\n", tag, printable(s).c_str(), tohex(s).c_str(), printable(out).c_str(), tohex(back).c_str(), pthrew ? " (parser threw)" : "", tohex(s).c_str());
        return 1; }
    if (!quiet) std::printf("%s: \"%s\" -> \"%s\" -> round trip ok\n", tag, printable(s).c_str(), printable(out).c_str());
    return 0;
}

static int check_hex(int which, uint32_t v, bool quiet) {
    std::string out; const char* hexd = "0123456789abcdef";
    if (which == 2) append_2_hex_digits(out, v, hexd); else append_min_4_hex_digits(out, v, hexd);
    char want[16]; std::snprintf(want, sizeof want, which == 2 ? "%02x" : "%04x", which == 2 ? (v & 0xff) : v);
    if (out != want) { std::printf("append_%s_hex_digits(0x%x): real code \"%s\", specification \"%s\"\nARGV: hex%d %u\n", which == 2 ? "2" : "min_4", v, out.c_str(), want, which == 2 ? 2 : 4, v); return 1; }
    if (!quiet) std::printf("hex numeral of 0x%x ok (\"%s\")\n", v, out.c_str());
    return 0;
}

// next_utf8_codepoint on an exact-size byte range
static int check_next(const std::string& bytes, bool quiet) {
    char* mem = static_cast<char*>(std::malloc(bytes.size())); std::memcpy(mem, bytes.data(), bytes.size());
    const char* b = mem; const char* e = mem + bytes.size();
    unsigned char f = bytes[0]; int len = f < 0x80 ? 1 : (f >= 0xC0 && f <= 0xDF) ? 2 : (f >= 0xE0 && f <= 0xEF) ? 3 : (f >= 0xF0 && f <= 0xF7) ? 4 : 0;
    int exc = 0; uint32_t got = 0;
    try { got = next_utf8_codepoint(&b, e); } catch (const std::out_of_range&) { exc = 2; } catch (const std::runtime_error&) { exc = 1; } catch (...) { exc = 3; }
    int want_exc = len == 0 ? 1 : (size_t(len) > bytes.size() ? 2 : 0);
    uint32_t want = 0;
    if (!want_exc) { auto u = [&](int k) { return uint32_t((unsigned char)bytes[k]); };
        want = len == 1 ? u(0) : len == 2 ? ((u(0) & 0x1f) << 6 | (u(1) & 0x3f)) : len == 3 ? ((u(0) & 0x0f) << 12 | (u(1) & 0x3f) << 6 | (u(2) & 0x3f)) : ((u(0) & 7) << 18 | (u(1) & 0x3f) << 12 | (u(2) & 0x3f) << 6 | (u(3) & 0x3f)); }
    bool bad = exc != want_exc || (!exc && (got != want || b != mem + len)) || (exc && b != mem);
    std::free(mem);
    if (bad) { std::printf("next_utf8_codepoint(hex %s): real code exc=%d value=0x%x; specification exc=%d value=0x%x len=%d\nARGV: next %s\n", tohex(bytes).c_str(), exc, got, want_exc, want, len, tohex(bytes).c_str()); return 1; }
    if (!quiet) std::printf("next_utf8_codepoint ok\n");
    return 0;
}

static int check_xml(const std::string& s, bool quiet) {
    ExactCStr in{s}; std::string out; append_xml_encoded_string(out, in.p);
    // decode the five entities and three character references the writer may produce
    std::string back; size_t i = 0; bool bad = false;
    while (i < out.size()) {
        char c = out[i];
        if (SPEC_XML_STRUCTURAL(c) && c != '&') { bad = true; break; }
        if (c == '&') {
            struct { const char* e; char v; } T[] = {{"&amp;", '&'}, {"&quot;", '"'}, {"&apos;", '\''}, {"&lt;", '<'}, {"&gt;", '>'}, {"&#xA;", '\n'}, {"&#xD;", '\r'}, {"&#x9;", '\t'}};
            bool hit = false; for (auto& t : T) if (out.compare(i, std::strlen(t.e), t.e) == 0) { back += t.v; i += std::strlen(t.e); hit = true; break; }
            if (!hit) { bad = true; break; }
        } else { back += c; ++i; }
    }
    if (bad || back != s) { std::printf("XML escaping of hex %s gives \"%s\", which does not decode back\nARGV: xml %s\n", tohex(s).c_str(), printable(out).c_str(), tohex(s).c_str()); return 1; }
    if (!quiet) std::printf("xml escape ok: \"%s\"\n", printable(out).c_str());
    return 0;
}

int main(int argc, char** argv) {
    if (argc >= 2 && std::string(argv[1]) == "--search") {
        unsigned seed = argc > 2 ? unsigned(std::atoll(argv[2])) : 0; std::string only = argc > 3 ? argv[3] : "";
        std::mt19937_64 rng(seed); bool all = only.empty();
        if (all || only.find("hex") != std::string::npos) {
            for (uint32_t v = 0; v < 0x100; ++v) if (check_hex(2, v, true)) return 1;
            for (uint32_t v = 0; v < 0x110000; ++v) if (check_hex(4, v, true)) return 1;
            for (int i = 0; i < 100000; ++i) if (check_hex(4, uint32_t(rng()), true)) return 1;
        }
        if (all || only.find("next_utf8") != std::string::npos) {
            for (int i = 0; i < 400000; ++i) { std::string b; int n = 1 + rng() % 5; for (int k = 0; k < n; ++k) b += char(rng()); if (check_next(b, true)) return 1; }
        }
        if (all || only.find("L1") != std::string::npos || only.find("escape") != std::string::npos || only.find("append_utf8") != std::string::npos || only.find("opl_parse") != std::string::npos) {
            for (uint32_t cp = 1; cp <= 0x10FFFF; ++cp) { if (!SPEC_IS_SCALAR(cp)) continue; if (check_string(utf8(cp), true, "code point")) return 1; }
            for (int i = 0; i < 50000; ++i) { std::string s; int n = 1 + rng() % 5; for (int k = 0; k < n; ++k) { uint32_t cp; do { cp = (rng() % 3 == 0) ? rng() % 0x110000 : rng() % 0x100; } while (!SPEC_IS_SCALAR(cp)); s += utf8(cp); } if (check_string(s, true, "string")) return 1; }
        }
        if (all || only.find("xml") != std::string::npos) {
            for (int c = 1; c < 256; ++c) if (check_xml(std::string(1, char(c)), true)) return 1;
            for (int i = 0; i < 100000; ++i) { std::string s; int n = rng() % 6; for (int k = 0; k < n; ++k) { char c; do { c = char(rng() % 3 ? "&<>\"'\n\r\tax;#"[rng() % 13] : rng()); } while (!c); s += c; } if (check_xml(s, true)) return 1; }
        }
        std::printf("search: no disagreement found\n"); return 0;
    }
    if (argc < 3) return 2;
    std::string m = argv[1];
    if (m == "cp") { uint32_t cp = uint32_t(std::atoll(argv[2])); return check_string(utf8(cp), false, "code point"); }
    if (m == "cp2" && argc >= 4) { return check_string(utf8(uint32_t(std::atoll(argv[2]))) + utf8(uint32_t(std::atoll(argv[3]))), false, "code point pair"); }
    if (m == "str") return check_string(unhex(argv[2]), false, "string");
    if (m == "hex2") return check_hex(2, uint32_t(std::atoll(argv[2])), false);
    if (m == "hex4") return check_hex(4, uint32_t(std::atoll(argv[2])), false);
    if (m == "next") return check_next(unhex(argv[2]), false);
    if (m == "xml") return check_xml(unhex(argv[2]), false);
    return 2;
}
