// native replay oracle for C09: multi-stream bzip2 files read through osmium::io::Bzip2Decompressor from a file descriptor
#include <osmium/io/bzip2_compression.hpp>
#include <osmium/io/gzip_compression.hpp>
#include <zlib.h>
#include <bzlib.h>
#include <fcntl.h>
#include <unistd.h>
#include <random>
#include <string>
#include <vector>
#include <cstdio>

static std::string compress(const std::string& plain) { unsigned int n = unsigned(plain.size() * 1.02 + 700); std::string out(n, '\0'); int rc = BZ2_bzBuffToBuffCompress(&out[0], &n, const_cast<char*>(plain.data()), unsigned(plain.size()), 9, 0, 0); if (rc != BZ_OK) std::abort(); out.resize(n); return out; }
static std::string noise(std::mt19937_64& rng, size_t n) { std::string s(n, '\0'); for (auto& c : s) c = char('a' + (rng() % 3 ? rng() % 26 : 0)); return s; }

static int check(const std::vector<std::string>& plains, const char* what) {
    std::string file, expect; for (auto& p : plains) { file += compress(p); expect += p; }
    std::string fn = "/tmp/c09_oracle_" + std::to_string(getpid()) + ".bz2";
    { int fd = ::open(fn.c_str(), O_WRONLY | O_CREAT | O_TRUNC, 0600); if (::write(fd, file.data(), file.size()) != ssize_t(file.size())) std::abort(); ::close(fd); }
    std::string got; bool threw = false; std::string msg;
    try { int fd = ::open(fn.c_str(), O_RDONLY); osmium::io::Bzip2Decompressor d{fd}; for (;;) { std::string s = d.read(); if (s.empty()) break; got += s; } d.close(); } catch (const std::exception& e) { threw = true; msg = e.what(); }
    ::unlink(fn.c_str());
    if (threw || got != expect) { std::printf("%s: %zu concatenated bzip2 streams (%zu compressed bytes, %zu bytes of data): the decompressor delivered %zu bytes%s%s\nARGV: search\n", what, plains.size(), file.size(), expect.size(), got.size(), threw ? " and threw: " : "", msg.c_str()); return 1; }
    return 0;
}

// memory-buffer decompressor: a truncated buffer must give an error, a complete one the complete data
static int check_buffer_truncation(std::mt19937_64& rng) {
    const std::string plain = noise(rng, 60000); const std::string c = compress(plain);
    for (size_t cut : {c.size(), c.size() - 1, c.size() - 10, c.size() / 2, c.size() / 3, size_t(30), size_t(4)}) {
        osmium::io::Bzip2BufferDecompressor d{c.data(), cut}; std::string out; bool threw = false;
        try { for (std::string s = d.read(); !s.empty(); s = d.read()) out += s; d.close(); } catch (const std::exception&) { threw = true; }
        if (cut == c.size() ? (threw || out != plain) : !threw) {
            std::printf("bzip2 memory buffer of %zu bytes cut to %zu bytes: %s, %zu of %zu bytes delivered (a truncated buffer is accepted as complete)\nARGV: bufsearch\n", c.size(), cut, threw ? "exception" : "no exception", out.size(), plain.size()); return 1; }
    }
    return 0;
}

static int check_gzip_buffer_truncation(std::mt19937_64& rng) {
    const std::string plain = noise(rng, 60000);
    z_stream z{}; deflateInit2(&z, 9, Z_DEFLATED, 15 + 16, 8, Z_DEFAULT_STRATEGY); std::string c(200000, '\0');
    z.next_in = reinterpret_cast<Bytef*>(const_cast<char*>(plain.data())); z.avail_in = unsigned(plain.size()); z.next_out = reinterpret_cast<Bytef*>(&c[0]); z.avail_out = unsigned(c.size()); deflate(&z, Z_FINISH); c.resize(c.size() - z.avail_out); deflateEnd(&z);
    for (size_t cut : {c.size(), c.size() - 1, c.size() / 2, size_t(40), size_t(15), size_t(10), size_t(5)}) {
        osmium::io::GzipBufferDecompressor d{c.data(), cut}; std::string out; bool threw = false;
        try { for (std::string s = d.read(); !s.empty(); s = d.read()) out += s; d.close(); } catch (const std::exception&) { threw = true; }
        if (cut == c.size() ? (threw || out != plain) : !threw) {
            std::printf("gzip memory buffer of %zu bytes cut to %zu bytes: %s, %zu of %zu bytes delivered (a truncated buffer is accepted as complete)\nARGV: bufsearch\n", c.size(), cut, threw ? "exception" : "no exception", out.size(), plain.size()); return 1; }
    }
    return 0;
}

int main(int argc, char** argv) {
    unsigned seed = argc > 2 ? unsigned(std::atoll(argv[2])) : 1; std::mt19937_64 rng(seed);
    if (argc > 1 && std::string(argv[1]) == "bufsearch") return check_buffer_truncation(rng) || check_gzip_buffer_truncation(rng);
    if (check_buffer_truncation(rng) || check_gzip_buffer_truncation(rng)) return 1;
    const size_t B = osmium::io::Decompressor::input_buffer_size;
    if (check({noise(rng, 20000), noise(rng, 300)}, "second stream inside the library's read-ahead")) return 1;
    if (check({noise(rng, 100), noise(rng, 100), noise(rng, 100), ""}, "several tiny streams, last one empty")) return 1;
    if (check({std::string(B, 'x'), noise(rng, 5000)}, "first stream decompresses to exactly one buffer")) return 1;
    if (check({std::string(2 * B, 'y'), noise(rng, 70000), noise(rng, 10)}, "first stream decompresses to exactly two buffers")) return 1;
    if (check({noise(rng, 3 * B + 17)}, "one long stream")) return 1;
    // stream boundary at chosen distances before a multiple of 5000 (size of the library's read-ahead buffer)
    for (int want : {0, 1, 2, 3, 4, 100}) { for (int tries = 0; tries < 4000; ++tries) { std::string p = noise(rng, 9000 + tries); std::string c = compress(p); if (int((5000 - c.size() % 5000) % 5000) == want) { if (check({p, noise(rng, 30000)}, "stream ends close to a read-ahead boundary")) return 1; break; } } }
    for (int i = 0; i < 30; ++i) { std::vector<std::string> ps; int n = 1 + rng() % 4; for (int k = 0; k < n; ++k) ps.push_back(noise(rng, rng() % 3 == 0 ? rng() % 50 : rng() % 60000)); if (check(ps, "random streams")) return 1; }
    // stream boundary exactly ON a multiple of 5000: no unused read-ahead bytes although the file goes on. Find the payload length whose stream is about 5000 bytes, then vary the content.
    { size_t n = 2000; while (n < 40000 && compress(noise(rng, n)).size() < 5000) n += 50;
      bool found = false;
      for (int tries = 0; tries < 20000 && !found; ++tries) { std::string p = noise(rng, n - 60 + size_t(tries % 120)); if (compress(p).size() == 5000) { found = true; if (check({p, noise(rng, 300)}, "stream ends exactly at a read-ahead boundary")) return 1; if (check({p, noise(rng, 30000), noise(rng, 10)}, "stream ends exactly at a read-ahead boundary")) return 1; } }
      if (!found) std::printf("note: no stream of exactly 5000 bytes found\n"); }
    std::printf("search: no disagreement found\n"); return 0;
}
