"""cx.py - mechanical extraction of libosmium functions (C++14) into the C subset
CBMC 6.11 accepts.  Nothing here is specific to one function: a unit names a
file and a function, the text is whatever /repo contains now.

Fail-closed: anything the rule set does not cover stays in the text and breaks
the C compile (-> exit 2), a must-fire rewrite that does not fire raises
ExtractError (-> exit 2).  See DESIGN.md section 4.1 for the rule table.
"""
import re
import hashlib


class ExtractError(Exception):
    pass


# ---------------------------------------------------------------- lexing utils

def strip_comments(s):
    """remove // and /* */ comments, keep line structure and string literals"""
    out = []
    i = 0
    n = len(s)
    while i < n:
        if s.startswith('//', i):
            j = s.find('\n', i)
            j = n if j < 0 else j
            i = j
        elif s.startswith('/*', i):
            j = s.find('*/', i)
            out.append('\n' * s.count('\n', i, j + 2))
            i = j + 2
        elif s[i] == '"' or (s[i] == "'" and not (i > 0 and s[i - 1].isalnum() and i + 1 < n and s[i + 1].isalnum() and s[i-1].isdigit())):
            q = s[i]
            j = i + 1
            while s[j] != q:
                if s[j] == '\\':
                    j += 1
                j += 1
            out.append(s[i:j + 1])
            i = j + 1
        else:
            out.append(s[i])
            i += 1
    return ''.join(out)


def skip_literal(s, i):
    """s[i] is a quote: return index after the literal"""
    q = s[i]
    j = i + 1
    while s[j] != q:
        if s[j] == '\\':
            j += 1
        j += 1
    return j + 1


def match_close(s, i, op=None):
    """s[i] is an opening bracket; return index of the matching closer"""
    pairs = {'(': ')', '{': '}', '[': ']', '<': '>'}
    o = s[i]
    c = pairs[o]
    d = 0
    n = len(s)
    while i < n:
        ch = s[i]
        if ch in '"\'' and o != '<':
            i = skip_literal(s, i)
            continue
        if ch == o:
            d += 1
        elif ch == c:
            d -= 1
            if d == 0:
                return i
        elif o == '<' and ch in '(':
            i = match_close(s, i)
        i += 1
    raise ExtractError('unbalanced %s' % o)


def split_top(s, sep=',', angle=False):
    """split at separators that are not nested in brackets"""
    parts = []
    d = 0
    cur = []
    i = 0
    while i < len(s):
        ch = s[i]
        if ch in '"\'':
            j = skip_literal(s, i)
            cur.append(s[i:j])
            i = j
            continue
        if ch in '([{' or (angle and ch == '<'):
            d += 1
        elif ch in ')]}' or (angle and ch == '>'):
            d -= 1
        if ch == sep and d == 0:
            parts.append(''.join(cur))
            cur = []
        else:
            cur.append(ch)
        i += 1
    if ''.join(cur).strip() or parts:
        parts.append(''.join(cur))
    return parts


PP_DEFINED = {'__linux__', '__GNUC__', '__unix__', 'OSMIUM_WITH_LZ4', '__cplusplus', 'OSMIUM_POOL_THREADS', '__x86_64__'}
PP_UNDEFINED = {'_WIN32', '_MSC_VER', 'NDEBUG', 'OSMIUM_USE_SLOW_MERCATOR_PROJECTION', '__clang__', '__MINGW32__', '_WIN64', '__APPLE__',
                'OSMIUM_WITH_TIMER', 'OSMIUM_DEBUG_RING_NO', 'OSMIUM_ITEM_STORAGE_GC_DEBUG', '__FreeBSD__', 'OSMIUM_DEFINE_EXPORT', 'OSMIUM_WITH_DEBUG_OUTPUT'}
PP_VALUES = {'ZLIB_VERNUM': '0x12d0'}   # macros with a value: the installed zlib (1.2.13); every zlib since 1.2.4 (2010) has gzoffset
pp_unknown = set()


def preprocess(src):
    """mini conditional pass (#ifdef/#ifndef/#if defined/#else/#elif/#endif) against a fixed macro table;
    inactive regions and all directive lines are blanked (line structure kept). Unknown macros count as undefined and are recorded."""
    def is_def(name):
        if name in PP_DEFINED:
            return True
        if name not in PP_UNDEFINED and not name.endswith('_HPP'):
            pp_unknown.add(name)
        return False

    def ev(expr):
        e = re.sub(r'defined\s*\(\s*(\w+)\s*\)|defined\s+(\w+)', lambda m: ' True ' if is_def(m.group(1) or m.group(2)) else ' False ', expr)
        e = e.replace('&&', ' and ').replace('||', ' or ').replace('!', ' not ')
        e = re.sub(r'\b(?!True|False|and|or|not)([A-Za-z_]\w*)\b', lambda m: PP_VALUES[m.group(1)] if m.group(1) in PP_VALUES else ('1' if is_def(m.group(1)) else '0'), e)
        try:
            return bool(eval(e, {'__builtins__': {}}, {}))
        except Exception:
            pp_unknown.add('expr:' + expr.strip())
            return False
    out = []
    stack = []   # (parent_active, this_branch_taken_already, currently_active)
    active = True
    for line in src.split('\n'):
        s = line.strip()
        if s.startswith('#'):
            d = re.match(r'#\s*(\w+)\s*(.*)$', s)
            kw, rest = (d.group(1), d.group(2)) if d else ('', '')
            if kw == 'ifdef':
                c = is_def(rest.split()[0]) if active else False
                stack.append((active, c, active and c)); active = active and c
            elif kw == 'ifndef':
                c = (not is_def(rest.split()[0])) if active else False
                stack.append((active, c, active and c)); active = active and c
            elif kw == 'if':
                c = ev(rest) if active else False
                stack.append((active, c, active and c)); active = active and c
            elif kw == 'elif':
                par, taken, _ = stack.pop()
                c = (not taken) and par and ev(rest)
                stack.append((par, taken or c, c)); active = c
            elif kw == 'else':
                par, taken, _ = stack.pop()
                c = par and not taken
                stack.append((par, True, c)); active = c
            elif kw == 'endif':
                par, _, _ = stack.pop(); active = par
            out.append('')
            continue
        out.append(line if active else '')
    return '\n'.join(out)


# ---------------------------------------------------------------- locating

def find_class(src, cls):
    """return (body_start, body_end) of `class/struct cls ... { ... }`"""
    for m in re.finditer(r'\b(class|struct)\s+' + re.escape(cls) + r'\b[^;{(]*\{', src):
        b = m.end() - 1
        e = match_close(src, b)
        return b + 1, e
    raise ExtractError('class not found: ' + cls)


def parse_tail(src, j):
    """after the closing paren of a parameter list at j-1: qualifiers, optional trailing return type,
    optional constructor initialiser list, then the body brace. Returns (is_const, init_text, brace_index) or None"""
    n = len(src)
    i = j
    is_const = False
    while True:
        m = re.compile(r'\s*(const|noexcept(\s*\([^)]*\))?|final|override|->\s*[\w:<>\s\*&]+?(?=\s*[{:]))').match(src, i)
        if not m:
            break
        if m.group(1) == 'const':
            is_const = True
        i = m.end()
    while i < n and src[i].isspace():
        i += 1
    init = ''
    if i < n and src[i] == ':' and src[i:i + 2] != '::':
        k = i + 1
        while True:
            m = re.compile(r'\s*[\w:<>]+\s*').match(src, k)
            if not m:
                return None
            k = m.end()
            if k >= n or src[k] not in '({':
                return None
            k = match_close(src, k) + 1
            while k < n and src[k].isspace():
                k += 1
            if k < n and src[k] == ',':
                k += 1
                continue
            break
        init = src[i:k]
        i = k
    if i < n and src[i] == '{':
        return is_const, init, i
    return None


def find_function(src, name, cls=None, sig=None, nth=0):
    """locate a function definition by name (and class, and a regex the
    parameter list must match). Returns dict(header, params, body, line, end_line)"""
    lo, hi = 0, len(src)
    if cls:
        for c in cls.split('::'):
            a, b = find_class(src[:hi], c) if lo == 0 else (None, None)
            if a is None:
                sub = src[lo:hi]
                a, b = find_class(sub, c)
                a += lo
                b += lo
            lo, hi = a, b
    pat = re.compile(r'(?<![\w:~.>])' + re.escape(name) + r'\s*\(')
    seen = 0
    for m in pat.finditer(src, lo, hi):
        i = m.end() - 1
        try:
            j = match_close(src, i)
        except (ExtractError, IndexError):
            continue
        t = parse_tail(src, j + 1)
        if not t:
            continue
        params = src[i + 1:j]
        # reject calls: a definition header is preceded by a type / qualifier
        h = m.start()
        while h > lo and src[h - 1] not in ';}{':
            h -= 1
        # skip access specifiers and template lines
        header = src[h:m.start()]
        header = re.sub(r'\b(public|private|protected)\s*:', '', header)
        if re.search(r'\b(return|if|while|else|throw|new|case)\b|[=(]', re.sub(r'template\s*<[^{;]*?>\s*(?=\w)', '', header, count=1)):
            continue
        if cls is None:
            pass
        if sig and not re.search(sig, ' '.join((header + ' ' + name + '(' + params + ') ' + ('const' if t[0] else '')).split())):
            continue
        if seen < nth:
            seen += 1
            continue
        b = t[2]
        e = match_close(src, b)
        return dict(header=' '.join(header.split()), params=params, body=src[b:e + 1],
                    const=t[0], init=t[1],
                    line=src.count('\n', 0, m.start()) + 1, end_line=src.count('\n', 0, e) + 1)
    raise ExtractError('function not found: %s%s' % ((cls + '::') if cls else '', name))


def extract_members(src, cls):
    """data members of a class (depth 1 declarations whose name starts with m_)"""
    a, b = find_class(src, cls)
    body = src[a:b]
    out = []
    d = 0
    i = 0
    stmt_start = 0
    while i < len(body):
        ch = body[i]
        if ch in '"\'':
            i = skip_literal(body, i)
            continue
        if ch in '{(':
            j = match_close(body, i)
            if ch == '{':
                # brace initialiser of a member or a nested body
                pre = body[stmt_start:i]
                if re.search(r'\bm_\w+\s*$', pre) and not re.search(r'[()]', pre):
                    i = j + 1
                    continue
                i = j + 1
                # a body ends a declaration unless followed by ';'
                k = i
                while k < len(body) and body[k].isspace():
                    k += 1
                if k < len(body) and body[k] == ';':
                    i = k + 1
                stmt_start = i
                continue
            i = j + 1
            continue
        if ch == ';':
            decl = ' '.join(body[stmt_start:i].split())
            decl = re.sub(r'\b(public|private|protected)\s*:', '', decl).strip()
            m = re.match(r'^(?!using|typedef|friend|static_assert|template|enum|return)(.*?[\w>\*&])\s+(m_\w+)\s*(\[[^\]]*\]|:\s*\d+)?\s*(=.*|\{.*\})?$', decl)
            if m and '(' not in m.group(1):
                out.append((m.group(1).strip(), m.group(2), (m.group(3) or ''), (m.group(4) or '').strip()))
            stmt_start = i + 1
        i += 1
    return out


# ---------------------------------------------------------------- rewriting

LIMITS = {
    'int8_t': ('INT8_MIN', 'INT8_MAX'), 'int16_t': ('INT16_MIN', 'INT16_MAX'),
    'int32_t': ('INT32_MIN', 'INT32_MAX'), 'int64_t': ('INT64_MIN', 'INT64_MAX'),
    'int': ('INT_MIN', 'INT_MAX'), 'long': ('LONG_MIN', 'LONG_MAX'),
    'long long': ('LLONG_MIN', 'LLONG_MAX'),
    'uint8_t': ('0', 'UINT8_MAX'), 'uint16_t': ('0', 'UINT16_MAX'),
    'uint32_t': ('0', 'UINT32_MAX'), 'uint64_t': ('0', 'UINT64_MAX'),
    'size_t': ('0', 'SIZE_MAX'), 'unsigned long': ('0', 'ULONG_MAX'), 'unsigned int': ('0', 'UINT_MAX'), 'unsigned': ('0', 'UINT_MAX'), 'char': ('CHAR_MIN', 'CHAR_MAX'),
    'uint_fast8_t': ('0', 'UINT_FAST8_MAX'), 'double': ('(-DBL_MAX)', 'DBL_MAX'), 'unsigned long long': ('0', 'ULLONG_MAX'), 'std::size_t': ('0', 'SIZE_MAX'),
    'T': ('VERIF_T_MIN', 'VERIF_T_MAX'), 'TValue': ('VERIF_TVALUE_MIN', 'VERIF_TVALUE_MAX'), 'TKeyInternal': ('0', 'VERIF_TKEYINTERNAL_MAX'),
    'changeset_id_type': ('0', 'UINT32_MAX'), 'user_id_type': ('0', 'UINT32_MAX'),
    'object_version_type': ('0', 'UINT32_MAX'), 'object_id_type': ('INT64_MIN', 'INT64_MAX'),
    'unsigned_object_id_type': ('0', 'UINT64_MAX'), 'signed_user_id_type': ('INT32_MIN', 'INT32_MAX'),
    'string_size_type': ('0', 'UINT16_MAX'), 'item_size_type': ('0', 'UINT32_MAX'), 'changeset_comment_size_type': ('0', 'UINT32_MAX'),
    'type': ('VERIF_TYPE_MIN', 'VERIF_TYPE_MAX'),
}

SCALARS = set(LIMITS) | {'char', 'unsigned char', 'unsigned', 'unsigned int', 'bool', 'double', 'float',
                         'std::size_t', 'uint_fast8_t', 'unsigned long long', 'signed char', 'short'}

NS = r'\b(?:std|osmium|protozero|detail|io|memory|util|geom|index|builder|area|thread|handler|relations|storage|tags|config|map)::'


class Rules:
    """rule application with hit counting"""

    def __init__(self):
        self.hits = {}

    def hit(self, name, n=1):
        if n:
            self.hits[name] = self.hits.get(name, 0) + n

    def sub(self, name, pat, repl, s, flags=0):
        s2, n = re.subn(pat, repl, s, flags=flags)
        self.hit(name, n)
        return s2


def rw_casts(s, R):
    while True:
        m = re.search(r'\b(static_cast|reinterpret_cast|const_cast)\s*<', s)
        if not m:
            return s
        i = m.end() - 1
        j = match_close(s, i)
        T = s[i + 1:j]
        k = s.index('(', j)
        e = match_close(s, k)
        s = s[:m.start()] + '((' + T + ')(' + s[k + 1:e] + '))' + s[e + 1:]
        R.hit('cast')


def rw_scalar_ctor(s, R, extra=()):
    """T{e} / T(e) for scalar T -> ((T)(e))"""
    names = sorted(set(LIMITS) | set(extra) | {'std::size_t', 'char', 'double', 'unsigned char', 'bool'}, key=len, reverse=True)
    names = [n for n in names if n not in ('T', 'type', 'int', 'long', 'unsigned')] + ['int']
    pat = re.compile(r'(?<![\w.>])(' + '|'.join(re.escape(n) for n in names) + r')\s*\{')
    pos = 0
    while True:
        m = pat.search(s, pos)
        if not m:
            break
        # not a declaration `T name{`: name group is the type itself directly followed by {
        pre = s[:m.start()].rstrip()
        i = m.end() - 1
        j = match_close(s, i)
        inner = s[i + 1:j]
        if re.search(r'\b(struct|class|enum|union)\s*$', pre):
            pos = m.end()
            continue
        if inner.strip() == '':
            rep = '((' + m.group(1) + ')0)'
        else:
            rep = '((' + m.group(1) + ')(' + inner + '))'
        s = s[:m.start()] + rep + s[j + 1:]
        R.hit('scalar_ctor')
        pos = m.start() + 1
    return s


def rw_throw(s, R):
    """throw X{...}; / throw X(...); -> VERIF_THROW(EXC_X);   (payload dropped)"""
    pos = 0
    while True:
        m = re.search(r'\bthrow\s+([\w:]+)\s*([\{\(])', s[pos:])
        if not m:
            break
        a = pos + m.start()
        i = pos + m.end() - 1
        j = match_close(s, i)
        k = j + 1
        while s[k].isspace():
            k += 1
        if s[k] != ';':
            raise ExtractError('throw expression not followed by ;')
        s = s[:a] + 'VERIF_THROW(EXC_' + m.group(1).split('::')[-1] + ')' + s[k + 1:]   # the ';' is consumed: the macro is a block
        R.hit('throw')
        pos = a + 5
    if re.search(r'\bthrow\s*;', s):
        s = R.sub('rethrow', r'\bthrow\s*;', 'VERIF_RETHROW', s)
    return s


def limit_of(typ, which):
    if typ not in LIMITS:
        raise ExtractError('std::numeric_limits<%s>: type not in the table of the extractor' % typ)
    return LIMITS[typ][1 if which == 'max' else 0]


def rw_generic(s, R, scalar_types=()):
    s = R.sub('typed_local_enum', r'\benum\s*:\s*[\w:]+\s*\{', 'enum {', s)
    s = rw_casts(s, R)
    s = R.sub('std_string', r'\bstd::string\b(?!\s*[{(])', 'vstr', s)
    s = R.sub('numeric_limits',
              r'std::numeric_limits<\s*((?:[\w]+::)*)([\w ]+?)\s*>::(min|max|lowest)\(\)',
              lambda m: '(' + limit_of(m.group(2), m.group(3)) + ')', s)
    s = rw_throw(s, R)
    s = rw_scalar_ctor(s, R, scalar_types)
    s = R.sub('auto', r'\bconst\s+auto\b\s*\*\s*(?=\w)', '__auto_type ', s)   # pointer to const: the pointee type comes from the initialiser
    s = R.sub('auto', r'\bauto\b\s*\*\s*(?=\w)', '__auto_type ', s)
    s = R.sub('auto', r'\bconst\s+auto\b\s*&?\s*(?=\w)', 'const __auto_type ', s)
    s = R.sub('auto', r'\bauto\b\s*&{0,2}\s*(?=\w)', '__auto_type ', s)
    s = R.sub('drop_kw', r'\b(inline|constexpr|noexcept|final|override|explicit)\b', '', s)
    s = R.sub('drop_attr', r'\[\[[^\]]*\]\]', '', s)
    s = R.sub('namespace', NS, '', s)
    s = R.sub('namespace', NS, '', s)
    s = R.sub('namespace', NS, '', s)
    s = R.sub('namespace', r'(?<![\w>)\]])::(?=\w)', '', s)   # global qualifier ::write
    s = R.sub('nullptr', r'\bnullptr\b', 'NULL', s)
    s = R.sub('distance', r'(?<![\w.>])distance\s*\(', 'VERIF_DISTANCE(', s)
    s = R.sub('back_inserter', r'(?<![\w.>])back_inserter\s*\(([^()]*)\)', r'(&\1)', s)
    s = R.sub('std_move', r'(?<![\w.>])move\s*\(', 'VERIF_MOVE(', s)
    s = R.sub('functor_call', r'\b(\w+)\{\}\(', r'\1_call(', s)
    s = R.sub('std_abs', r'(?<![\w.>])abs\s*\(', 'VERIF_ABS(', s)
    s = R.sub('std_max', r'(?<![\w.>])max\s*\((?=[^)])', 'VERIF_MAX(', s)   # std::max / std::min of two scalars (the namespace is gone by now)
    s = R.sub('std_min', r'(?<![\w.>])min\s*\((?=[^)])', 'VERIF_MIN(', s)
    s = R.sub('static_assert', r'\bstatic_assert\s*\((?:[^;]|\n)*?\)\s*;', '', s)
    return s


def rw_methodcalls(s, R, objs):
    """obj.m(args) / obj->m(args) -> Cls_m(&obj, args) / Cls_m(obj, args) for objects of modelled classes"""
    for name, cls in objs.items():
        pat = re.compile(r'(?:(?<![\w.>])' + re.escape(name) + r'|\(\*' + re.escape(name) + r'\))\s*(\.|->)\s*(\w+)\s*\(')
        pos = 0
        while True:
            m = pat.search(s, pos)
            if not m:
                break
            i = m.end() - 1
            j = match_close(s, i)
            args = s[i + 1:j].strip()
            if m.group(0).startswith('(*'):
                recv = name
            else:
                recv = ('&' + name) if m.group(1) == '.' else name
            rep = '%s_%s(%s%s)' % (cls, m.group(2), recv, (', ' + args) if args else '')
            s = s[:m.start()] + rep + s[j + 1:]
            pos = m.start() + len(cls) + 1
            R.hit('method_call')
    return s


def rw_strings(s, R, names):
    """type-directed rules for std::string objects (the vstr model)"""
    for x in names:
        X = re.escape(x)
        pos = 0
        pat = re.compile(r'(?<![\w.>])' + X + r'\s*\+=\s*')
        while True:
            m = pat.search(s, pos)
            if not m:
                break
            e = m.end()
            j = e
            d = 0
            while not (s[j] == ';' and d == 0):
                if s[j] in '"\'':
                    j = skip_literal(s, j)
                    continue
                if s[j] in '([{':
                    d += 1
                elif s[j] in ')]}':
                    d -= 1
                j += 1
            rhs = s[e:j].strip()
            if rhs.startswith('"'):
                rep = 'vstr_append_lit(&%s, %s)' % (x, rhs)
                R.hit('string_append_literal')
            else:
                rep = 'vstr_push_char(&%s, %s)' % (x, rhs)
                R.hit('string_push_char')
            s = s[:m.start()] + rep + s[j:]
            pos = m.start() + len(rep)
        for meth, fn in (('append', 'vstr_append_range'), ('size', 'vstr_size'), ('resize', 'vstr_resize'), ('push_back', 'vstr_push_char'),
                         ('data', 'vstr_data'), ('erase', 'vstr_erase'), ('clear', 'vstr_clear'), ('empty', 'vstr_empty'), ('reserve', 'vstr_reserve'),
                         ('capacity', 'vstr_capacity'), ('c_str', 'vstr_data')):
            pat = re.compile(r'(?<![\w.>])' + X + r'\s*(\.|->)\s*' + meth + r'\s*\(')
            pos = 0
            while True:
                m = pat.search(s, pos)
                if not m:
                    break
                i = m.end() - 1
                j = match_close(s, i)
                args = s[i + 1:j].strip()
                recv = ('&' + x) if m.group(1) == '.' else x
                rep = '%s(%s%s)' % (fn, recv, (', ' + args) if args else '')
                s = s[:m.start()] + rep + s[j + 1:]
                pos = m.start() + len(fn)
                R.hit('string_' + meth)
        # (*x)[i] / x[i]
        pat = re.compile(r'\(\*' + X + r'\)\s*\[|(?<![\w.>])' + X + r'\s*\[')
        pos = 0
        while True:
            m = pat.search(s, pos)
            if not m:
                break
            i = m.end() - 1
            j = match_close(s, i)
            deref = m.group(0).startswith('(*')
            rep = '(*vstr_at(%s, %s))' % (x if deref else '&' + x, s[i + 1:j])
            s = s[:m.start()] + rep + s[j + 1:]
            pos = m.start() + len(rep)
            R.hit('string_index')
    return s


def lex_lt(cmp=None):
    """rule factory: const_tie(a...) < const_tie(b...) -> lexicographic expansion.
    cmp: {position: name of the less-than function to use at that tuple position}"""
    cmp = cmp or {}

    def rule(s, R):
        n = 0
        while True:
            m = re.search(r'\bconst_tie\s*\(', s)
            if not m:
                break
            i = m.end() - 1
            j = match_close(s, i)
            a = [x.strip() for x in split_top(s[i + 1:j])]
            m2 = re.match(r'\s*<\s*const_tie\s*\(', s[j + 1:])
            if not m2:
                raise ExtractError('const_tie without "< const_tie"')
            i2 = j + 1 + m2.end() - 1
            j2 = match_close(s, i2)
            b = [x.strip() for x in split_top(s[i2 + 1:j2])]
            if len(a) != len(b):
                raise ExtractError('const_tie arity mismatch')
            expr = '0'
            for k in range(len(a) - 1, -1, -1):
                if k in cmp:
                    lt = '%s((%s), (%s))' % (cmp[k], a[k], b[k])
                    gt = '%s((%s), (%s))' % (cmp[k], b[k], a[k])
                else:
                    lt = '((%s) < (%s))' % (a[k], b[k])
                    gt = '((%s) < (%s))' % (b[k], a[k])
                expr = '(%s || (!%s && %s))' % (lt, gt, expr)
            s = s[:m.start()] + expr + s[j2 + 1:]
            n += 1
        if n == 0:
            raise ExtractError('lex_lt rule did not fire')
        R.hit('const_tie_lex', n)
        return s
    return rule


def rw_ref_locals(s, R):
    """`auto& x = e;` / `const T& x = e;` (a local reference) -> `__auto_type x = &(e);` and later uses of x -> (*x)"""
    pat = re.compile(r'(?<=[;{}\n])(\s*)(?:const\s+)?(?:auto|[\w:]+(?:<[^;=]*?>)?)\s*&\s*(\w+)\s*=\s*([^;]+);')
    pos = 0
    while True:
        m = pat.search(s, pos)
        if not m:
            return s
        name = m.group(2)
        decl = '%s__auto_type %s = &(%s);' % (m.group(1), name, m.group(3))
        rest = s[m.end():]
        rest, n = re.subn(r'(?<![\w.>])(?<!->)\b' + re.escape(name) + r'\b', '(*' + name + ')', rest)
        s = s[:m.start()] + decl + rest
        pos = m.start() + len(decl)
        R.hit('reference_local')


def rw_assert(s, R, where):
    """assert(e) -> __CPROVER_assert(e, "repo assert ...")  (an obligation)"""
    pos = 0
    n = 0
    while True:
        m = re.search(r'(?<![\w_])assert\s*\(', s[pos:])
        if not m:
            break
        a = pos + m.start()
        i = pos + m.end() - 1
        j = match_close(s, i)
        cond = s[i + 1:j]
        # strip the `&& "message"` idiom
        cond2 = re.sub(r'&&\s*"[^"]*"\s*$', '', cond.strip())
        n += 1
        rep = '__CPROVER_assert(%s, "repo assert #%d in %s")' % (cond2, n, where)
        s = s[:a] + rep + s[j + 1:]
        pos = a + len(rep)
        R.hit('assert')
    return s


def rw_members(s, R, extra_members=()):
    """m_x -> self->m_x (not after . or ->)"""
    s2, n = re.subn(r'(?<![\w.>])(?<!->)(m_\w+)\b', r'self->\1', s)
    R.hit('member', n)
    for x in extra_members:
        s2, n = re.subn(r'(?<![\w.>])(?<!->)\b' + re.escape(x) + r'\b', 'self->' + x, s2)
        R.hit('member', n)
    return s2


def rw_refparam(s, R, names):
    for x in names:
        s, n = re.subn(r'(?<![\w.>])(?<!->)\b' + re.escape(x) + r'\b(?!\s*\()', '(*' + x + ')', s)
        R.hit('refparam', n)
    return s


def parse_params(params, R, keepref=()):
    """C++ parameter list -> (C parameter list, [names that were references])"""
    out = []
    refs = []
    refpos = []
    for p in split_top(params, angle=True):
        p = ' '.join(p.split())
        if not p:
            continue
        p = re.sub(r'\s*=\s*[^,]+$', '', p)          # default argument
        m = re.match(r'^(.*?)(&&?|\*+)?\s*(\w+)$', p)
        if not m:
            raise ExtractError('cannot parse parameter: ' + p)
        typ, mod, name = m.group(1).strip(), m.group(2) or '', m.group(3)
        if mod.startswith('&'):
            base = re.sub(r'\bconst\b', '', typ).strip()
            base_nons = re.sub(NS, '', base)
            if (base in SCALARS or base_nons in SCALARS) and 'const' in typ and name not in keepref:
                out.append('%s %s' % (typ, name))       # const scalar& -> by value
                R.hit('constref_byval')
                refpos.append(False)
            else:
                out.append('%s* %s' % (typ, name))
                refs.append(name)
                R.hit('ref_to_ptr')
                refpos.append(True)
        else:
            out.append('%s%s %s' % (typ, mod, name))
            refpos.append(False)
    parse_params.last_refpos = refpos
    return out, refs


def find_loops(body):
    """positions (in source order) where loop contract clauses go:
    after the ')' of for/while headers, after 'do'.  The while of a do-while
    is not a loop header."""
    res = []
    i = 0
    n = len(body)
    do_stack = []          # brace depth at which a do-body was opened
    depth = 0
    pending_do_close = []
    while i < n:
        ch = body[i]
        if ch in '"\'':
            i = skip_literal(body, i)
            continue
        if ch == '{':
            depth += 1
        elif ch == '}':
            depth -= 1
            if do_stack and do_stack[-1] == depth:
                do_stack.pop()
                # the next token must be `while` closing the do
                m = re.match(r'\s*while\s*\(', body[i + 1:])
                if not m:
                    raise ExtractError('do without while')
                j = match_close(body, i + 1 + m.end() - 1)
                i = j + 1
                continue
        m = re.match(r'\b(for|while|do)\b', body[i:]) if (ch in 'fwd' and (i == 0 or not (body[i - 1].isalnum() or body[i - 1] == '_'))) else None
        if m:
            kw = m.group(1)
            k = i + len(kw)
            if kw == 'do':
                mm = re.match(r'\s*\{', body[k:])
                if not mm:
                    raise ExtractError('do without braces')
                res.append(('do', k))
                do_stack.append(depth)
                i = k
                continue
            mm = re.match(r'\s*\(', body[k:])
            if mm:
                j = match_close(body, k + mm.end() - 1)
                res.append((kw, j + 1))
                i = k + mm.end()
                continue
        i += 1
    return res


class Unit:
    """one function to extract.

    file   path below the repo root
    name   C++ function name (last component), cls = enclosing class (may be A::B)
    cname  name of the generated C function
    sig    regex that the declaration must match (overload selection)
    bind   template bindings, emitted as typedefs before the function
    method True -> gets `struct <selftype>* self` as first parameter
    pre/post  must-fire rewrites [(regex, replacement)] before/after the generic rules
    ret    override of the return type (e.g. for templates / constructors)
    """

    def __init__(self, file, name, cls=None, cname=None, sig=None, nth=0, bind=None, method=None,
                 selftype=None, pre=(), post=(), ret=None, params=None, extra_members=(), refs_keep=(),
                 maythrow=False, scalar_types=(), static=False, drop_const_self=False, block=None, objs=None, retval=None, witness=(), strs=(), base_init_ok=(), enums=(), stub_siblings=None, rename=None, helpers=False, optional=False):
        self.file = file
        self.name = name
        self.cls = cls
        self.cname = cname or ((cls.split('::')[-1] + '_' + name) if cls else name)
        self.sig = sig
        self.nth = nth
        self.bind = bind or {}
        self.method = (cls is not None) if method is None else method
        self.selftype = selftype or (('struct ' + cls.split('::')[-1]) if cls else None)
        self.pre = list(pre)
        self.post = list(post)
        self.ret = ret
        self.params = params
        self.extra_members = extra_members
        self.refs_keep = refs_keep
        self.maythrow = maythrow
        self.scalar_types = scalar_types
        self.helpers = helpers
        self.optional = optional   # a helper the unit under proof may or may not use: skipped when the function does not exist
        self.block = block
        self.objs = objs or {}
        self.retval = retval
        self.strs = list(strs)
        self.base_init_ok = list(base_init_ok)
        self.enums = list(enums)
        self.rename = rename or {}   # C++ identifiers that clash with names the rules introduce (e.g. a parameter called self)
        self.stub_siblings = stub_siblings or {}   # unqualified calls to methods of the same class that are contract stubs
        self.witness = list(witness)   # [(expr of type char*, length expr, K)]: first K bytes copied to a ghost array so traces show them


def apply_mustfire(s, rules, R, what):
    for r in rules:
        if callable(r):
            s = r(s, R)
            continue
        pat, rep = r[0], r[1]
        cnt = r[2] if len(r) > 2 else None
        s2, n = re.subn(pat, rep, s, flags=re.S)
        if cnt == '?':          # optional rule (helper units inherit the rules of the unit they were split from)
            if n:
                R.hit('unit_rewrite(optional):' + pat[:40], n)
            s = s2
            continue
        if n == 0 or (cnt is not None and n != cnt):
            raise ExtractError('must-fire rewrite did not fire as expected (%d hits, want %s) in %s: %s' % (n, cnt if cnt is not None else '>=1', what, pat))
        R.hit('unit_rewrite:' + pat[:40], n)
        s = s2
    return s


def rw_maythrow_calls(s, R, maythrow):
    """wrap calls to may-throw callees: f(args) -> VERIF_CALL(f(args)) resp. VERIF_CALLV"""
    for fn, isvoid in maythrow.items():
        pos = 0
        pat = re.compile(r'(?<![\w.>])' + re.escape(fn) + r'\s*\(')
        while True:
            m = pat.search(s, pos)
            if not m:
                break
            i = m.end() - 1
            j = match_close(s, i)
            call = s[m.start():j + 1]
            rep = ('VERIF_CALLV(' if isvoid else 'VERIF_CALL(') + call + ')'
            head = s[:m.start()]
            # `auto x = f(..)`: goto-cc type-checks the initialiser of an __auto_type declaration twice, which re-declares the
            # temporary of the wrapper; name the type by the call instead (typeof does not evaluate its operand)
            ma = re.search(r'__auto_type(\s+\w+\s*=\s*)$', head)
            if ma and not isvoid:
                head = head[:ma.start()] + '__typeof__(' + call + ')' + ma.group(1)
                R.hit('auto_from_maythrow_call')
            s = head + rep + s[j + 1:]
            pos = len(head) + len('VERIF_CALLV(' if isvoid else 'VERIF_CALL(') + len(fn) + 1
            R.hit('maythrow_call')
    return s


def rw_try(s, R):
    """try { A } catch (const X&) { B }  ->  A with propagation retargeted to a label,
    then  if (verif_exc matches X) { verif_exc = 0; B }"""
    n = 0
    while True:
        m = re.search(r'\btry\s*\{', s)
        if not m:
            return s
        n += 1
        b = m.end() - 1
        e = match_close(s, b)
        A = s[b + 1:e]
        rest = s[e + 1:]
        catches = []
        while True:
            mc = re.match(r'\s*catch\s*\(([^)]*)\)\s*\{', rest)
            if not mc:
                break
            cb = mc.end() - 1
            ce = match_close(rest, cb)
            catches.append((mc.group(1).strip(), rest[cb + 1:ce]))
            rest = rest[ce + 1:]
        if not catches:
            raise ExtractError('try without catch')
        lab = 'verif_catch_%d' % n
        A2 = re.sub(r'\bVERIF_THROW\(', 'VERIF_THROW_TO(%s, ' % lab, A)
        A2 = re.sub(r'\bVERIF_CALL\(', 'VERIF_CALL_TO(%s, ' % lab, A2)
        A2 = re.sub(r'\bVERIF_CALLV\(', 'VERIF_CALLV_TO(%s, ' % lab, A2)
        out = '{ ' + A2 + ' } ' + lab + ': ;'
        first = True
        for typ, B in catches:
            typ = re.sub(NS, '', re.sub(r'\bconst\b|&|\b\w+$' if re.search(r'&\s*\w+$', typ) else r'\bconst\b|&', '', typ)).strip()
            if typ == '...':
                cond = 'verif_exc != 0'
            else:
                cond = 'VERIF_EXC_IS(verif_exc, EXC_%s)' % typ.split('::')[-1]
            out += (' ' if first else ' else ') + 'if (%s) { verif_caught = verif_exc; verif_exc = 0; %s }' % (cond, B)
            first = False
        s = s[:m.start()] + out + rest
        R.hit('try')


NOT_A_CALL = {'if', 'for', 'while', 'switch', 'return', 'sizeof', 'static_cast', 'reinterpret_cast', 'const_cast', 'dynamic_cast', 'assert', 'catch', 'throw', 'new', 'delete',
              'defined', 'decltype', 'noexcept', 'alignof', 'typeid'}


def called_helpers(repo, u, known, src_cache=None):
    """member functions of u.cls that the body of u calls without a receiver and that are neither stubbed nor units already: a function that
    was split off into a helper of the same class is pulled in with the unit (Unit(helpers=True)) instead of breaking the extraction"""
    path = repo + '/' + u.file
    src = src_cache[path] if src_cache is not None and path in src_cache else preprocess(strip_comments(open(path).read()))
    if src_cache is not None:
        src_cache[path] = src
    f = find_function(src, u.name, u.cls, u.sig, u.nth)
    out = []
    for m in re.finditer(r'(?<![\w:~.>])([A-Za-z_]\w*)\s*\(', f['body']):
        n = m.group(1)
        if n in NOT_A_CALL or n in known or n in out or n == u.name or n in (u.stub_siblings or {}):
            continue
        try:
            find_function(src, n, u.cls)
        except (ExtractError, IndexError, TypeError):
            continue
        out.append(n)
    return out


def extract(repo, u, R=None, src_cache=None, siblings=None):
    """returns dict(text, origin, hits, sha)"""
    R = R or Rules()
    path = repo + '/' + u.file
    if src_cache is not None and path in src_cache:
        src = src_cache[path]
    else:
        src = preprocess(strip_comments(open(path).read()))
        if src_cache is not None:
            src_cache[path] = src
    f = find_function(src, u.name, u.cls, u.sig, u.nth)
    where = '%s:%d' % (u.file, f['line'])
    for old, new in u.rename.items():
        f['body'] = re.sub(r'\b' + re.escape(old) + r'\b', new, f['body'])
        f['params'] = re.sub(r'\b' + re.escape(old) + r'\b', new, f['params'])
        R.hit('rename_identifier')
    body = f['body']
    brace_line = f['end_line'] - body.count('\n')
    raw_sha = hashlib.sha256((f['header'] + f['params'] + body).encode()).hexdigest()[:16]
    if u.block:
        # statement block between two anchors (regexes) inside the body
        a = re.search(u.block[0], body, re.S)
        b = re.search(u.block[1], body[a.end():], re.S) if a else None
        if not a or not b:
            raise ExtractError('block anchors not found in %s' % where)
        body = '{' + body[a.start():a.end() + b.start()] + '}'
    if f.get('init') and not u.block:
        init = f['init'].strip()
        if init.startswith(':'):
            init = init[1:]
        stmts = []
        for it in split_top(init):
            it = it.strip()
            if not it:
                continue
            m = re.match(r'^(\w+)\s*([({])(.*)[)}]$', it, re.S)
            if not m or not (m.group(1).startswith('m_') or m.group(1) in u.extra_members):
                if m and m.group(1) in u.base_init_ok:
                    R.hit('ctor_base_init_dropped')
                    continue
                raise ExtractError('constructor initialiser not understood: ' + it[:60])
            stmts.append('%s = (%s);' % (m.group(1), ' '.join(m.group(3).split())))
            R.hit('ctor_init_to_assignment')
        body = '{ ' + ' '.join(stmts) + body[1:]
    body = apply_mustfire(body, u.pre, R, where)
    header = f['header']
    header = re.sub(r'template\s*<[^{;]*?>\s*(?=\w)', '', header, count=1)
    header = re.sub(r'\b(static|friend|virtual|OSMIUM_\w+)\b', '', header)
    ret = u.ret if u.ret is not None else (rw_generic(header, Rules()).strip() or 'void')
    refpos = []
    ret_ref = False
    if ret.rstrip().endswith('&') and u.ret is None:
        ret = ret.rstrip()[:-1].rstrip() + '*'
        ret_ref = True
    if u.params is not None:
        cparams, refs = list(u.params), []
    else:
        cparams, refs = parse_params(f['params'], R, u.refs_keep)
        refpos = list(parse_params.last_refpos)
        cparams = [rw_generic(p, Rules()).strip() for p in cparams]
    for en in u.enums:
        body, n = re.subn(r'(?:\b\w+::)*\b' + re.escape(en) + r'::(\w+)', en + r'_\1', body)
        R.hit('enumerator', n)
    body = rw_ref_locals(body, R)
    body = rw_assert(body, R, where)
    body = rw_generic(body, R, u.scalar_types)
    if u.objs:
        body = rw_methodcalls(body, R, u.objs)
    if u.strs:
        body = rw_strings(body, R, u.strs)
    if refs:
        body = rw_refparam(body, R, refs)
    if u.method:
        for nm, cn in list((siblings or {}).items()) + list(u.stub_siblings.items()):
            body, n = re.subn(r'(?<![\w.>:])' + re.escape(nm) + r'\s*\(\s*\)', cn + '(self)', body)
            R.hit('sibling_method_call', n)
            body, n = re.subn(r'(?<![\w.>:])' + re.escape(nm) + r'\s*\((?!self\))', cn + '(self, ', body)
            R.hit('sibling_method_call', n)
        body = rw_members(body, R, u.extra_members)
        body, n = re.subn(r'\*\s*this\b', '(*self)', body)
        R.hit('this', n)
        body, n = re.subn(r'(?<![\w.>])this\b', 'self', body)
        R.hit('this', n)
        cparams = [('const ' if (f['const'] and False) else '') + u.selftype + '* self'] + cparams
    if ret_ref:
        body, n = re.subn(r'\breturn\s+([^;]+);', r'return &(\1);', body)
        R.hit('reference_return', n)
    body = apply_mustfire(body, u.post, R, where)
    typedefs = ''.join('typedef %s %s;\n' % (v, k) for k, v in u.bind.items() if not k.startswith('#'))
    defines = ''.join('#define %s %s\n' % (k[1:], v) for k, v in u.bind.items() if k.startswith('#'))
    return dict(unit=u, ret=ret, cparams=cparams, body=body, where=where, line=f['line'], end_line=f['end_line'],
                typedefs=typedefs + defines, sha=raw_sha, brace_line=brace_line, refpos=refpos, ret_ref=ret_ref, hits=R.hits, refs=refs)


def members_struct(repo, chain, cname, typemap=None, extra='', src_cache=None):
    """C struct generated from the data members of a class (and its bases, given
    in order base-first as [(file, cls), ...]).  typemap: C++ type text -> C type text."""
    typemap = typemap or {}
    fields = []
    for file, cls in chain:
        src = preprocess(strip_comments(open(repo + '/' + file).read()))
        ms = extract_members(src, cls)
        if not ms:
            raise ExtractError('no data members found for ' + cls)
        fields.append('  /* %s (%s) */' % (cls, file))
        for typ, name, suffix, init in ms:
            typ = re.sub(r'\b(mutable|static|const(?=\s+\w+\s*$))\b', '', typ).strip() if False else typ
            t = typemap.get(typ)
            if t is None:
                t = rw_generic(typ, Rules()).strip()
            fields.append('  %s %s%s;' % (t, name, (' ' + suffix) if suffix else ''))
    return 'struct %s {\n%s\n%s};\n' % (cname, '\n'.join(fields), extra)


def rw_ref_args(body, R, table):
    """calls to extracted functions whose C++ parameters are references: pass the address.
    table: {cname: [is_reference per C++ parameter], ...}; methods have `self` prepended already."""
    for fn, refpos in table.items():
        if not any(refpos):
            continue
        pat = re.compile(r'(?<![\w.>])' + re.escape(fn) + r'\s*\(')
        pos = 0
        while True:
            m = pat.search(body, pos)
            if not m:
                break
            i = m.end() - 1
            j = match_close(body, i)
            args = split_top(body[i + 1:j])
            off = len(args) - len(refpos)          # leading self argument of method calls
            if off < 0:
                pos = m.end()
                continue
            new = []
            for k, a in enumerate(args):
                if k - off >= 0 and refpos[k - off] and not a.strip().startswith('&'):
                    new.append(' &(%s)' % a.strip())
                    R.hit('ref_argument')
                else:
                    new.append(a)
            rep = fn + '(' + ','.join(new) + ')'
            body = body[:m.start()] + rep + body[j + 1:]
            pos = m.start() + len(fn) + 1
    return body


def extract_enum(repo, file, name, prefix=None):
    """`enum class name : T { a = 1, ... }` -> C enum with prefixed enumerators + typedef of the underlying type"""
    src = strip_comments(open(repo + '/' + file).read())
    m = re.search(r'\benum\s+(?:class\s+)?' + re.escape(name) + r'\s*(?::\s*([\w: ]+?))?\s*\{', src)
    if not m:
        raise ExtractError('enum not found: ' + name)
    b = m.end() - 1
    e = match_close(src, b)
    prefix = prefix if prefix is not None else name + '_'
    items = []
    for it in split_top(src[b + 1:e]):
        it = ' '.join(it.split())
        if not it:
            continue
        mm = re.match(r'^(\w+)(?:\s*=\s*(.*))?$', it)
        if not mm:
            raise ExtractError('enumerator not understood: ' + it)
        val = mm.group(2)
        if val is not None:
            val = re.sub(r'\b(\w+)\b', lambda x: (prefix + x.group(1)) if re.match(r'^[A-Za-z_]', x.group(1)) and not x.group(1).startswith(('0x', 'U', 'u')) and x.group(1) not in ('U', 'u', 'L', 'true', 'false') else x.group(1), val)
        items.append('  %s%s%s' % (prefix, mm.group(1), (' = ' + val) if val is not None else ''))
    under = rw_generic(m.group(1), Rules()).strip() if m.group(1) else 'int'
    return 'enum { \n%s\n};\ntypedef %s %s;\n' % (',\n'.join(items), under, name)


def extract_const(repo, file, name, ctype=None):
    """`constexpr T name = expr;` -> `static const T name = expr;`"""
    src = strip_comments(open(repo + '/' + file).read())
    m = re.search(r'\b(?:constexpr|const)\s+(?:const\s+)?([\w:]+(?:\s+[\w:]+)*?)\s+' + re.escape(name) + r'\s*=\s*([^;]+);', src)
    if not m:
        raise ExtractError('constant not found: ' + name)
    return 'static const %s %s = %s;\n' % (ctype or rw_generic(m.group(1), Rules()).strip(), name, rw_generic(' '.join(m.group(2).split()), Rules()))


def rw_ret_ref_calls(body, R, names):
    """calls to functions that return a C++ reference (now a pointer): f(args) -> (*f(args))"""
    for fn in names:
        pat = re.compile(r'(?<![\w.>*])' + re.escape(fn) + r'\s*\(')
        pos = 0
        while True:
            m = pat.search(body, pos)
            if not m:
                break
            if body[max(0, m.start() - 2):m.start()] == '(*':
                pos = m.end()
                continue
            i = m.end() - 1
            j = match_close(body, i)
            rep = '(*' + body[m.start():j + 1] + ')'
            body = body[:m.start()] + rep + body[j + 1:]
            pos = m.start() + 2 + len(fn) + 1
            R.hit('reference_returning_call')
    return body


def extract_anon_enum_const(repo, file, name):
    """enumerator of an anonymous `enum : T { name = value }` -> #define name ((T)(value))"""
    src = preprocess(strip_comments(open(repo + '/' + file).read()))
    m = re.search(r'\benum\s*(?::\s*([\w: ]+?))?\s*\{[^{}]*\b' + re.escape(name) + r'\s*=\s*([^,}]+)', src)
    if not m:
        raise ExtractError('enumerator not found: ' + name)
    T = rw_generic(m.group(1), Rules()).strip() if m.group(1) else 'int'
    return '#define %s ((%s)(%s))\n' % (name, T, ' '.join(m.group(2).split()))
