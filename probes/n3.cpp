#include <osmium/io/pbf_output.hpp>
#include <osmium/io/pbf_input.hpp>
#include <osmium/io/opl_input.hpp>
#include <osmium/io/bzip2_compression.hpp>
#include <osmium/io/reader.hpp>
#include <osmium/io/writer.hpp>
#include <osmium/builder/attr.hpp>
#include <iostream>
#include <fstream>
int main(int argc, char** argv) {
  using namespace osmium::builder::attr;
  { osmium::memory::Buffer buf{10240};
    osmium::builder::add_node(buf, _id(1), _version(1), _cid(0xffffffffU), _location(1.0, 2.0));
    { osmium::io::Writer w{"/tmp/probe/f3.osm.pbf", osmium::io::overwrite::allow}; w(std::move(buf)); w.close(); }
    try { osmium::io::Reader r{"/tmp/probe/f3.osm.pbf"}; while (auto b = r.read()) for (const auto& n : b.select<osmium::Node>()) std::cout << "F3 read back changeset=" << n.changeset() << "\n"; r.close(); }
    catch (const std::exception& e) { std::cout << "F3 EXC " << e.what() << "\n"; } }
  for (const char* fn : {"/tmp/probe/ms_exact.opl.bz2", "/tmp/probe/ms_other.opl.bz2"}) {
    try { osmium::io::Reader r{fn}; long n = 0; while (auto b = r.read()) for (const auto& x : b.select<osmium::Node>()) { (void)x; ++n; } r.close(); std::cout << "F11 " << fn << " nodes=" << n << "\n"; }
    catch (const std::exception& e) { std::cout << "F11 " << fn << " EXC " << e.what() << "\n"; } }
  for (const char* fn : {"/tmp/probe/ms_other.opl.bz2"}) {
    std::ifstream in(fn, std::ios::binary); std::string data((std::istreambuf_iterator<char>(in)), std::istreambuf_iterator<char>());
    try { osmium::io::File f{data.data(), data.size(), "opl.bz2"}; osmium::io::Reader r{f}; long n = 0; while (auto b = r.read()) for (const auto& x : b.select<osmium::Node>()) { (void)x; ++n; } r.close(); std::cout << "F12 buffer " << fn << " nodes=" << n << "\n"; }
    catch (const std::exception& e) { std::cout << "F12 EXC " << e.what() << "\n"; } }
}
