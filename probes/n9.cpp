#include <osmium/osm/location.hpp>
#include <iostream>
int main() {
  for (const char* s : {"0.000000012345e5", "0.0000000015e2", "0.000000001e9", "1.00000000999e1", "12345678901e-4", "0.12345678e1"}) {
    try { osmium::Location l; l.set_lon(s); std::cout << s << " -> " << l.x() << "\n"; } catch (const std::exception& e) { std::cout << s << " -> EXC\n"; }
  }
}
