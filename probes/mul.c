#include <stdint.h>
typedef struct { int64_t x, y; } vec;
static int64_t cross(vec a, vec b) { return a.x * b.y - a.y * b.x; }
#define R(v) ((v) >= -(1LL<<30) && (v) <= (1LL<<30))
void h(void) { vec p, q; __CPROVER_assume(R(p.x) && R(p.y) && R(q.x) && R(q.y));
  __CPROVER_assert(cross(p, q) == -cross(q, p), "antisym"); }
void h3(void) { vec p, q, r; __CPROVER_assume(R(p.x) && R(p.y) && R(q.x) && R(q.y) && R(r.x) && R(r.y));
  vec qr = { q.x + r.x, q.y + r.y };
  __CPROVER_assert(cross(p, qr) == cross(p, q) + cross(p, r), "bilinear"); }
