#include <osmium/io/xml_input.hpp>
#include <osmium/io/reader.hpp>
#include <osmium/osm/changeset.hpp>
#include <iostream>
#include <string>
static void run(const char* what, const std::string& d) {
  try { osmium::io::File f{d.data(), d.size(), "osm"}; osmium::io::Reader r{f, osmium::osm_entity_bits::changeset};
    while (auto b = r.read()) for (const auto& cs : b.select<osmium::Changeset>()) { int n = 0; for (const auto& c : cs.discussion()) { ++n; std::cout << what << ": comment user='" << c.user() << "' text='" << std::string(c.text()).substr(0, 20) << "'\n"; if (n > 4) break; } }
    r.close(); std::cout << what << ": done\n"; }
  catch (const std::exception& e) { std::cout << what << ": EXC " << e.what() << "\n"; }
}
int main(int argc, char** argv) {
  const std::string pre = "<osm version=\"0.6\"><changeset id=\"1\" created_at=\"2020-01-01T00:00:00Z\" open=\"false\" user=\"u\" uid=\"1\"><discussion>";
  const std::string post = "</discussion></changeset></osm>";
  const std::string c = "<comment date=\"2020-01-01T00:00:00Z\" uid=\"1\" user=\"uu\">";
  if (argc > 1 && argv[1][0] == 'a') run("no-text", pre + c + "</comment>" + c + "<text>second</text></comment>" + post);
  if (argc > 1 && argv[1][0] == 'b') run("two-text", pre + c + "<text>a</text><text>b</text></comment>" + post);
  if (argc > 1 && argv[1][0] == 'c') run("no-text-last", pre + c + "<text>first</text></comment>" + c + "</comment>" + post);
}
