#include <stdint.h>
#include <stddef.h>
#include <string.h>
int verif_exc;
#define VERIF_THROW(k) do { verif_exc = (k); return; } while (0)
typedef struct { char data[16]; size_t size; } vstr;
static void vstr_push(vstr* s, char c) { __CPROVER_assert(s->size < 15, "vstr cap"); s->data[s->size++] = c; s->data[s->size] = 0; }
static void append_min_4_hex_digits(vstr* out, uint32_t value, const char* const hex_digits) {
  uint32_t v;
  v = value & 0xf0000000U; if (v) { vstr_push(out, hex_digits[v >> 28U]); }
  v = value & 0x0f000000U; if (v) { vstr_push(out, hex_digits[v >> 24U]); }
  v = value & 0x00f00000U; if (v) { vstr_push(out, hex_digits[v >> 20U]); }
  v = value & 0x000f0000U; if (v) { vstr_push(out, hex_digits[v >> 16U]); }
  vstr_push(out, hex_digits[(value >> 12U) & 0xfU]); vstr_push(out, hex_digits[(value >> 8U) & 0xfU]);
  vstr_push(out, hex_digits[(value >> 4U) & 0xfU]); vstr_push(out, hex_digits[value & 0xfU]); }
uint32_t parsed; 
static void opl_parse_escaped_hex(const char** data) {
  const char* s = *data; uint32_t value = 0; const int max_length = sizeof(value) * 2; int length = 0;
  while (++length <= max_length) {
    if (*s == '\0') VERIF_THROW(3);
    if (*s == '%') { ++s; parsed = value; *data = s; return; }
    value <<= 4U;
    if (*s >= '0' && *s <= '9') value += *s - '0'; else if (*s >= 'a' && *s <= 'f') value += *s - 'a' + 10; else if (*s >= 'A' && *s <= 'F') value += *s - 'A' + 10; else VERIF_THROW(4);
    ++s;
  }
  VERIF_THROW(5);
}
void lemma(void) { uint32_t cp; __CPROVER_assume(cp > 0xff && cp <= 0x10ffff);
  vstr out; out.size = 0; append_min_4_hex_digits(&out, cp, "0123456789abcdef"); vstr_push(&out, '%');
  const char* p = out.data; opl_parse_escaped_hex(&p);
  __CPROVER_assert(verif_exc == 0 && parsed == cp && p == out.data + out.size, "hex round trip"); }
