#include <osmium/io/xml_input.hpp>
#include <osmium/io/xml_output.hpp>
#include <osmium/io/opl_input.hpp>
#include <osmium/io/gzip_compression.hpp>
#include <osmium/io/reader.hpp>
#include <osmium/io/writer.hpp>
#include <osmium/builder/attr.hpp>
#include <osmium/index/map/dense_mmap_array.hpp>
#include <iostream>
#include <fstream>
int main() {
  using namespace osmium::builder::attr;
  { osmium::memory::Buffer buf{10240};
    osmium::builder::add_node(buf, _id(1), _version(1), _cid(0xffffffffU), _location(1.0, 2.0));
    { osmium::io::Writer w{"/tmp/probe/f20.osm", osmium::io::overwrite::allow}; w(std::move(buf)); w.close(); }
    try { osmium::io::Reader r{"/tmp/probe/f20.osm"}; while (auto b = r.read()) for (const auto& n : b.select<osmium::Node>()) std::cout << "F20 read back changeset=" << n.changeset() << "\n"; r.close(); }
    catch (const std::exception& e) { std::cout << "F20 EXC " << e.what() << "\n"; } }
  { std::ifstream in("/tmp/probe/mm.opl.gz", std::ios::binary); std::string data((std::istreambuf_iterator<char>(in)), std::istreambuf_iterator<char>());
    for (int mode = 0; mode < 2; ++mode) {
      try { osmium::io::Reader r{mode ? osmium::io::File{"/tmp/probe/mm.opl.gz"} : osmium::io::File{data.data(), data.size(), "opl.gz"}}; long n = 0; while (auto b = r.read()) for (const auto& x : b.select<osmium::Node>()) { (void)x; ++n; } r.close(); std::cout << "F17 " << (mode ? "fd" : "buffer") << " nodes=" << n << "\n"; }
      catch (const std::exception& e) { std::cout << "F17 EXC " << e.what() << "\n"; } } }
  { osmium::index::map::DenseMmapArray<osmium::unsigned_object_id_type, osmium::Location> m;
    m.set(3, osmium::Location{1.0, 1.0}); m.clear(); m.set(5, osmium::Location{2.0, 2.0});
    try { auto l = m.get(3); std::cout << "F14 get(3) after clear+set(5) = " << l << " (stale)\n"; } catch (const std::exception& e) { std::cout << "F14 get(3) not found (ok)\n"; } }
}
