#include <stdint.h>
static const double max_coordinate_epsg3857 = 20037508.34;
static int32_t clamp_i32(int32_t value, int32_t min, int32_t max) { if (value < min) return min; return max < value ? max : value; }
static uint32_t num_tiles_in_zoom(uint32_t zoom) { return 1U << zoom; }
static double tile_extent_in_zoom(uint32_t zoom) { return max_coordinate_epsg3857 * 2 / num_tiles_in_zoom(zoom); }
uint32_t mercy_to_tiley(uint32_t zoom, double y)
__CPROVER_requires(zoom <= 30)
__CPROVER_requires(y == y)
__CPROVER_ensures(__CPROVER_return_value < (1U << zoom))
__CPROVER_assigns()
{
            return (uint32_t)(clamp_i32(
                (int32_t)((max_coordinate_epsg3857 - y) / tile_extent_in_zoom(zoom)),
                0,
                (int32_t)(num_tiles_in_zoom(zoom) - 1)));
}
void h(void) { uint32_t z; double y; mercy_to_tiley(z, y); }
