#include <osmium/io/pbf_output.hpp>
#include <osmium/io/pbf_input.hpp>
#include <osmium/io/reader.hpp>
#include <osmium/io/writer.hpp>
#include <osmium/builder/osm_object_builder.hpp>
#include <iostream>
#include <fstream>
int main() {
  { // F9: 8000 ways, each 6 distinct 1000-byte tag values
    osmium::io::File of{"/tmp/probe/f9.osm.pbf"}; of.set("pbf_compression", "none");
    osmium::io::Writer w{of, osmium::io::overwrite::allow};
    for (int i = 1; i <= 8000; ++i) {
      osmium::memory::Buffer buf{64 * 1024};
      { osmium::builder::WayBuilder b{buf}; b.set_id(i); b.set_version(1);
        { osmium::builder::TagListBuilder t{b}; for (int k = 0; k < 6; ++k) { std::string v(1000, 'a' + k); v += std::to_string(i); t.add_tag(std::string("k") + char('0' + k), v); } } }
      buf.commit(); w(std::move(buf));
    }
    try { std::cout << "F9 writer close returned " << w.close() << "\n"; } catch (const std::exception& e) { std::cout << "F9 writer EXC " << e.what() << "\n"; }
    try { osmium::io::Reader r{"/tmp/probe/f9.osm.pbf"}; long n = 0; while (auto b = r.read()) for (const auto& x : b.select<osmium::Way>()) { (void)x; ++n; } r.close(); std::cout << "F9 read ways=" << n << "\n"; }
    catch (const std::exception& e) { std::cout << "F9 reader EXC " << e.what() << "\n"; } }
  { // F6: embedded NUL
    osmium::io::File of{"/tmp/probe/f6.osm.pbf"}; of.set("pbf_compression", "none");
    { osmium::io::Writer w{of, osmium::io::overwrite::allow}; osmium::memory::Buffer buf{10240};
      { osmium::builder::NodeBuilder b{buf}; b.set_id(1); b.set_location(osmium::Location{1.0, 1.0}); { osmium::builder::TagListBuilder t{b}; t.add_tag("kXey", "value"); t.add_tag("zzz", "yyy"); } }
      buf.commit(); w(std::move(buf)); w.close(); }
    std::ifstream in("/tmp/probe/f6.osm.pbf", std::ios::binary); std::string d((std::istreambuf_iterator<char>(in)), std::istreambuf_iterator<char>());
    auto p = d.find("kXey"); d[p + 1] = '\0';
    try { osmium::io::File f{d.data(), d.size(), "pbf"}; osmium::io::Reader r{f};
      while (auto b = r.read()) for (const auto& n : b.select<osmium::Node>()) { int c = 0; for (const auto& t : n.tags()) { std::cout << "F6 tag " << ++c << ": '" << t.key() << "'='" << t.value() << "'\n"; if (c > 6) break; } }
      r.close(); } catch (const std::exception& e) { std::cout << "F6 EXC " << e.what() << "\n"; } }
}
