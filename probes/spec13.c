#include <stdint.h>
#include <stddef.h>
#include <stdbool.h>
int verif_exc;
#define VERIF_THROW(k) do { verif_exc = (k); return 0; } while (0)
int32_t string_to_location_coordinate(const char** data) 
{
            const char* str = *data;
            const char* full = str;

            int64_t result = 0;
            int sign = 1;
            int64_t scale = 8;
            int max_digits = 10;
            if (*str == '-') {
                sign = -1;
                ++str;
            }

            if (*str != '.') {
                if (*str >= '0' && *str <= '9') {
                    result = *str - '0';
                    ++str;
                } else {
                    VERIF_THROW(1);
                }
                while (*str >= '0' && *str <= '9' && max_digits > 0) {
                    result = result * 10 + (*str - '0');
                    ++str;
                    --max_digits;
                }

                if (max_digits == 0) {
                    VERIF_THROW(1);
                }
            } else {
                if (*(str + 1) < '0' || *(str + 1) > '9') {
                    VERIF_THROW(1);
                }
            }
            if (*str == '.') {
                ++str;
                for (; scale > 0 && *str >= '0' && *str <= '9'; --scale, ++str) {
                    result = result * 10 + (*str - '0');
                }
                max_digits = 20;
                while (*str >= '0' && *str <= '9' && max_digits > 0) {
                    ++str;
                    --max_digits;
                }

                if (max_digits == 0) {
                    VERIF_THROW(1);
                }
            }
            if (*str == 'e' || *str == 'E') {
                ++str;

                int esign = 1;
                if (*str == '-') {
                    esign = -1;
                    ++str;
                }

                int64_t eresult = 0;
                if (*str >= '0' && *str <= '9') {
                    eresult = *str - '0';
                    ++str;
                } else {
                    VERIF_THROW(1);
                }
                max_digits = 5;
                while (*str >= '0' && *str <= '9' && max_digits > 0) {
                    eresult = eresult * 10 + (*str - '0');
                    ++str;
                    --max_digits;
                }

                if (max_digits == 0) {
                    VERIF_THROW(1);
                }

                scale += eresult * esign;
            }

            if (scale < 0) {
                for (; scale < 0 && result > 0; ++scale) 
                {
                    result /= 10;
                }
            } else {
                for (; scale > 0; --scale) 
                {
                    result *= 10;
                }
            }

            result = (result + 5) / 10 * sign;

            if (result > INT32_MAX ||
                result < INT32_MIN) {
                VERIF_THROW(1);
            }

            *data = str;
            return (int32_t)(result);
}

/* ---- spec on the digit array: value = D[0..nd) with decimal point after ni digits, times 10^e ---- */
typedef struct { bool ok; int64_t val; } spec_t;
static spec_t coord_spec(bool neg, const unsigned char* D, int ni, int nf, int e) {
  spec_t r = { false, 0 };
  int nd = ni + nf;
  int p = ni + 7 + e;                 /* digits before the shifted point */
  int64_t acc = 0; bool big = false;
  for (int k = 0; k < 40; ++k) {      /* integer part */
    if (k >= p) break;
    int d = (k < nd) ? D[k] : 0;
    if (acc > 214748364) big = true;  /* would exceed 2147483647*... conservative: more than 10 digits */
    acc = acc * 10 + d;
    if (acc > 21474836480LL) big = true;
  }
  int rd = (p >= 0 && p < nd) ? D[p] : 0;
  if (big) return r;
  if (rd >= 5) acc += 1;
  int64_t v = neg ? -acc : acc;
  if (v > INT32_MAX || v < INT32_MIN) return r;
  r.ok = true; r.val = v; return r;
}
void lemma(void) {
  bool neg; int ni, nf; unsigned char D[40]; char s[48];
  __CPROVER_assume(ni >= 1 && ni <= 10 && nf >= 0 && nf <= 27);
  int pos = 0; if (neg) s[pos++] = '-';
  for (int k = 0; k < 10; ++k) { if (k < ni) { __CPROVER_assume(D[k] <= 9); s[pos++] = '0' + D[k]; } }
  bool dot; __CPROVER_assume(nf == 0 || dot);
  if (dot) s[pos++] = '.';
  for (int k = 0; k < 27; ++k) { if (k < nf) { __CPROVER_assume(D[ni + k] <= 9); s[pos++] = '0' + D[ni + k]; } }
  s[pos] = 0;
  const char* p = s; int32_t got = string_to_location_coordinate(&p);
  spec_t want = coord_spec(neg, D, ni, nf, 0);
  __CPROVER_assert(want.ok == (verif_exc == 0), "accept iff representable");
  __CPROVER_assert(!want.ok || (got == want.val && p == s + pos), "value == correctly rounded decimal");
}
