#include <stdint.h>
#include <stddef.h>
#include <stdbool.h>
#define MAXLEN 100000
/* std::string model: fixed backing object of MAXLEN+1 bytes, ghost epoch = "generation" of data(); any operation that
   may reallocate bumps the epoch, which invalidates every pointer taken earlier. data[i] == stream[base+i] tracked at ghost_g. */
typedef struct { char* data; size_t size; size_t base; unsigned epoch; size_t cap; } vstr;
size_t ghost_g; char ghost_gv;
bool   verif_input_done;
size_t ghost_read, ghost_total, ghost_pos;
unsigned ghost_ptr_epoch;               /* epoch at which m_data/m_end were taken */

#define VSTR_OK(s) ((s)->size <= MAXLEN && (s)->base <= MAXLEN && (s)->cap <= MAXLEN + 1 && ghost_total <= MAXLEN && (s)->base <= ghost_total && ghost_total - (s)->base < (s)->cap && (s)->size < (s)->cap)
#define VSTR_INV(s) ((ghost_g >= (s)->base && ghost_g < (s)->base + (s)->size) ==> (s)->data[ghost_g - (s)->base] == ghost_gv)

void vstr_erase_front(vstr* s, size_t n)
__CPROVER_requires(VSTR_OK(s) && n <= s->size && VSTR_INV(s))
__CPROVER_assigns(s->size, s->base, __CPROVER_object_whole(s->data))
__CPROVER_ensures(s->size == __CPROVER_old(s->size) - n && s->base == __CPROVER_old(s->base) + n && VSTR_INV(s))
;
size_t vstr_append_next_chunk(vstr* s)      /* const std::string data{get_input()}; ... m_input.append(data) fused for the probe */
__CPROVER_requires(VSTR_OK(s) && VSTR_INV(s) && !verif_input_done && s->base + s->size == ghost_read && ghost_read <= ghost_total && ghost_total <= MAXLEN)
__CPROVER_assigns(s->size, s->epoch, verif_input_done, ghost_read, __CPROVER_object_whole(s->data))
__CPROVER_ensures(ghost_read <= ghost_total && ghost_read == __CPROVER_old(ghost_read) + __CPROVER_return_value)
__CPROVER_ensures((__CPROVER_return_value == 0) == verif_input_done)
__CPROVER_ensures(verif_input_done ==> (ghost_read == ghost_total && s->size == __CPROVER_old(s->size) && s->epoch == __CPROVER_old(s->epoch)))
__CPROVER_ensures(!verif_input_done ==> (s->size == __CPROVER_old(s->size) + __CPROVER_return_value && s->epoch >= __CPROVER_old(s->epoch)))
__CPROVER_ensures(VSTR_INV(s))
;
typedef struct { vstr m_input; const char* m_data; const char* m_end; } O5mParser;
#define OFF(p) ((size_t)((p)->m_data - (p)->m_input.data))
#define WFP(p) (ghost_ptr_epoch == (p)->m_input.epoch && __CPROVER_same_object((p)->m_data, (p)->m_input.data) && __CPROVER_same_object((p)->m_end, (p)->m_input.data) && \
   __CPROVER_POINTER_OFFSET((p)->m_end) == (p)->m_input.size && __CPROVER_POINTER_OFFSET((p)->m_data) <= (p)->m_input.size)
#define WIN_INV(p) ((ghost_g >= (p)->m_input.base + OFF(p) && ghost_g < (p)->m_input.base + (p)->m_input.size) ==> (p)->m_data[ghost_g - ((p)->m_input.base + OFF(p))] == ghost_gv)

bool ensure_bytes_available(O5mParser* self, size_t need_bytes)
__CPROVER_requires(__CPROVER_is_fresh(self, sizeof(*self)) && VSTR_OK(&self->m_input) && __CPROVER_is_fresh(self->m_input.data, self->m_input.cap))
__CPROVER_requires(__CPROVER_pointer_in_range_dfcc(self->m_input.data, self->m_data, self->m_input.data + self->m_input.size) && __CPROVER_pointer_equals(self->m_end, self->m_input.data + self->m_input.size))
__CPROVER_requires(ghost_ptr_epoch == self->m_input.epoch && self->m_input.epoch < 1000000)
__CPROVER_requires(need_bytes < 1000 && ghost_total <= MAXLEN && ghost_read <= ghost_total && self->m_input.base + self->m_input.size == ghost_read && (verif_input_done ==> ghost_read == ghost_total))
__CPROVER_requires(VSTR_INV(&self->m_input) && ghost_pos == self->m_input.base + OFF(self))
__CPROVER_assigns(self->m_input.size, self->m_input.base, self->m_input.epoch, self->m_data, self->m_end, verif_input_done, ghost_read, ghost_ptr_epoch, __CPROVER_object_whole(self->m_input.data))
__CPROVER_ensures(WFP(self))
__CPROVER_ensures(WFP(self) ==> WIN_INV(self))
__CPROVER_ensures(WFP(self) ==> self->m_input.base + OFF(self) == ghost_pos)
__CPROVER_ensures((WFP(self) && __CPROVER_return_value) ==> (size_t)(self->m_end - self->m_data) >= need_bytes)
__CPROVER_ensures((WFP(self) && !__CPROVER_return_value) ==> (verif_input_done && ghost_total - ghost_pos < need_bytes))
{
                    if ((size_t)(self->m_end - self->m_data) >= need_bytes) {
                        return true;
                    }
                    if (verif_input_done && (self->m_input.size < need_bytes)) {
                        return false;
                    }
                    vstr_erase_front(&self->m_input, self->m_data - self->m_input.data);
                    while (self->m_input.size < need_bytes)
                    __CPROVER_assigns(self->m_input.size, self->m_input.epoch, verif_input_done, ghost_read, __CPROVER_object_whole(self->m_input.data))
                    __CPROVER_loop_invariant(VSTR_OK(&self->m_input) && self->m_input.base == ghost_pos && self->m_input.base + self->m_input.size == ghost_read && ghost_read <= ghost_total && !verif_input_done
                        && self->m_input.epoch >= __CPROVER_loop_entry(self->m_input.epoch) && VSTR_INV(&self->m_input))
                    __CPROVER_decreases(ghost_total - ghost_read)
                    {
                        const size_t data = vstr_append_next_chunk(&self->m_input);
                        if (verif_input_done) {
#ifdef FIXED
                            self->m_data = self->m_input.data; ghost_ptr_epoch = self->m_input.epoch;
                            self->m_end = self->m_input.data + self->m_input.size;
#endif
                            return false;
                        }
                    }
                    self->m_data = self->m_input.data; ghost_ptr_epoch = self->m_input.epoch;
                    self->m_end = self->m_input.data + self->m_input.size;
                    return true;
}
void h(void) { O5mParser* p; size_t n; ensure_bytes_available(p, n); __CPROVER_assert(0, "canary"); }
