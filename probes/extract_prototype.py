import re, sys
def strip_comments(s):
    out=[];i=0;n=len(s)
    while i<n:
        if s.startswith('//',i):
            j=s.find('\n',i); j=n if j<0 else j; i=j
        elif s.startswith('/*',i):
            j=s.find('*/',i); out.append('\n'*s.count('\n',i,j+2)); i=j+2
        elif s[i] in '"\'':
            q=s[i]; j=i+1
            while s[j]!=q:
                if s[j]=='\\': j+=1
                j+=1
            out.append(s[i:j+1]); i=j+1
        else:
            out.append(s[i]); i+=1
    return ''.join(out)
def find_function(src, name, sig_re=None):
    # find "name(" at a declaration followed by body
    for m in re.finditer(r'\b'+re.escape(name)+r'\s*\(', src):
        # match parens
        i=m.end()-1; d=0
        while True:
            if src[i]=='(': d+=1
            elif src[i]==')':
                d-=1
                if d==0: break
            i+=1
        j=i+1
        tail=re.match(r'\s*(const)?\s*(noexcept)?\s*(final|override)?\s*\{', src[j:])
        if not tail: continue
        if sig_re and not re.search(sig_re, src[m.start():i+1]): continue
        b=j+tail.end()-1; d=0; k=b
        while True:
            c=src[k]
            if c in '"\'':
                q=c; k+=1
                while src[k]!=q:
                    if src[k]=='\\': k+=1
                    k+=1
            elif c=='{': d+=1
            elif c=='}':
                d-=1
                if d==0: break
            k+=1
        # header start: go back to previous ; or } or {
        h=m.start()
        while h>0 and src[h-1] not in ';}{': h-=1
        return src[h:j], src[b:k+1], src.count('\n',0,h)+1
    raise SystemExit('function not found: '+name)
def balanced_arg(s, i):
    # s[i]=='(' ; return index of matching ')'
    d=0
    while True:
        if s[i]=='(': d+=1
        elif s[i]==')':
            d-=1
            if d==0: return i
        i+=1
def rw_casts(s):
    while True:
        m=re.search(r'\b(static_cast|reinterpret_cast|const_cast)\s*<', s)
        if not m: return s
        i=m.end(); d=1
        while d:
            if s[i]=='<': d+=1
            elif s[i]=='>': d-=1
            i+=1
        T=s[m.end():i-1]
        j=s.index('(',i); k=balanced_arg(s,j)
        s=s[:m.start()]+'(('+T+')('+s[j+1:k]+'))'+s[k+1:]
LIMITS={'int32_t':('INT32_MIN','INT32_MAX'),'int64_t':('INT64_MIN','INT64_MAX'),'uint32_t':('0','UINT32_MAX'),'long long':('LLONG_MIN','LLONG_MAX'),'T':('VERIF_T_MIN','VERIF_T_MAX'),
        'changeset_id_type':('0','UINT32_MAX'),'user_id_type':('0','UINT32_MAX'),'object_version_type':('0','UINT32_MAX')}
def rw(s):
    s=rw_casts(s)
    s=re.sub(r'std::numeric_limits<\s*([\w: ]+?)\s*>::(min|max)\(\)', lambda m: LIMITS[m.group(1).replace('osmium::','')][0 if m.group(2)=='min' else 1], s)
    s=re.sub(r'\bthrow\s+([\w:]+)\s*[\{\(](?:[^;]|\n)*?;', lambda m: 'VERIF_THROW(EXC_'+m.group(1).split('::')[-1]+');', s)
    s=re.sub(r'\bconst auto\*?\s+', 'const __auto_type ', s)
    s=re.sub(r'\bauto\b', '__auto_type', s)
    s=re.sub(r'\b(inline|constexpr|noexcept|final|override|explicit)\b', '', s)
    s=re.sub(r'\b(std|osmium|protozero|detail|io)::', '', s)
    s=re.sub(r'\bnullptr\b','NULL',s)
    return s
if __name__=='__main__':
    f,name=sys.argv[1],sys.argv[2]
    src=strip_comments(open(f).read())
    h,b,line=find_function(src,name, sys.argv[3] if len(sys.argv)>3 else None)
    print('/* from %s:%d */'%(f,line)); print(rw(' '.join(h.split()))); print(rw(b))
