#include <osmium/osm/location.hpp>
#include <cstdint>
#include <iostream>
int main() {
  const int64_t lonlat_resolution = 1000L * 1000L * 1000L;
  long bad = 0, total = 0; int32_t first[5]; int nf = 0;
  for (int64_t x = -1800000000LL; x <= 1800000000LL; x += 7) {
    ++total;
    const double d = osmium::Location::fix_to_double(static_cast<int32_t>(x));
    const int64_t w = static_cast<int64_t>(d * lonlat_resolution);   // as in PBFOutputFormat::write_header
    const int64_t back = w / 100;                                      // as in decode_header (resolution_convert)
    if (back != x) { ++bad; if (nf < 5) first[nf++] = static_cast<int32_t>(x); }
  }
  std::cout << "bad " << bad << " of " << total << " e.g.";
  for (int i = 0; i < nf; ++i) std::cout << " " << first[i];
  std::cout << "\n";
}
