#include <osmium/builder/osm_object_builder.hpp>
#include <osmium/memory/buffer.hpp>
#include <osmium/osm/changeset.hpp>
#include <iostream>
int main() {
  for (std::size_t cap : {64, 128, 192, 256, 320, 384, 448, 512}) {
    osmium::memory::Buffer buf{cap, osmium::memory::Buffer::auto_grow::yes};
    {
      osmium::builder::ChangesetBuilder cb{buf};
      cb.set_id(1);
      cb.set_user("u");
      {
        osmium::builder::ChangesetDiscussionBuilder db{cb};
        db.add_comment(osmium::Timestamp{100}, 7, std::string(60, 'n').c_str());
        db.add_comment_text(std::string(40, 't').c_str());
        db.add_comment(osmium::Timestamp{200}, 8, "second");
        db.add_comment_text("text2");
      }
    }
    buf.commit();
    const auto& cs = buf.get<osmium::Changeset>(0);
    int n = 0; bool ok = true;
    for (const auto& c : cs.discussion()) { ++n; if (n == 1 && std::string(c.text()) != std::string(40, 't')) ok = false; if (n == 2 && std::string(c.text()) != "text2") ok = false; if (n > 5) break; }
    std::cout << "cap=" << cap << " comments=" << n << (ok && n == 2 ? " ok" : " WRONG") << "\n";
  }
}
