#include <stdint.h>
#include <stddef.h>
#include <stdbool.h>
#include <errno.h>
int verif_exc; int verif_errno;
#undef errno
#define errno verif_errno
#define VERIF_THROW(k) do { verif_exc = (k); return; } while (0)
/* ghost: total bytes accepted by the kernel, and whether every call started where the last stopped */
size_t ghost_accepted; bool ghost_contiguous; const unsigned char* ghost_base;

int64_t write_stub(int fd, const void* buf, unsigned int count)
__CPROVER_requires(__CPROVER_r_ok(buf, count))
__CPROVER_assigns(verif_errno, ghost_accepted, ghost_contiguous)
__CPROVER_ensures(__CPROVER_return_value >= -1 && __CPROVER_return_value <= (int64_t)count)
__CPROVER_ensures(__CPROVER_return_value >= 0 ==> (ghost_accepted == __CPROVER_old(ghost_accepted) + (size_t)__CPROVER_return_value
        && ghost_contiguous == (__CPROVER_old(ghost_contiguous) && (const unsigned char*)buf == ghost_base + __CPROVER_old(ghost_accepted))))
__CPROVER_ensures(__CPROVER_return_value < 0 ==> (ghost_accepted == __CPROVER_old(ghost_accepted) && ghost_contiguous == __CPROVER_old(ghost_contiguous)))
;
enum { max_write = 100UL * 1024UL * 1024UL };
void reliable_write(const int fd, const unsigned char* output_buffer, const size_t size)
__CPROVER_requires(size < ((size_t)1 << 40) && __CPROVER_is_fresh(output_buffer, size))
__CPROVER_requires(verif_exc == 0 && ghost_accepted == 0 && ghost_contiguous && ghost_base == output_buffer)
__CPROVER_assigns(verif_exc, verif_errno, ghost_accepted, ghost_contiguous)
__CPROVER_ensures(verif_exc == 0 ==> (ghost_accepted == size && ghost_contiguous))
__CPROVER_ensures(verif_exc != 0 ==> verif_errno != EINTR)
{
                size_t offset = 0;
                do 
                __CPROVER_assigns(offset, verif_exc, verif_errno, ghost_accepted, ghost_contiguous)
                __CPROVER_loop_invariant(offset <= size && ghost_accepted == offset && ghost_contiguous && verif_exc == 0)
                {
                    __auto_type write_count = size - offset;
                    if (write_count > max_write) {
                        write_count = max_write;
                    }

                    int64_t length = 0;
                    do 
                    __CPROVER_assigns(length, verif_exc, verif_errno, ghost_accepted, ghost_contiguous)
                    __CPROVER_loop_invariant(verif_exc == 0 && ghost_contiguous && length <= 0 && ghost_accepted == offset && offset <= size && write_count <= size - offset)
                    {
                        length = write_stub(fd, output_buffer + offset, ((unsigned int)(write_count)));
                        if (length < 0 && errno != EINTR) {
                            VERIF_THROW(7);
                        }
                    } while (length < 0);
                    offset += ((size_t)(length));
                } while (offset < size);
}
void h(void) { int fd; const unsigned char* b; size_t n; reliable_write(fd, b, n); __CPROVER_assert(0, "canary"); }
