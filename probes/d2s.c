#include <stdint.h>
#include <stddef.h>
#include <stdbool.h>
size_t ghost_g;
/* assumed contract for snprintf(buf, size, "%.*f", precision, value), finite value */
int snprintf_pf(char* buf, size_t size, int precision, double value)
__CPROVER_requires(size >= 1 && __CPROVER_w_ok(buf, size) && precision >= 0 && precision <= 17)
__CPROVER_assigns(__CPROVER_object_upto(buf, size))
__CPROVER_ensures(__CPROVER_return_value >= 1 + (precision > 0 ? precision + 1 : 0) && __CPROVER_return_value <= 330)
__CPROVER_ensures(buf[(size_t)__CPROVER_return_value < size ? (size_t)__CPROVER_return_value : size - 1] == 0)
/* position of the decimal point, if the text was not truncated before it */
__CPROVER_ensures((precision > 0 && (size_t)(__CPROVER_return_value - 1 - precision) < size - 1) ==> buf[__CPROVER_return_value - 1 - precision] == '.')
/* every stored char is one of -0123456789. ; digits before the point */
__CPROVER_ensures((ghost_g < size - 1 && ghost_g < (size_t)__CPROVER_return_value) ==> ((buf[ghost_g] >= '0' && buf[ghost_g] <= '9') || buf[ghost_g] == '.' || (buf[ghost_g] == '-' && ghost_g == 0)))
__CPROVER_ensures((ghost_g < size - 1 && ghost_g < (size_t)__CPROVER_return_value && buf[ghost_g] == '.') ==> (precision > 0 && ghost_g == (size_t)(__CPROVER_return_value - 1 - precision)))
;
void copy_n_stub(const char* src, size_t n, char* dst)
__CPROVER_requires(__CPROVER_r_ok(src, n) && __CPROVER_w_ok(dst, n))
__CPROVER_assigns(__CPROVER_object_upto(dst, n))
;
char* double2string(char* iterator, double value, int precision)
__CPROVER_requires(precision >= 0 && precision <= 17 && __CPROVER_is_fresh(iterator, 400))
__CPROVER_assigns(__CPROVER_object_whole(iterator))
__CPROVER_ensures(__CPROVER_same_object(__CPROVER_return_value, iterator))
{
            __CPROVER_assert(precision <= 17, "repo assert");
            enum { max_double_length = 20 };
            char buffer[max_double_length];
            int len = snprintf_pf(buffer, max_double_length, precision, value);
            __CPROVER_assert(len > 0 && len < max_double_length, "repo assert len");
            while (buffer[len - 1] == '0')
            __CPROVER_assigns(len)
            __CPROVER_loop_invariant(len >= 1 && len <= __CPROVER_loop_entry(len))
            __CPROVER_decreases(len)
            {
                --len;
            }
            if (buffer[len - 1] == '.') {
                --len;
            }
            copy_n_stub(buffer, len, iterator);
            return iterator + len;
}
void h(void) { char* it; double v; int p; double2string(it, v, p); __CPROVER_assert(0, "canary"); }
