#include <stdint.h>
#include <stddef.h>
#include <stdbool.h>
#include <stdlib.h>
int verif_exc;
typedef struct Buffer { struct Buffer* m_next_buffer; unsigned char* m_memory; unsigned char* m_data; size_t m_capacity, m_written, m_committed; int m_auto_grow; } Buffer;
enum { align_bytes = 8 };
#define MAXCAP ((size_t)1 << 30)
#define WF(b) ((b)->m_data != NULL && (b)->m_committed <= (b)->m_written && (b)->m_written <= (b)->m_capacity && (b)->m_capacity % 8 == 0 && (b)->m_capacity >= 64 && (b)->m_capacity <= MAXCAP)

size_t ghost_k; unsigned char ghost_v;   /* watched byte */

static size_t padded_length(size_t length) { return (length + align_bytes - 1) & ~((size_t)align_bytes - 1); }
static size_t calculate_capacity(size_t capacity) { enum { min_capacity = 64 }; if (capacity < min_capacity) return min_capacity; return padded_length(capacity); }

/* std::copy_n with the pointwise effect observed at ghost_k */
void copy_n_stub(const unsigned char* src, size_t n, unsigned char* dst)
__CPROVER_requires(__CPROVER_r_ok(src, n) && __CPROVER_w_ok(dst, n))
__CPROVER_assigns(__CPROVER_object_upto(dst, n))
__CPROVER_ensures(ghost_k < n ==> dst[ghost_k] == src[ghost_k])
;
void Buffer_grow(Buffer* self, size_t size)
__CPROVER_requires(__CPROVER_is_fresh(self, sizeof(*self)) && WF(self) && __CPROVER_is_fresh(self->m_memory, self->m_capacity) && __CPROVER_pointer_equals(self->m_data, self->m_memory))
__CPROVER_requires(size < MAXCAP && verif_exc == 0)
__CPROVER_requires(ghost_k < self->m_capacity && ghost_v == self->m_data[ghost_k])
__CPROVER_assigns(self->m_memory, self->m_data, self->m_capacity, verif_exc)
__CPROVER_frees(self->m_memory)
__CPROVER_ensures(WF(self) && __CPROVER_pointer_equals(self->m_data, self->m_memory))
__CPROVER_ensures(self->m_capacity >= __CPROVER_old(self->m_capacity) && self->m_capacity >= size && self->m_capacity % 8 == 0)
__CPROVER_ensures(self->m_written == __CPROVER_old(self->m_written) && self->m_committed == __CPROVER_old(self->m_committed))
__CPROVER_ensures(self->m_data[ghost_k] == ghost_v)
{
                __CPROVER_assert(self->m_data && "This must be a valid buffer", "repo assert");
                if (!self->m_memory) {
                    verif_exc = 1; return;
                }
                size = calculate_capacity(size);
                if (self->m_capacity < size) {
                    unsigned char* memory = malloc(size);   /* new unsigned char[size] */
                    __CPROVER_assume(memory != NULL);
                    copy_n_stub(self->m_memory, self->m_capacity, memory);
                    { unsigned char* tmp = self->m_memory; self->m_memory = memory; memory = tmp; }   /* swap */
                    self->m_data = self->m_memory;
                    self->m_capacity = size;
                    free(memory);                            /* unique_ptr destructor */
                }
}
void h(void) { Buffer* b; size_t n; Buffer_grow(b, n); __CPROVER_assert(0, "canary"); }
