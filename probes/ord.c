#include <stdint.h>
#include <stdbool.h>
typedef struct { uint16_t type; int64_t id; uint32_t version; uint32_t ts; bool visible; } Obj;
static uint64_t positive_id(const Obj* o) { return (uint64_t)(o->id < 0 ? -o->id : o->id); }
static bool ts_valid(uint32_t t) { return t != 0; }
#define LEX5(a1,a2,a3,a4,a5,b1,b2,b3,b4,b5) ((a1)<(b1)||((a1)==(b1)&&((a2)<(b2)||((a2)==(b2)&&((a3)<(b3)||((a3)==(b3)&&((a4)<(b4)||((a4)==(b4)&&(a5)<(b5)))))))))
static bool lt(const Obj* lhs, const Obj* rhs) {
  return LEX5(lhs->type, lhs->id > 0, positive_id(lhs), lhs->version, ((ts_valid(lhs->ts) && ts_valid(rhs->ts)) ? lhs->ts : 0),
              rhs->type, rhs->id > 0, positive_id(rhs), rhs->version, ((ts_valid(lhs->ts) && ts_valid(rhs->ts)) ? rhs->ts : 0)); }
static bool id_order(int64_t lhs, int64_t rhs) {
  if (rhs == 0) return false; if (lhs == 0) return true;
  if (lhs < 0) { if (rhs > 0) return true; return lhs > rhs; }
  if (rhs < 0) return false; return lhs < rhs; }
void lemma(void) { Obj a, b, c; 
  __CPROVER_assume(a.id > INT64_MIN && b.id > INT64_MIN && c.id > INT64_MIN);
  __CPROVER_assume((a.ts != 0 && b.ts != 0 && c.ts != 0) || (a.ts == 0 && b.ts == 0 && c.ts == 0));
  __CPROVER_assert(!lt(&a,&a), "irreflexive");
  __CPROVER_assert(!(lt(&a,&b) && lt(&b,&a)), "asymmetric");
  __CPROVER_assert(!(lt(&a,&b) && lt(&b,&c)) || lt(&a,&c), "transitive");
  __CPROVER_assert(!(!lt(&a,&b) && !lt(&b,&a) && !lt(&b,&c) && !lt(&c,&b)) || (!lt(&a,&c) && !lt(&c,&a)), "incomparability transitive");
  __CPROVER_assert(!(a.type == b.type && a.version == b.version && a.ts == b.ts && a.id != b.id) || (lt(&a,&b) == id_order(a.id, b.id)), "agrees with id_order");
}
