#include <stdint.h>
static const double max_coordinate_epsg3857 = 20037508.34;
static int32_t clamp_i32(int32_t value, int32_t min, int32_t max) { if (value < min) return min; return max < value ? max : value; }
static uint32_t num_tiles_in_zoom(uint32_t zoom) { return 1U << zoom; }
static double tile_extent_in_zoom(uint32_t zoom) { return max_coordinate_epsg3857 * 2 / num_tiles_in_zoom(zoom); }
uint32_t mercx_to_tilex(uint32_t zoom, double x)
__CPROVER_requires(zoom <= 30)
__CPROVER_requires(x >= -max_coordinate_epsg3857 && x <= max_coordinate_epsg3857)
__CPROVER_ensures(__CPROVER_return_value < (1U << zoom))
__CPROVER_assigns()
{
            return (uint32_t)(clamp_i32(
                (int32_t)((x + max_coordinate_epsg3857) / tile_extent_in_zoom(zoom)),
                0,
                (int32_t)(num_tiles_in_zoom(zoom) - 1)));
}
void h(void) { uint32_t z; double x; mercx_to_tilex(z, x); }
void h2(void) { uint32_t z; double x1, x2; __CPROVER_assume(z <= 30 && x1 >= -max_coordinate_epsg3857 && x2 <= max_coordinate_epsg3857 && x1 <= x2); 
  __CPROVER_assert(mercx_to_tilex(z, x1) <= mercx_to_tilex(z, x2), "monotone"); }
