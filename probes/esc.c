#include <stdint.h>
#include <stddef.h>
#include <stdbool.h>
#include <string.h>
int verif_exc;
#define VERIF_THROW(k) do { verif_exc = (k); return VERIF_RET; } while (0)
typedef struct { char data[32]; size_t size; } vstr;
static void vstr_push(vstr* s, char c) { __CPROVER_assert(s->size < 31, "vstr cap"); s->data[s->size++] = c; s->data[s->size] = 0; }
static void vstr_append_range(vstr* s, const char* b, const char* e) { while (b != e) vstr_push(s, *b++); }

static uint8_t utf8_sequence_length(uint32_t first) {
  if (first < 0x80U) return 1U;
  if ((first >> 5U) == 0x6U) return 2U;
  if ((first >> 4U) == 0xeU) return 3U;
  if ((first >> 3U) == 0x1eU) return 4U;
  return 0;
}
#define VERIF_RET 0
static uint32_t next_utf8_codepoint(char const** begin, const char* end) {
                const uint8_t* it = (const uint8_t*)(*begin);
                uint32_t cp = 0xffU & *it;
                const uint8_t length = utf8_sequence_length(cp);
                if (length == 0) VERIF_THROW(1);
                if (((const uint8_t*)(end) - it) < length) VERIF_THROW(2);
                switch (length) {
                    case 1: break;
                    case 2: ++it; cp = ((cp << 6U) & 0x7ffU) + ((*it) & 0x3fU); break;
                    case 3: ++it; cp = ((cp << 12U) & 0xffffU) + (((0xffU & *it) << 6U) & 0xfffU); ++it; cp += (*it) & 0x3fU; break;
                    case 4: ++it; cp = ((cp << 18U) & 0x1fffffU) + (((0xffU & *it) << 12U) & 0x3ffffU); ++it; cp += ((0xffU & *it) << 6U) & 0xfffU; ++it; cp += (*it) & 0x3fU; break;
                    default: break;
                }
                ++it;
                *begin = (const char*)(it);
                return cp;
}
#undef VERIF_RET
#define VERIF_RET
static void append_2_hex_digits(vstr* out, uint32_t value, const char* const hex_digits) {
  vstr_push(out, hex_digits[(value >> 4U) & 0xfU]); vstr_push(out, hex_digits[value & 0xfU]); }
static void append_min_4_hex_digits(vstr* out, uint32_t value, const char* const hex_digits) {
  uint32_t v;
  v = value & 0xf0000000U; if (v) { vstr_push(out, hex_digits[v >> 28U]); }
  v = value & 0x0f000000U; if (v) { vstr_push(out, hex_digits[v >> 24U]); }
  v = value & 0x00f00000U; if (v) { vstr_push(out, hex_digits[v >> 20U]); }
  v = value & 0x000f0000U; if (v) { vstr_push(out, hex_digits[v >> 16U]); }
  vstr_push(out, hex_digits[(value >> 12U) & 0xfU]); vstr_push(out, hex_digits[(value >> 8U) & 0xfU]);
  vstr_push(out, hex_digits[(value >> 4U) & 0xfU]); vstr_push(out, hex_digits[value & 0xfU]); }
static void append_utf8_encoded_string(vstr* out, const char* data) {
  static const char* lookup_hex = "0123456789abcdef";
  const char* end_ptr = data + strlen(data);
  while (data != end_ptr) {
    const char* prev = data;
    const uint32_t c = next_utf8_codepoint(&data, end_ptr); if (verif_exc) return;
    if ((0x0021 <= c && c <= 0x0024) || (0x0026 <= c && c <= 0x002b) || (0x002d <= c && c <= 0x003c) || (0x003e <= c && c <= 0x003f) ||
        (0x0041 <= c && c <= 0x007e) || (0x00a1 <= c && c <= 0x00ac) || (0x00ae <= c && c <= 0x05ff)) {
      vstr_append_range(out, prev, data);
    } else {
      vstr_push(out, '%');
      if (c <= 0xff) append_2_hex_digits(out, c, lookup_hex); else append_min_4_hex_digits(out, c, lookup_hex);
      vstr_push(out, '%');
    }
  }
}
static char* append_codepoint_as_utf8(uint32_t cp, char* out) {
  if (cp < 0x80UL) { *(out++) = (char)(cp); }
  else if (cp < 0x800UL) { *(out++) = (char)((cp >> 6U) | 0xc0U); *(out++) = (char)((cp & 0x3fU) | 0x80U); }
  else if (cp < 0x10000UL) { *(out++) = (char)((cp >> 12U) | 0xe0U); *(out++) = (char)(((cp >> 6U) & 0x3fU) | 0x80U); *(out++) = (char)((cp & 0x3fU) | 0x80U); }
  else { *(out++) = (char)((cp >> 18U) | 0xf0U); *(out++) = (char)(((cp >> 12U) & 0x3fU) | 0x80U); *(out++) = (char)(((cp >> 6U) & 0x3fU) | 0x80U); *(out++) = (char)((cp & 0x3fU) | 0x80U); }
  return out;
}
static void opl_parse_escaped(const char** data, vstr* result) {
  const char* s = *data; uint32_t value = 0; const int max_length = sizeof(value) * 2; int length = 0;
  while (++length <= max_length) {
    if (*s == '\0') VERIF_THROW(3);
    if (*s == '%') { ++s; if (value == 0) { vstr_push(result, '%'); } else { char tmp[4]; char* e = append_codepoint_as_utf8(value, tmp); vstr_append_range(result, tmp, e); } *data = s; return; }
    value <<= 4U;
    if (*s >= '0' && *s <= '9') value += *s - '0'; else if (*s >= 'a' && *s <= 'f') value += *s - 'a' + 10; else if (*s >= 'A' && *s <= 'F') value += *s - 'A' + 10; else VERIF_THROW(4);
    ++s;
  }
  VERIF_THROW(5);
}
static void opl_parse_string(const char** data, vstr* result) {
  const char* s = *data;
  while (true) {
    if (*s == '\0' || *s == ' ' || *s == '\t' || *s == ',' || *s == '=') break;
    if (*s == '%') { ++s; opl_parse_escaped(&s, result); if (verif_exc) return; } else { vstr_push(result, *s); ++s; }
  }
  *data = s;
}
void lemma(void) {
  uint32_t cp; __CPROVER_assume(cp >= 1 && cp <= 0x10ffff && !(cp >= 0xd800 && cp <= 0xdfff));
  char s[8]; char* e = append_codepoint_as_utf8(cp, s); *e = 0;
  vstr out; out.size = 0; out.data[0] = 0;
  append_utf8_encoded_string(&out, s);
  __CPROVER_assert(verif_exc == 0, "escape does not throw");
  for (size_t i = 0; i < out.size; ++i) { char c = out.data[i];
    __CPROVER_assert(c != ' ' && c != ',' && c != '=' && c != '@' && c != '\n' && c != '\r' && c != '\t' && c != 0 && (c != '%' || i == 0 || i == out.size - 1), "no structural char"); }
  vstr back; back.size = 0; back.data[0] = 0; const char* p = out.data;
  opl_parse_string(&p, &back);
  __CPROVER_assert(verif_exc == 0, "parse does not throw");
  __CPROVER_assert(p == out.data + out.size, "consumed all");
  __CPROVER_assert(back.size == (size_t)(e - s) && memcmp(back.data, s, back.size) == 0, "round trip");
}
