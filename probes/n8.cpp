#include <osmium/io/opl_input.hpp>
#include <osmium/io/reader.hpp>
#include <iostream>
int main(int argc, char** argv) {
  const std::size_t ulen = std::stoul(argv[1]);
  std::string d = "n1 v1 dV c1 t2020-01-01T00:00:00Z i1 u" + std::string(ulen, 'A') + " Tk=v x1 y2\n";
  try { osmium::io::File f{d.data(), d.size(), "opl"}; osmium::io::Reader r{f};
    while (auto b = r.read()) for (const auto& n : b.select<osmium::Node>()) { std::cout << "user strlen=" << std::strlen(n.user()) << " tags:"; int c = 0; for (const auto& t : n.tags()) { std::cout << " [" << std::string(t.key()).substr(0,8) << "=" << std::string(t.value()).substr(0,8) << "]"; if (++c > 3) break; } std::cout << " loc=" << n.location() << "\n"; }
    r.close(); } catch (const std::exception& e) { std::cout << "EXC " << e.what() << "\n"; }
}
