#include <stdint.h>
#include <stddef.h>
#include <stdbool.h>
#define MAXLEN 100000
typedef struct { char* data; size_t size; } vstr;

/* ---- assumed contracts (std::string model, input queue) ---- */
bool verif_input_done;           /* Parser::input_done() */
size_t ghost_unread;             /* bytes not yet handed out by get_input() */

/* erase(0,n): keeps data pointer, shrinks */
void vstr_erase_front(vstr* s, size_t n)
__CPROVER_requires(__CPROVER_is_fresh(s, sizeof(*s)) && n <= s->size && s->size < MAXLEN && __CPROVER_is_fresh(s->data, s->size + 1))
__CPROVER_assigns(s->size, __CPROVER_object_whole(s->data))
__CPROVER_ensures(s->size == __CPROVER_old(s->size) - n && s->data == __CPROVER_old(s->data))
;
/* append(chunk): may reallocate -> new data pointer */
void vstr_append_chunk(vstr* s, size_t chunk_len)
__CPROVER_requires(__CPROVER_is_fresh(s, sizeof(*s)) && s->size < MAXLEN && chunk_len < MAXLEN)
__CPROVER_assigns(s->size, s->data)
__CPROVER_ensures(s->size == __CPROVER_old(s->size) + chunk_len && __CPROVER_is_fresh(s->data, s->size + 1))
;
/* get_input(): returns next chunk length (0 = end marker, sets input_done) */
size_t get_input_len(void)
__CPROVER_assigns(verif_input_done, ghost_unread)
__CPROVER_ensures(__CPROVER_return_value <= __CPROVER_old(ghost_unread) && ghost_unread == __CPROVER_old(ghost_unread) - __CPROVER_return_value)
__CPROVER_ensures((__CPROVER_return_value == 0) == verif_input_done)
__CPROVER_ensures(verif_input_done ==> ghost_unread == 0)
;

typedef struct { vstr m_input; const char* m_data; const char* m_end; } O5mParser;

#define WFP(p) (__CPROVER_same_object((p)->m_data, (p)->m_input.data) && __CPROVER_same_object((p)->m_end, (p)->m_input.data) && \
   (p)->m_end == (p)->m_input.data + (p)->m_input.size && (p)->m_data >= (p)->m_input.data && (p)->m_data <= (p)->m_end)

bool ensure_bytes_available(O5mParser* self, size_t need_bytes)
__CPROVER_requires(__CPROVER_is_fresh(self, sizeof(*self)) && self->m_input.size < 1000 && __CPROVER_is_fresh(self->m_input.data, self->m_input.size + 1))
__CPROVER_requires(self->m_data == self->m_input.data + (self->m_input.size / 2) && self->m_end == self->m_input.data + self->m_input.size)
__CPROVER_requires(need_bytes < 1000 && ghost_unread < 1000)
__CPROVER_assigns(self->m_input.size, self->m_input.data, self->m_data, self->m_end, verif_input_done, ghost_unread, __CPROVER_object_whole(self->m_input.data))
__CPROVER_ensures(WFP(self))
__CPROVER_ensures(__CPROVER_return_value ==> (size_t)(self->m_end - self->m_data) >= need_bytes)
{
                    if ((size_t)(self->m_end - self->m_data) >= need_bytes) {
                        return true;
                    }

                    if (verif_input_done && (self->m_input.size < need_bytes)) {
                        return false;
                    }

                    vstr_erase_front(&self->m_input, self->m_data - self->m_input.data);

                    while (self->m_input.size < need_bytes) 
                    __CPROVER_assigns(self->m_input.size, self->m_input.data, verif_input_done, ghost_unread)
                    __CPROVER_loop_invariant(self->m_input.size < 2000 && ghost_unread < 1000 && self->m_input.size + ghost_unread < 2000 && __CPROVER_rw_ok(self->m_input.data, self->m_input.size + 1))
                    __CPROVER_decreases(ghost_unread)
                    {
                        const size_t data = get_input_len();
                        if (verif_input_done) {
                            return false;
                        }
                        vstr_append_chunk(&self->m_input, data);
                    }

                    self->m_data = self->m_input.data;
                    self->m_end = self->m_input.data + self->m_input.size;

                    return true;
}
void h(void) { O5mParser* p; size_t n; ensure_bytes_available(p, n); }
