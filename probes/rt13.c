#include <stdint.h>
#include <stddef.h>
#include <stdbool.h>
int verif_exc;
#define VERIF_THROW(k) do { verif_exc = (k); return 0; } while (0)
int32_t string_to_location_coordinate(const char** data) 
{
            const char* str = *data;
            const char* full = str;

            int64_t result = 0;
            int sign = 1;
            int64_t scale = 8;
            int max_digits = 10;
            if (*str == '-') {
                sign = -1;
                ++str;
            }

            if (*str != '.') {
                if (*str >= '0' && *str <= '9') {
                    result = *str - '0';
                    ++str;
                } else {
                    VERIF_THROW(1);
                }
                while (*str >= '0' && *str <= '9' && max_digits > 0) {
                    result = result * 10 + (*str - '0');
                    ++str;
                    --max_digits;
                }

                if (max_digits == 0) {
                    VERIF_THROW(1);
                }
            } else {
                if (*(str + 1) < '0' || *(str + 1) > '9') {
                    VERIF_THROW(1);
                }
            }
            if (*str == '.') {
                ++str;
                for (; scale > 0 && *str >= '0' && *str <= '9'; --scale, ++str) {
                    result = result * 10 + (*str - '0');
                }
                max_digits = 20;
                while (*str >= '0' && *str <= '9' && max_digits > 0) {
                    ++str;
                    --max_digits;
                }

                if (max_digits == 0) {
                    VERIF_THROW(1);
                }
            }
            if (*str == 'e' || *str == 'E') {
                ++str;

                int esign = 1;
                if (*str == '-') {
                    esign = -1;
                    ++str;
                }

                int64_t eresult = 0;
                if (*str >= '0' && *str <= '9') {
                    eresult = *str - '0';
                    ++str;
                } else {
                    VERIF_THROW(1);
                }
                max_digits = 5;
                while (*str >= '0' && *str <= '9' && max_digits > 0) {
                    eresult = eresult * 10 + (*str - '0');
                    ++str;
                    --max_digits;
                }

                if (max_digits == 0) {
                    VERIF_THROW(1);
                }

                scale += eresult * esign;
            }

            if (scale < 0) {
                for (; scale < 0 && result > 0; ++scale) 
                {
                    result /= 10;
                }
            } else {
                for (; scale > 0; --scale) 
                {
                    result *= 10;
                }
            }

            result = (result + 5) / 10 * sign;

            if (result > INT32_MAX ||
                result < INT32_MIN) {
                VERIF_THROW(1);
            }

            *data = str;
            return (int32_t)(result);
}

enum { coordinate_precision = 10000000 };
char* append_location_coordinate_to_string(char* iterator, int32_t value) {
            if (value == INT32_MIN) {
                static const char minresult[] = "-214.7483648";
                for (unsigned i = 0; i < sizeof(minresult) - 1; ++i) *iterator++ = minresult[i];
                return iterator;
            }
            if (value < 0) {
                *iterator++ = '-';
                value = -value;
            }
            int32_t v = value;
            char temp[10];
            char* t = temp;
            do {
                *t++ = ((char)(v % 10)) + '0';
                v /= 10;
            } while (v != 0);
            while (t - temp < 7) {
                *t++ = '0';
            }
            if (value >= coordinate_precision) {
                if (value >= 10 * coordinate_precision) {
                    if (value >= 100 * coordinate_precision) {
                        *iterator++ = *--t;
                    }
                    *iterator++ = *--t;
                }
                *iterator++ = *--t;
            } else {
                *iterator++ = '0';
            }
            const char* tn = temp;
            while (tn < t && *tn == '0') {
                ++tn;
            }
            if (t != tn) {
                *iterator++ = '.';
                while (t != tn) {
                    *iterator++ = *--t;
                }
            }
            return iterator;
}
void lemma(void) { int32_t x; char buf[16]; char* e = append_location_coordinate_to_string(buf, x); *e = 0;
  __CPROVER_assert(e - buf <= 12, "length");
  const char* p = buf; int32_t y = string_to_location_coordinate(&p);
  __CPROVER_assert(verif_exc == 0 && y == x && p == e, "round trip"); }
