#include <stdint.h>
typedef struct { int64_t x, y; } vec;
static int64_t cross(vec a, vec b) { return a.x * b.y - a.y * b.x; }
#define R(v) ((v) >= -(1LL<<30) && (v) <= (1LL<<30))
void h(void) { vec p, q; __CPROVER_assume(R(p.x) && R(p.y) && R(q.x) && R(q.y));
  int64_t d = cross(p, q);
  int64_t d2 = p.x * q.y - p.y * q.x;
  __CPROVER_assert(d == d2, "same-syntax"); 
  __CPROVER_assert((d > 0) == (p.x * q.y > p.y * q.x), "sign"); }
