#include <stdint.h>
#include <stddef.h>
#include <stdbool.h>
int verif_exc;
enum { number_of_entries = 15000, entry_size = 256, max_length = 252 };
typedef struct { char* m_table; size_t m_table_size; unsigned int current_entry; unsigned long ghost_adds; } ReferenceTable;
#define WF(t) ((t)->current_entry < number_of_entries && ((t)->m_table_size == 0 || (t)->m_table_size == (size_t)entry_size * number_of_entries))

void copy_n_stub(const char* src, size_t n, char* dst)
__CPROVER_requires(__CPROVER_r_ok(src, n) && __CPROVER_w_ok(dst, n))
__CPROVER_assigns(__CPROVER_object_upto(dst, n))
;

void ReferenceTable_add(ReferenceTable* self, const char* string, size_t size)
__CPROVER_requires(__CPROVER_is_fresh(self, sizeof(*self)) && WF(self) && self->m_table_size != 0 && __CPROVER_is_fresh(self->m_table, self->m_table_size))
__CPROVER_requires(size < 100000 && __CPROVER_is_fresh(string, size))
__CPROVER_assigns(self->current_entry, self->ghost_adds, __CPROVER_object_whole(self->m_table))
__CPROVER_ensures(WF(self))
__CPROVER_ensures(size <= max_length ==> self->current_entry == (__CPROVER_old(self->current_entry) + 1) % number_of_entries)
__CPROVER_ensures(size > max_length ==> self->current_entry == __CPROVER_old(self->current_entry))
{
                    if (size <= max_length) {
                        copy_n_stub(string, size, &self->m_table[self->current_entry * entry_size]);
                        if (++self->current_entry == number_of_entries) {
                            self->current_entry = 0;
                        }
                    }
}
const char* ReferenceTable_get(const ReferenceTable* self, uint64_t index, unsigned ghost_cur_before_k_adds, unsigned k)
__CPROVER_requires(__CPROVER_is_fresh(self, sizeof(*self)) && WF(self) && (self->m_table_size == 0 || __CPROVER_is_fresh(self->m_table, self->m_table_size)))
__CPROVER_requires(verif_exc == 0)
/* ghost: k accepted adds ago the cursor was ghost_cur_before_k_adds */
__CPROVER_requires(k >= 1 && k <= number_of_entries && ghost_cur_before_k_adds < number_of_entries && self->current_entry == (ghost_cur_before_k_adds + k) % number_of_entries)
__CPROVER_assigns(verif_exc)
__CPROVER_ensures((self->m_table_size == 0 || index == 0 || index > number_of_entries) == (verif_exc != 0))
__CPROVER_ensures((verif_exc == 0 && index == k) ==> __CPROVER_return_value == self->m_table + (size_t)ghost_cur_before_k_adds * entry_size)
__CPROVER_ensures(verif_exc == 0 ==> (__CPROVER_same_object(__CPROVER_return_value, self->m_table) && __CPROVER_POINTER_OFFSET(__CPROVER_return_value) % entry_size == 0 && __CPROVER_POINTER_OFFSET(__CPROVER_return_value) + entry_size <= self->m_table_size))
{
                    if (self->m_table_size == 0 || index == 0 || index > number_of_entries) {
                        verif_exc = 1; return 0;
                    }
                    const __auto_type entry = (self->current_entry + number_of_entries - index) % number_of_entries;
                    return &self->m_table[entry * entry_size];
}
void h1(void) { ReferenceTable* t; const char* s; size_t n; ReferenceTable_add(t, s, n); }
void h2(void) { ReferenceTable* t; uint64_t i; unsigned a, k; ReferenceTable_get(t, i, a, k); }
