#include <stdint.h>
#include <stddef.h>
#include <stdbool.h>
int verif_exc;
#define VERIF_THROW(k) do { verif_exc = (k); return 0; } while (0)
int32_t string_to_location_coordinate(const char** data) 
__CPROVER_requires(__CPROVER_is_fresh(data, sizeof(*data)))
__CPROVER_requires(__CPROVER_is_fresh(*data, 64))
__CPROVER_requires((*data)[63] == 0)
__CPROVER_requires(verif_exc == 0)
__CPROVER_assigns(*data, verif_exc)
__CPROVER_ensures(verif_exc != 0 || (__CPROVER_same_object(*data, __CPROVER_old(*data)) && *data >= __CPROVER_old(*data)))
{
            const char* str = *data;
            const char* full = str;

            int64_t result = 0;
            int sign = 1;
            int64_t scale = 8;
            int max_digits = 10;
            if (*str == '-') {
                sign = -1;
                ++str;
            }

            if (*str != '.') {
                if (*str >= '0' && *str <= '9') {
                    result = *str - '0';
                    ++str;
                } else {
                    VERIF_THROW(1);
                }
                while (*str >= '0' && *str <= '9' && max_digits > 0) {
                    result = result * 10 + (*str - '0');
                    ++str;
                    --max_digits;
                }

                if (max_digits == 0) {
                    VERIF_THROW(1);
                }
            } else {
                if (*(str + 1) < '0' || *(str + 1) > '9') {
                    VERIF_THROW(1);
                }
            }
            if (*str == '.') {
                ++str;
                for (; scale > 0 && *str >= '0' && *str <= '9'; --scale, ++str) {
                    result = result * 10 + (*str - '0');
                }
                max_digits = 20;
                while (*str >= '0' && *str <= '9' && max_digits > 0) {
                    ++str;
                    --max_digits;
                }

                if (max_digits == 0) {
                    VERIF_THROW(1);
                }
            }
            if (*str == 'e' || *str == 'E') {
                ++str;

                int esign = 1;
                if (*str == '-') {
                    esign = -1;
                    ++str;
                }

                int64_t eresult = 0;
                if (*str >= '0' && *str <= '9') {
                    eresult = *str - '0';
                    ++str;
                } else {
                    VERIF_THROW(1);
                }
                max_digits = 5;
                while (*str >= '0' && *str <= '9' && max_digits > 0) {
                    eresult = eresult * 10 + (*str - '0');
                    ++str;
                    --max_digits;
                }

                if (max_digits == 0) {
                    VERIF_THROW(1);
                }

                scale += eresult * esign;
            }

            if (scale < 0) {
                for (; scale < 0 && result > 0; ++scale) 
                __CPROVER_assigns(scale, result)
                __CPROVER_loop_invariant(result >= 0 && result <= __CPROVER_loop_entry(result))
                __CPROVER_decreases(result)
                {
                    result /= 10;
                }
            } else {
                for (; scale > 0; --scale) 
                __CPROVER_assigns(scale, result)
                __CPROVER_loop_invariant(scale >= 0)
                __CPROVER_decreases(scale)
                {
                    result *= 10;
                }
            }

            result = (result + 5) / 10 * sign;

            if (result > INT32_MAX ||
                result < INT32_MIN) {
                VERIF_THROW(1);
            }

            *data = str;
            return (int32_t)(result);
}
void h(void) { const char* p; const char** d = &p; string_to_location_coordinate(d); }
