#include <osmium/osm/location.hpp>
#include <iostream>
int main() {
  for (const char* s : {"1e100", "1e19", "1e20", "9999999999e1", "0.5e64", "2e63", "1e-3", "214.7483647", "214.7483648"}) {
    try { const char* p = s; auto v = osmium::detail::string_to_location_coordinate(&p); std::cout << s << " -> " << v << "\n"; }
    catch (const std::exception& e) { std::cout << s << " -> EXC\n"; }
  }
  const char d[4] = {0,0,0,(char)0x80};
  uint32_t r = (static_cast<uint32_t>(d[3])) | (static_cast<uint32_t>(d[2]) <<  8U) | (static_cast<uint32_t>(d[1]) << 16U) | (static_cast<uint32_t>(d[0]) << 24U);
  std::cout << std::hex << r << "\n";
}
