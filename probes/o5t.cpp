#include <osmium/io/o5m_input.hpp>
#include <osmium/io/reader.hpp>
#include <osmium/osm/node.hpp>
#include <iostream>
#include <string>
static std::string zz(int64_t v) { uint64_t u = (uint64_t(v) << 1) ^ uint64_t(v >> 63); std::string s; while (u >= 0x80) { s += char((u & 0x7f) | 0x80); u >>= 7; } s += char(u); return s; }
static void run(const std::string& data, const char* what) {
  try {
    osmium::io::File f{data.data(), data.size(), "o5m"};
    osmium::io::Reader r{f};
    int n = 0;
    while (auto b = r.read()) for (const auto& node : b.select<osmium::Node>()) { ++n; std::cout << what << ": node id=" << node.id() << " loc=" << node.location() << "\n"; }
    r.close();
    std::cout << what << ": total " << n << "\n";
  } catch (const std::exception& e) { std::cout << what << ": EXC " << e.what() << "\n"; }
}
int main() {
  const std::string hdr("\xff\xe0\x04o5m2", 7);
  // node: id=5, no info (0x00), lon=1.0000000 (10000000), lat=2.0 (20000000)
  std::string body = zz(5) + std::string(1, '\0') + zz(1000) + zz(70000);
  std::cout << "payload bytes: " << body.size() << "\n";
  std::string ds = std::string(1, '\x10') + char(body.size()) + body;
  run(hdr + ds, "one-node");
  run(hdr + ds + std::string(1, '\xfe'), "one-node+fe");
  // with padding node before so that k > r
  std::string body2 = zz(1) + std::string(1, '\0') + zz(1) + zz(1);
  std::string ds2 = std::string(1, '\x10') + char(body2.size()) + body2;
  std::string many; for (int i = 0; i < 5; ++i) many += ds2;
  run(hdr + many + ds, "6 nodes");
}
