#include <stdint.h>
#include <stddef.h>
#include <stdbool.h>
typedef uint32_t T;
enum { chunk_bits = 22 };
#define chunk_size ((size_t)1 << chunk_bits)
typedef struct { bool* present; unsigned char* store; size_t nchunks; } IdSetDense;   /* model of vector<unique_ptr<uchar[]>> */
typedef struct { const IdSetDense* m_set; T m_value; T m_last; } It;
#define CHUNK_ID(id) ((size_t)((id) >> (chunk_bits + 3U)))
#define OFFSET(id)   ((size_t)(((id) >> 3U) & ((1U << chunk_bits) - 1U)))
#define BITMASK(id)  (1U << ((id) & 0x7U))
#define GET(s, id) (CHUNK_ID(id) < (s)->nchunks && (s)->present[CHUNK_ID(id)] && (((s)->store[CHUNK_ID(id) * chunk_size + OFFSET(id)] & BITMASK(id)) != 0))
T ghost_g;
void It_next(It* self)
__CPROVER_requires(__CPROVER_is_fresh(self, sizeof(*self)) && __CPROVER_is_fresh(self->m_set, sizeof(IdSetDense)))
__CPROVER_requires(self->m_set->nchunks >= 1 && self->m_set->nchunks < 128 && __CPROVER_is_fresh(self->m_set->present, self->m_set->nchunks) && __CPROVER_is_fresh(self->m_set->store, self->m_set->nchunks * chunk_size))
__CPROVER_requires(self->m_last == (T)(self->m_set->nchunks * chunk_size * 8) && self->m_value <= self->m_last)
__CPROVER_assigns(self->m_value)
__CPROVER_ensures(self->m_value >= __CPROVER_old(self->m_value) && self->m_value <= self->m_last)
__CPROVER_ensures(self->m_value == self->m_last || GET(self->m_set, self->m_value))
__CPROVER_ensures((__CPROVER_old(self->m_value) <= ghost_g && ghost_g < self->m_value) ==> !GET(self->m_set, ghost_g))
{
                while (self->m_value != self->m_last && !GET(self->m_set, self->m_value))
                __CPROVER_assigns(self->m_value)
                __CPROVER_loop_invariant(__CPROVER_loop_entry(self->m_value) <= self->m_value && self->m_value <= self->m_last
                    && ((__CPROVER_loop_entry(self->m_value) <= ghost_g && ghost_g < self->m_value) ==> !GET(self->m_set, ghost_g)))
                __CPROVER_decreases(self->m_last - self->m_value)
                {
                    const T cid = CHUNK_ID(self->m_value);
                    __CPROVER_assert(cid < self->m_set->nchunks, "repo assert");
                    if (!self->m_set->present[cid]) {
                        self->m_value = (cid + 1) << (chunk_bits + 3);
                    } else {
                        const __auto_type slot = self->m_set->store[cid * chunk_size + OFFSET(self->m_value)];
                        if (slot == 0) {
                            self->m_value += 8;
                            self->m_value &= ~0x7ULL;
                        } else {
                            ++self->m_value;
                        }
                    }
                }
}
void h(void) { It* it; It_next(it); __CPROVER_assert(0, "canary"); }
