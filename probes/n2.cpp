#include <osmium/util/double.hpp>
#include <osmium/geom/tile.hpp>
#include <osmium/index/id_set.hpp>
#include <osmium/geom/wkt.hpp>
#include <osmium/builder/attr.hpp>
#include <osmium/memory/buffer.hpp>
#include <iostream>
int main() {
  { std::string s; osmium::double2string(s, 100.0, 0); std::cout << "F5 double2string(100,0) = '" << s << "'\n"; }
  { std::string s; osmium::double2string(s, 10.5, 1); std::cout << "   double2string(10.5,1) = '" << s << "'\n"; }
  for (double lat : {-89.0, -89.99, -89.995, -90.0, 90.0}) { osmium::geom::Tile t{30, osmium::Location{0.0, lat}}; std::cout << "F10 zoom30 lat=" << lat << " tile y=" << t.y << "\n"; }
  { osmium::index::IdSetDense<uint32_t> s; s.set(5); s.set(0xffffffffU); int n = 0; for (auto id : s) { (void)id; ++n; } std::cout << "F8 size=" << s.size() << " iterated=" << n << "\n"; }
  { using namespace osmium::builder::attr; osmium::memory::Buffer buf{10240};
    osmium::builder::add_way(buf, _id(1), _nodes({{1, osmium::Location{}}, {2, {1.0, 1.0}}, {3, {2.0, 2.0}}}));
    osmium::geom::WKTFactory<> f; const auto& w = buf.get<osmium::Way>(0);
    try { std::cout << "F7 unique: " << f.create_linestring(w) << "\n"; } catch (const std::exception& e) { std::cout << "F7 unique: EXC " << e.what() << "\n"; }
    try { std::cout << "F7 all: " << f.create_linestring(w, osmium::geom::use_nodes::all) << "\n"; } catch (const std::exception& e) { std::cout << "F7 all: EXC " << e.what() << "\n"; } }
}
