#include <osmium/io/opl_input.hpp>
#include <osmium/io/gzip_compression.hpp>
#include <osmium/io/bzip2_compression.hpp>
#include <osmium/io/reader.hpp>
#include <iostream>
#include <fstream>
#include <unistd.h>
static long count_nodes(osmium::io::File f) { osmium::io::Reader r{f}; long n = 0; while (auto b = r.read()) for (const auto& x : b.select<osmium::Node>()) { (void)x; ++n; } r.close(); return n; }
int main(int argc, char** argv) {
  const std::string fn = argv[1], fmt = argv[2]; const bool use_fd = argv[3][0] == 'f';
  std::ifstream in(fn, std::ios::binary); std::string data((std::istreambuf_iterator<char>(in)), std::istreambuf_iterator<char>());
  long full = -1; try { full = count_nodes(osmium::io::File{data.data(), data.size(), fmt}); } catch (const std::exception& e) { std::cout << "full EXC " << e.what() << "\n"; }
  std::cout << "full file nodes=" << full << " bytes=" << data.size() << "\n";
  long accepted = 0; std::string first;
  for (std::size_t L = 1; L < data.size(); ++L) {
    try {
      long n;
      if (use_fd) { const std::string tmp = "/tmp/probe/trunc." + fmt; { std::ofstream o(tmp, std::ios::binary); o.write(data.data(), L); } n = count_nodes(osmium::io::File{tmp, fmt}); }
      else n = count_nodes(osmium::io::File{data.data(), L, fmt});
      ++accepted; if (first.size() < 200) first += " L=" + std::to_string(L) + ":" + std::to_string(n);
    } catch (const std::exception&) { }
  }
  std::cout << fmt << (use_fd ? " fd" : " mem") << ": truncations accepted without error: " << accepted << " of " << data.size() - 1 << " e.g." << first << "\n";
}
