"""C06 - the parse result is independent of how the input byte stream is chunked (carry-over logic of the parsers)."""
from cv import Pipeline, Unit
from cx import ExtractError
import cx, re

PROPERTY = 'C06'
LEVEL = 'proof'
O5M = 'include/osmium/io/detail/o5m_input_format.hpp'
PIPELINES = []


def o5m_prelude(repo):
    src = cx.preprocess(cx.strip_comments(open(repo + '/' + O5M).read()))
    got = [m[1] for m in cx.extract_members(src, 'O5mParser')]
    for need in ('m_input', 'm_data', 'm_end'):
        if need not in got:
            raise ExtractError('O5mParser::%s missing' % need)
    return '''
struct O5mParser { vstr m_input; const char* m_data; const char* m_end; };
#define OFF(p) ((size_t)((p)->m_data - (p)->m_input.data))
/* the window [m_data, m_end) is the unconsumed tail of the carry-over buffer, taken at the buffer's current epoch */
#define WFP(p) (ghost_ptr_epoch == (p)->m_input.epoch && __CPROVER_same_object((p)->m_data, (p)->m_input.data) && __CPROVER_same_object((p)->m_end, (p)->m_input.data) && \\
   __CPROVER_POINTER_OFFSET((p)->m_end) == (p)->m_input.size && __CPROVER_POINTER_OFFSET((p)->m_data) <= (p)->m_input.size)
#define WIN_INV(p) (!(ghost_g >= (p)->m_input.base + OFF(p) && ghost_g < (p)->m_input.base + (p)->m_input.size) || (p)->m_data[ghost_g - ((p)->m_input.base + OFF(p))] == ghost_gv)
'''


U_eba = Unit(O5M, 'ensure_bytes_available', cls='O5mParser',
             pre=[(r'input_done\(\)', 'verif_input_done'), (r'm_input\.size\(\)', 'm_input.size'), (r'm_input\.data\(\)', 'm_input.data'),
                  (r'm_input\.erase\(0, ', 'vstr_erase_front(&m_input, '), (r'const std::string data\{get_input\(\)\};', 'const size_t data = verif_get_input();'),
                  (r'm_input\.append\(data\)', 'vstr_append_chunk(&m_input, data)')],
             post=[(r'self->m_data = self->m_input\.data;', 'self->m_data = self->m_input.data; ghost_ptr_epoch = self->m_input.epoch; /*ghost*/')])
EBA_CONTRACT = [
    ('pre:parser state between two calls', 'requires',
     '__CPROVER_is_fresh(self, sizeof(*self)) && VSTR_OK(&self->m_input) && __CPROVER_is_fresh(self->m_input.data, self->m_input.cap) && '
     '__CPROVER_pointer_in_range_dfcc(self->m_input.data, self->m_data, self->m_input.data + self->m_input.size) && __CPROVER_pointer_equals(self->m_end, self->m_input.data + self->m_input.size) && '
     '(verif_input_done == 0 || verif_input_done == 1) && ghost_ptr_epoch == self->m_input.epoch && self->m_input.epoch < 1000000 && need_bytes < 1000 && ghost_total <= MAXLEN && ghost_read <= ghost_total && ghost_pending == 0 && '
     'self->m_input.base + self->m_input.size == ghost_read && (!verif_input_done || ghost_read == ghost_total) && VSTR_INV(&self->m_input) && ghost_pos == self->m_input.base + OFF(self)'),
    ('post:on EVERY return the window pointers are valid pointers into the current buffer', 'ensures', 'WFP(self)'),
    ('post:the window shows the stream at the consumed position, whatever the chunking was', 'ensures', '!WFP(self) || WIN_INV(self)'),
    ('post:nothing is consumed', 'ensures', '!WFP(self) || self->m_input.base + OFF(self) == ghost_pos'),
    ('post:true means that many bytes are available', 'ensures', '!(WFP(self) && __CPROVER_return_value) || (size_t)(self->m_end - self->m_data) >= need_bytes'),
    ('post:false only if the stream really has fewer bytes left', 'ensures', '!(WFP(self) && !__CPROVER_return_value) || (verif_input_done && ghost_total - ghost_pos < need_bytes)'),
    ('frame', 'assigns', 'self->m_input.size, self->m_input.base, self->m_input.epoch, self->m_data, self->m_end, verif_input_done, ghost_read, ghost_pending, ghost_ptr_epoch, __CPROVER_object_whole(self->m_input.data)'),
]
EBA_LOOP = [['__CPROVER_assigns(self->m_input.size, self->m_input.epoch, verif_input_done, ghost_read, ghost_pending, __CPROVER_object_whole(self->m_input.data), self->m_data, self->m_end, ghost_ptr_epoch)',
             '__CPROVER_loop_invariant(VSTR_OK(&self->m_input))',
             '__CPROVER_loop_invariant(self->m_input.base == ghost_pos)',
             '__CPROVER_loop_invariant(self->m_input.base + self->m_input.size == ghost_read && ghost_read <= ghost_total)',
             '__CPROVER_loop_invariant((!verif_input_done || self->m_input.size >= need_bytes) && (!verif_input_done || ghost_read == ghost_total))',
             '__CPROVER_loop_invariant(ghost_pending == 0)',
             '__CPROVER_loop_invariant(self->m_input.epoch >= __CPROVER_loop_entry(self->m_input.epoch))',
             '__CPROVER_loop_invariant(VSTR_INV(&self->m_input))',
             '__CPROVER_decreases(ghost_total - ghost_read)']]
PIPELINES.append(Pipeline('U1_o5m_ensure_bytes_available', units=[U_eba], stubs=['vstr_epoch.h'], prelude=o5m_prelude, contracts={'O5mParser_ensure_bytes_available': EBA_CONTRACT},
                          loops={'O5mParser_ensure_bytes_available': EBA_LOOP}, replace=['vstr_erase_front', 'verif_get_input', 'vstr_append_chunk'], enforce='O5mParser_ensure_bytes_available',
                          harness='void harness(void) { struct O5mParser* p; size_t n; O5mParser_ensure_bytes_available(p, n); __CPROVER_assert(0, "canary"); }',
                          timeout=900, replay=('c06_chunks', lambda cex, o: ['o5m']),
                          note='streams of any length up to 100000 bytes, every chunking (each get_input() returns a chunk of any length), any parser position'))


# ---- PBF: the input queue of the PBF parser (queue mode, m_fd == -1) ---------------------------------------------------------------------------
PBF = 'include/osmium/io/detail/pbf_input_format.hpp'
PBFD = 'include/osmium/io/detail/pbf.hpp'
PBF_C = '''
struct PBFParser { vstr m_input_buffer; void* m_offset_ptr; int m_fd; bool m_want_buffered_pages_removed; };
/* std::string::reserve: may reallocate (pointers into the string die: new epoch); size and content unchanged */
void vstr_reserve(vstr* s, size_t n) __CPROVER_requires(VSTR_OK(s) && VSTR_INV(s)) __CPROVER_assigns(s->epoch) __CPROVER_ensures(s->epoch >= __CPROVER_old(s->epoch));
/* the std::string handed to the blob decoder: which bytes of the stream it holds (ghost) */
size_t ghost_out_base, ghost_out_len; bool ghost_out_set;
void vstr_copy_prefix_out(const vstr* in, size_t pos, size_t n) __CPROVER_requires(VSTR_OK(in) && pos == 0 && n <= in->size) __CPROVER_assigns(ghost_out_base, ghost_out_len, ghost_out_set)
  __CPROVER_ensures(ghost_out_base == in->base && ghost_out_len == n && ghost_out_set);
bool read_exactly(int fd, char* buf, unsigned int size) __CPROVER_requires(fd >= 0) __CPROVER_assigns() __CPROVER_ensures(1);
/* queue state between two calls of the parser */
#define QOK(p) (VSTR_OK(&(p)->m_input_buffer) && VSTR_INV(&(p)->m_input_buffer) && (p)->m_fd == -1 && (verif_input_done == 0 || verif_input_done == 1) && ghost_pending == 0 && \\
   ghost_read <= ghost_total && (p)->m_input_buffer.base + (p)->m_input_buffer.size == ghost_read && (!verif_input_done || ghost_read == ghost_total))
'''


def pbf_prelude(repo):
    src = cx.preprocess(cx.strip_comments(open(repo + '/' + PBF).read()))
    got = [m[1] for m in cx.extract_members(src, 'PBFParser')]
    if got[:4] != ['m_input_buffer', 'm_offset_ptr', 'm_fd', 'm_want_buffered_pages_removed']:
        raise ExtractError('PBFParser data members changed: %s' % got)
    return cx.extract_const(repo, PBFD, 'max_uncompressed_blob_size') + PBF_C


QPRE = [(r'm_input_buffer\.size\(\)', 'm_input_buffer.size')]
U_ensure = Unit(PBF, 'ensure_available_in_input_queue', cls='PBFParser',
                pre=QPRE + [(r'm_input_buffer\.reserve\(size\);', 'vstr_reserve(&m_input_buffer, size);'), (r'const std::string new_data\{get_input\(\)\};', 'const size_t new_data = verif_get_input();'),
                            (r'input_done\(\)', 'verif_input_done'), (r'm_input_buffer \+= new_data;', 'vstr_append_chunk(&m_input_buffer, new_data);')])
U_pop = Unit(PBF, 'pop_from_input_queue', cls='PBFParser', pre=[(r'm_input_buffer\.erase\(0, size\);', 'vstr_erase_front(&m_input_buffer, size);')])
U_readq = Unit(PBF, 'read_from_input_queue_with_check', cls='PBFParser', ret='void',
               pre=[(r'std::string\{"invalid blob size: "\} \+\s*std::to_string\(size\)', '"invalid blob size"'), (r'std::string buffer;', '/* result string: ghost */'),
                    (r'buffer\.resize\(size\);', '/* resize */;'), (r'osmium::io::detail::read_exactly\(m_fd, &\*buffer\.begin\(\), ', 'read_exactly(m_fd, 0, '),
                    (r'buffer\.append\(m_input_buffer, 0, size\);', 'vstr_copy_prefix_out(&m_input_buffer, 0, size);'), (r'return buffer;', 'return;')])
ENSURE_CONTRACT = [
    ('pre:queue state between two calls', 'requires', 'verif_exc == 0 && __CPROVER_is_fresh(self, sizeof(*self)) && __CPROVER_is_fresh(self->m_input_buffer.data, self->m_input_buffer.cap) && QOK(self)'),
    ('post:the queue is again in a state between two calls', 'ensures', 'QOK(self)'),
    ('post:only pbf_error, and only if the stream really has fewer bytes left than asked for', 'ensures',
     'verif_exc == 0 || (verif_exc == EXC_pbf_error && verif_input_done && ghost_total - self->m_input_buffer.base < size)'),
    ('post:on success that many bytes are buffered', 'ensures', 'verif_exc != 0 || self->m_input_buffer.size >= size'),
    ('post:nothing is consumed and the buffer shows the stream at the consumed position, whatever the chunking was', 'ensures',
     'self->m_input_buffer.base == __CPROVER_old(self->m_input_buffer.base) && VSTR_INV(&self->m_input_buffer) && self->m_input_buffer.base + self->m_input_buffer.size == ghost_read && ghost_pending == 0'),
    ('frame', 'assigns', 'verif_exc, self->m_input_buffer.size, self->m_input_buffer.epoch, verif_input_done, ghost_read, ghost_pending, __CPROVER_object_whole(self->m_input_buffer.data)'),
]
ENSURE_LOOP = [['__CPROVER_assigns(verif_exc, self->m_input_buffer.size, self->m_input_buffer.epoch, verif_input_done, ghost_read, ghost_pending, __CPROVER_object_whole(self->m_input_buffer.data))',
                '__CPROVER_loop_invariant(verif_exc == 0 && VSTR_OK(&self->m_input_buffer) && VSTR_INV(&self->m_input_buffer) && ghost_pending == 0)',
                '__CPROVER_loop_invariant(self->m_input_buffer.base == __CPROVER_loop_entry(self->m_input_buffer.base))',
                '__CPROVER_loop_invariant(self->m_input_buffer.base + self->m_input_buffer.size == ghost_read && ghost_read <= ghost_total)',
                '__CPROVER_loop_invariant((verif_input_done == 0 || verif_input_done == 1) && (!verif_input_done || ghost_read == ghost_total))',
                '__CPROVER_decreases(ghost_total - ghost_read)']]
PIPELINES.append(Pipeline('U2_pbf_ensure_available_in_input_queue', units=[U_ensure], stubs=['vstr_epoch.h'], prelude=pbf_prelude, contracts={'PBFParser_ensure_available_in_input_queue': ENSURE_CONTRACT},
                          loops={'PBFParser_ensure_available_in_input_queue': ENSURE_LOOP}, replace=['vstr_reserve', 'verif_get_input', 'vstr_append_chunk'], enforce='PBFParser_ensure_available_in_input_queue',
                          harness='void harness(void) { struct PBFParser* p; size_t n; PBFParser_ensure_available_in_input_queue(p, n); __CPROVER_assert(verif_exc != 0, "canary:normal"); __CPROVER_assert(verif_exc == 0, "canary:throw"); }',
                          canaries=['canary:normal', 'canary:throw'], timeout=900, replay=('c06_chunks', lambda cex, o: ['pbf']),
                          note='every chunking of the stream: the refill loop appends every chunk it is given, in order, and gives up only at the end marker'))
POP_CONTRACT = [('pre', 'requires', 'verif_exc == 0 && __CPROVER_is_fresh(self, sizeof(*self)) && __CPROVER_is_fresh(self->m_input_buffer.data, self->m_input_buffer.cap) && QOK(self) && size <= self->m_input_buffer.size'),
                ('post:the queue is again in a state between two calls', 'ensures', 'QOK(self)'),
                ('post:exactly size bytes are consumed from the front', 'ensures', 'self->m_input_buffer.base == __CPROVER_old(self->m_input_buffer.base) + size && self->m_input_buffer.size == __CPROVER_old(self->m_input_buffer.size) - size && VSTR_INV(&self->m_input_buffer)'),
                ('frame', 'assigns', 'self->m_input_buffer.size, self->m_input_buffer.base, __CPROVER_object_whole(self->m_input_buffer.data)')]
PIPELINES.append(Pipeline('U2_pbf_pop_from_input_queue', units=[U_pop], stubs=['vstr_epoch.h'], prelude=pbf_prelude, contracts={'PBFParser_pop_from_input_queue': POP_CONTRACT}, replace=['vstr_erase_front'],
                          enforce='PBFParser_pop_from_input_queue', harness='void harness(void) { struct PBFParser* p; size_t n; PBFParser_pop_from_input_queue(p, n); __CPROVER_assert(0, "canary"); }',
                          replay=('c06_chunks', lambda cex, o: ['pbf'])))
def as_callee(contract):
    """the same contract as seen by a caller: the objects exist already (is_fresh is for the enforced function; at a call site the pointers must merely be valid)"""
    return [(l, k, re.sub(r'__CPROVER_is_fresh\(', '__CPROVER_rw_ok(', t) if k == 'requires' else t) for (l, k, t) in contract]


PIPELINES.append(Pipeline('U2_pbf_read_from_input_queue_with_check', units=[U_ensure, U_pop, U_readq], stubs=['vstr_epoch.h'], prelude=pbf_prelude,
                          contracts={'PBFParser_ensure_available_in_input_queue': as_callee(ENSURE_CONTRACT), 'PBFParser_pop_from_input_queue': as_callee(POP_CONTRACT), 'PBFParser_read_from_input_queue_with_check': [
                              ('pre:queue state between two calls', 'requires', 'verif_exc == 0 && __CPROVER_is_fresh(self, sizeof(*self)) && __CPROVER_is_fresh(self->m_input_buffer.data, self->m_input_buffer.cap) && QOK(self) && !ghost_out_set'),
                              ('post:oversized blobs and truncated streams are rejected with pbf_error; nothing else throws', 'ensures',
                               '(verif_exc == 0 || verif_exc == EXC_pbf_error) && (size <= max_uncompressed_blob_size || verif_exc != 0)'),
                              ('post:the string handed on is exactly the next size bytes of the stream and exactly those are consumed, whatever the chunking was', 'ensures',
                               'verif_exc != 0 || (ghost_out_set && ghost_out_base == __CPROVER_old(self->m_input_buffer.base) && ghost_out_len == size && self->m_input_buffer.base == __CPROVER_old(self->m_input_buffer.base) + size && VSTR_INV(&self->m_input_buffer))'),
                              ('frame', 'assigns', 'verif_exc, self->m_input_buffer.size, self->m_input_buffer.base, self->m_input_buffer.epoch, verif_input_done, ghost_read, ghost_pending, ghost_out_base, ghost_out_len, ghost_out_set, __CPROVER_object_whole(self->m_input_buffer.data)')]},
                          replace=['PBFParser_ensure_available_in_input_queue', 'PBFParser_pop_from_input_queue', 'vstr_copy_prefix_out', 'read_exactly'],
                          maythrow={'PBFParser_ensure_available_in_input_queue': True}, enforce='PBFParser_read_from_input_queue_with_check',
                          harness='void harness(void) { struct PBFParser* p; size_t n; PBFParser_read_from_input_queue_with_check(p, n); __CPROVER_assert(verif_exc != 0, "canary:normal"); __CPROVER_assert(verif_exc == 0, "canary:throw"); }',
                          canaries=['canary:normal', 'canary:throw'], replay=('c06_chunks', lambda cex, o: ['pbf']),
                          note='queue mode (m_fd == -1); the file-descriptor branch only hands the size to read_exactly'))

# ---- OPL: line_by_line() - every byte received is part of a line handed to the parser, a line separator, or pending; the loop runs to the end marker ----
OPLIN = 'include/osmium/io/detail/opl_input_format.hpp'
OPL_PRELUDE = '''
#define NPOS ((size_t)-1)
typedef struct lstr { size_t size; } lstr;   /* std::string: only the length is kept */
typedef int Worker;
/* ghost accounting of the byte stream: bytes received from get_input() that have neither been handed to parse_line() as part of a line nor been consumed as a line separator */
size_t ghost_pending_bytes;
size_t ghost_lines;      /* calls of parse_line() */
_Bool verif_input_done;
/* the queue protocol (see vstr_epoch.h): chunks of any length >= 1, then the end marker (length 0, input_done() true from then on) */
size_t W_get_input(Worker* w) __CPROVER_requires(verif_input_done == 0 || verif_input_done == 1) __CPROVER_assigns(verif_input_done, ghost_pending_bytes)
  __CPROVER_ensures((__CPROVER_return_value == 0) == verif_input_done && __CPROVER_return_value <= (1u << 24) && ghost_pending_bytes == __CPROVER_old(ghost_pending_bytes) + __CPROVER_return_value && (!__CPROVER_old(verif_input_done) || verif_input_done));
/* std::string::find_first_of("\\n\\r", from): npos, or the first separator at or after from */
size_t verif_find_nl(size_t size, size_t from) __CPROVER_requires(1) __CPROVER_assigns() __CPROVER_ensures(__CPROVER_return_value == NPOS || (__CPROVER_return_value >= from && __CPROVER_return_value < size));
void W_parse_line(Worker* w, size_t len) __CPROVER_requires(len >= 1 && verif_exc == 0) __CPROVER_assigns(ghost_pending_bytes, ghost_lines, verif_exc)
  __CPROVER_ensures(ghost_pending_bytes == __CPROVER_old(ghost_pending_bytes) - len && ghost_lines == __CPROVER_old(ghost_lines) + 1 && (verif_exc == 0 || verif_exc == EXC_opl_error));
'''
U_lbl = Unit(OPLIN, 'line_by_line', params=['Worker* worker_p'],
             pre=[(r'std::string rest;', 'lstr rest; rest.size = 0;'), (r'worker\.input_done\(\)', 'verif_input_done'),
                  (r'std::string input\{worker\.get_input\(\)\};', 'lstr input; input.size = W_get_input(worker_p);'), (r'std::string::size_type ppos = 0;', 'size_t ppos = 0;'),
                  (r'!rest\.empty\(\)', '(rest.size != 0)'), (r'input\.find_first_of\("\\n\\r", ppos\)', 'verif_find_nl(input.size, ppos)', 2), (r'input\.find_first_of\("\\n\\r"\)', 'verif_find_nl(input.size, 0)'), (r'std::string::npos', 'NPOS'),
                  (r'rest\.append\(input\);', 'rest.size += input.size;'), (r'rest\.append\(input, 0, ppos\);', '__CPROVER_assert(ppos <= input.size, "std::string::append(str, pos, n): pos within str"); rest.size += ppos;'),
                  (r'worker\.parse_line\(rest\.data\(\)\);', 'W_parse_line(worker_p, rest.size);', 2), (r'rest\.clear\(\);', 'rest.size = 0;'),
                  (r'\+\+ppos;', '++ppos; ghost_pending_bytes -= 1; /*ghost: the separator at the old ppos*/'),
                  (r'for \(auto pos = ', 'for (size_t pos = '),
                  (r'const char\* data = &input\[ppos\];\s*input\[pos\] = \'\\0\';', '__CPROVER_assert(ppos <= pos && pos < input.size, "index into the input string"); ghost_pending_bytes -= 1; /*ghost: the separator at pos*/'),
                  (r"if \(data\[0\] != '\\0'\) \{\s*worker\.parse_line\(data\);", 'if (pos > ppos) { /* a non-empty line (input text has no NUL bytes: assumption) */ W_parse_line(worker_p, pos - ppos);'),
                  (r'input\.size\(\)', 'input.size'),
                  (r'rest\.assign\(input, ppos, NPOS\);', '__CPROVER_assert(ppos <= input.size, "std::string::assign(str, pos, n): pos within str (out_of_range otherwise)"); rest.size = input.size - ppos;')])
ACC = 'ghost_pending_bytes == rest.size'
PIPELINES.append(Pipeline('U3_opl_line_by_line', units=[U_lbl], prelude=OPL_PRELUDE, contracts={'line_by_line': [
    ('pre:start of the stream', 'requires', 'verif_exc == 0 && __CPROVER_is_fresh(worker_p, sizeof(*worker_p)) && ghost_pending_bytes == 0 && ghost_lines == 0 && verif_input_done == 0'),
    ('post:the splitter stops only at the end marker of the stream or with a parse error', 'ensures', 'verif_exc != 0 || verif_input_done'),
    ('post:every byte received was part of a line handed to the parser or a line separator - whatever the chunking; nothing is dropped, nothing is parsed twice', 'ensures',
     'verif_exc != 0 || ghost_pending_bytes == 0'),
    ('post:exception class', 'ensures', 'verif_exc == 0 || verif_exc == EXC_opl_error'),
    ('frame', 'assigns', 'verif_exc, verif_input_done, ghost_pending_bytes, ghost_lines')]},
    loops={'line_by_line': [
        ['__CPROVER_assigns(rest.size, verif_exc, verif_input_done, ghost_pending_bytes, ghost_lines)',
         '__CPROVER_loop_invariant(verif_exc == 0 && (verif_input_done == 0 || verif_input_done == 1) && %s)' % ACC],   # the accounting holds modulo 2^64; no bound on the stream length is needed
        ['__CPROVER_assigns(pos, ppos, verif_exc, ghost_pending_bytes, ghost_lines)',
         '__CPROVER_loop_invariant(verif_exc == 0 && rest.size == 0 && ppos <= input.size && (pos == NPOS || (pos >= ppos && pos < input.size)) && ghost_pending_bytes == input.size - ppos)',
         '__CPROVER_decreases(input.size - ppos)']]},
    replace=['W_get_input', 'verif_find_nl', 'W_parse_line'], maythrow={'W_parse_line': True}, enforce='line_by_line',
    harness='void harness(void) { Worker* w; line_by_line(w); __CPROVER_assert(verif_exc != 0, "canary:normal"); __CPROVER_assert(verif_exc == 0, "canary:throw"); }',
    canaries=['canary:normal', 'canary:throw'], timeout=1200, replay=('c06_chunks', lambda cex, o: ['opl']), noflags=['--conversion-check'], object_bits=10,
    note='strings by length, separators by an unconstrained find_first_of: every chunking and every placement of line ends; termination of the outer loop depends on the queue (not claimed)'))

TRUSTED = ['std::string erase/append/data semantics (stubs/vstr_epoch.h)', 'get_input()/input_done() hand over the stream in arbitrary chunks followed by one end marker (queue protocol)']
ASSUMPTIONS = ['input streams of at most 100000 bytes (object-size bound; the loop contract makes the proof independent of it)']
NOT_DECIDED = ['XML (carry-over lives inside expat)', 'OPL input with NUL bytes (the splitter skips a line that starts with one)', 'the PBF blob header size/type decoding between the queue operations', 'decompressor to parser hand-off (threads)', 'callers that ignore the return value of ensure_bytes_available']
LEVEL_TEXT = ('Proof for the o5m carry-over: O5mParser::ensure_bytes_available is verified, for every stream up to 100000 bytes, every segmentation into chunks and every parser position, '
              'to leave valid window pointers on every return, to show the stream at the logically consumed position regardless of the chunking, to consume nothing, and to report "not enough bytes" '
              'only when the stream really ends (refill loop closed by a loop contract with termination). Proof for the PBF input queue (queue mode): ensure_available_in_input_queue appends every chunk it is given, in '
              'order, consumes nothing and gives up (pbf_error) only when the stream really has fewer bytes left; pop_from_input_queue consumes exactly the requested bytes; read_from_input_queue_with_check hands on '
              'exactly the next size bytes of the stream and consumes exactly those, for every chunking. Proof for the OPL line splitter line_by_line(): for every chunking and every placement of line ends, '
              'every byte received is part of a line handed to parse_line or a line separator (nothing dropped, nothing parsed twice), and the loop stops only at the end marker or with a parse error.')
LEVEL_NOTE = ('Trusted: CBMC, extraction rules, the std::string model with ghost epochs, the get_input/input_done protocol. The o5m refill, the PBF input queue and the OPL line splitter are decided (strings by length, find_first_of unconstrained); XML (expat) and '
              'the thread hand-off are not.')
