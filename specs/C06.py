"""C06 - the parse result is independent of how the input byte stream is chunked (carry-over logic of the parsers)."""
from cv import Pipeline, Unit
from cx import ExtractError
import cx, re

PROPERTY = 'C06'
LEVEL = 'proof'
O5M = 'include/osmium/io/detail/o5m_input_format.hpp'
PIPELINES = []


def o5m_prelude(repo):
    src = cx.preprocess(cx.strip_comments(open(repo + '/' + O5M).read()))
    got = [m[1] for m in cx.extract_members(src, 'O5mParser')]
    for need in ('m_input', 'm_data', 'm_end'):
        if need not in got:
            raise ExtractError('O5mParser::%s missing' % need)
    return '''
struct O5mParser { vstr m_input; const char* m_data; const char* m_end; };
#define OFF(p) ((size_t)((p)->m_data - (p)->m_input.data))
/* the window [m_data, m_end) is the unconsumed tail of the carry-over buffer, taken at the buffer's current epoch */
#define WFP(p) (ghost_ptr_epoch == (p)->m_input.epoch && __CPROVER_same_object((p)->m_data, (p)->m_input.data) && __CPROVER_same_object((p)->m_end, (p)->m_input.data) && \\
   __CPROVER_POINTER_OFFSET((p)->m_end) == (p)->m_input.size && __CPROVER_POINTER_OFFSET((p)->m_data) <= (p)->m_input.size)
#define WIN_INV(p) (!(ghost_g >= (p)->m_input.base + OFF(p) && ghost_g < (p)->m_input.base + (p)->m_input.size) || (p)->m_data[ghost_g - ((p)->m_input.base + OFF(p))] == ghost_gv)
'''


U_eba = Unit(O5M, 'ensure_bytes_available', cls='O5mParser',
             pre=[(r'input_done\(\)', 'verif_input_done'), (r'm_input\.size\(\)', 'm_input.size'), (r'm_input\.data\(\)', 'm_input.data'),
                  (r'm_input\.erase\(0, ', 'vstr_erase_front(&m_input, '), (r'const std::string data\{get_input\(\)\};', 'const size_t data = verif_get_input();'),
                  (r'm_input\.append\(data\)', 'vstr_append_chunk(&m_input, data)')],
             post=[(r'self->m_data = self->m_input\.data;', 'self->m_data = self->m_input.data; ghost_ptr_epoch = self->m_input.epoch; /*ghost*/')])
EBA_CONTRACT = [
    ('pre:parser state between two calls', 'requires',
     '__CPROVER_is_fresh(self, sizeof(*self)) && VSTR_OK(&self->m_input) && __CPROVER_is_fresh(self->m_input.data, self->m_input.cap) && '
     '__CPROVER_pointer_in_range_dfcc(self->m_input.data, self->m_data, self->m_input.data + self->m_input.size) && __CPROVER_pointer_equals(self->m_end, self->m_input.data + self->m_input.size) && '
     '(verif_input_done == 0 || verif_input_done == 1) && ghost_ptr_epoch == self->m_input.epoch && self->m_input.epoch < 1000000 && need_bytes < 1000 && ghost_total <= MAXLEN && ghost_read <= ghost_total && ghost_pending == 0 && '
     'self->m_input.base + self->m_input.size == ghost_read && (!verif_input_done || ghost_read == ghost_total) && VSTR_INV(&self->m_input) && ghost_pos == self->m_input.base + OFF(self)'),
    ('post:on EVERY return the window pointers are valid pointers into the current buffer', 'ensures', 'WFP(self)'),
    ('post:the window shows the stream at the consumed position, whatever the chunking was', 'ensures', '!WFP(self) || WIN_INV(self)'),
    ('post:nothing is consumed', 'ensures', '!WFP(self) || self->m_input.base + OFF(self) == ghost_pos'),
    ('post:true means that many bytes are available', 'ensures', '!(WFP(self) && __CPROVER_return_value) || (size_t)(self->m_end - self->m_data) >= need_bytes'),
    ('post:false only if the stream really has fewer bytes left', 'ensures', '!(WFP(self) && !__CPROVER_return_value) || (verif_input_done && ghost_total - ghost_pos < need_bytes)'),
    ('frame', 'assigns', 'self->m_input.size, self->m_input.base, self->m_input.epoch, self->m_data, self->m_end, verif_input_done, ghost_read, ghost_pending, ghost_ptr_epoch, __CPROVER_object_whole(self->m_input.data)'),
]
EBA_LOOP = [['__CPROVER_assigns(self->m_input.size, self->m_input.epoch, verif_input_done, ghost_read, ghost_pending, __CPROVER_object_whole(self->m_input.data), self->m_data, self->m_end, ghost_ptr_epoch)',
             '__CPROVER_loop_invariant(VSTR_OK(&self->m_input))',
             '__CPROVER_loop_invariant(self->m_input.base == ghost_pos)',
             '__CPROVER_loop_invariant(self->m_input.base + self->m_input.size == ghost_read && ghost_read <= ghost_total)',
             '__CPROVER_loop_invariant((!verif_input_done || self->m_input.size >= need_bytes) && (!verif_input_done || ghost_read == ghost_total))',
             '__CPROVER_loop_invariant(ghost_pending == 0)',
             '__CPROVER_loop_invariant(self->m_input.epoch >= __CPROVER_loop_entry(self->m_input.epoch))',
             '__CPROVER_loop_invariant(VSTR_INV(&self->m_input))',
             '__CPROVER_decreases(ghost_total - ghost_read)']]
PIPELINES.append(Pipeline('U1_o5m_ensure_bytes_available', units=[U_eba], stubs=['vstr_epoch.h'], prelude=o5m_prelude, contracts={'O5mParser_ensure_bytes_available': EBA_CONTRACT},
                          loops={'O5mParser_ensure_bytes_available': EBA_LOOP}, replace=['vstr_erase_front', 'verif_get_input', 'vstr_append_chunk'], enforce='O5mParser_ensure_bytes_available',
                          harness='void harness(void) { struct O5mParser* p; size_t n; O5mParser_ensure_bytes_available(p, n); __CPROVER_assert(0, "canary"); }',
                          timeout=900, replay=('c06_chunks', lambda cex, o: ['o5m']),
                          note='streams of any length up to 100000 bytes, every chunking (each get_input() returns a chunk of any length), any parser position'))

TRUSTED = ['std::string erase/append/data semantics (stubs/vstr_epoch.h)', 'get_input()/input_done() hand over the stream in arbitrary chunks followed by one end marker (queue protocol)']
ASSUMPTIONS = ['input streams of at most 100000 bytes (object-size bound; the loop contract makes the proof independent of it)']
NOT_DECIDED = ['XML (carry-over lives inside expat)', 'OPL line splitting', 'PBF input queue', 'decompressor to parser hand-off (threads)', 'callers that ignore the return value of ensure_bytes_available']
LEVEL_TEXT = ('Proof for the o5m carry-over: O5mParser::ensure_bytes_available is verified, for every stream up to 100000 bytes, every segmentation into chunks and every parser position, '
              'to leave valid window pointers on every return, to show the stream at the logically consumed position regardless of the chunking, to consume nothing, and to report "not enough bytes" '
              'only when the stream really ends (refill loop closed by a loop contract with termination).')
LEVEL_NOTE = ('Trusted: CBMC, extraction rules, the std::string model with ghost epochs, the get_input/input_done protocol. Only the o5m refill is decided; XML (expat), OPL line splitting, the PBF queue and '
              'the thread hand-off are not.')
