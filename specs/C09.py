"""C09 - compressed input is decompressed completely and truncation is detected (wrapper logic relative to assumed library contracts)."""
from cv import Pipeline, Unit
from cx import ExtractError
import cx, re

PROPERTY = 'C09'
LEVEL = 'proof'
BZ = 'include/osmium/io/bzip2_compression.hpp'
COMP = 'include/osmium/io/compression.hpp'
PIPELINES = []


def bz_prelude(repo):
    src = cx.preprocess(cx.strip_comments(open(repo + '/' + BZ).read()))
    got = [m[1] for m in cx.extract_members(src, 'Bzip2Decompressor')]
    if got != ['m_file', 'm_bzfile', 'm_stream_end']:
        raise ExtractError('Bzip2Decompressor data members changed: %s' % got)
    return cx.extract_anon_enum_const(repo, COMP, 'input_buffer_size') + '''
#define BZ_OK 0
#define BZ_STREAM_END 4
typedef int VFILE;                 /* FILE* handle */
typedef int BZFILE;                /* libbz2 read handle, by pointer */
struct Bzip2Decompressor { VFILE m_file; BZFILE* m_bzfile; bool m_stream_end; };
char verif_buf[16]; void* verif_unused_ptr;
/* ---- ghost model of "compressed input that has not been decoded yet" = bytes still unread in the FILE + bytes libbz2 read ahead but did not use ---- */
size_t ghost_file_left;            /* bytes of the file not yet read by stdio/libbz2 */
int ghost_pending;                 /* unused bytes of the previous stream that were handed to BZ2_bzReadOpen and are not decoded yet */
int ghost_unused;                  /* bytes libbz2 has read ahead beyond the end of the current stream (0..5000) */
bool ghost_feof;                   /* feof(): only ever true when the file has been read to its end */
bool ghost_at_stream_end;          /* the last BZ2_bzRead reported BZ_STREAM_END */
size_t ghost_offset;
BZFILE ghost_handle_a, ghost_handle_b;
/* libbz2 / stdio: assumed contracts, from the bzip2 manual (return conventions only) */
long ftell(VFILE f) __CPROVER_requires(1) __CPROVER_assigns() __CPROVER_ensures(__CPROVER_return_value >= 0);   /* a regular file: ftell succeeds */
int fileno(VFILE f) __CPROVER_requires(1) __CPROVER_assigns() __CPROVER_ensures(1);
int feof(VFILE f) __CPROVER_requires(1) __CPROVER_assigns() __CPROVER_ensures((__CPROVER_return_value != 0) == ghost_feof);
/* peeking one byte (fgetc/ungetc), as the bzip2 program itself does to find out whether more data follows */
int fgetc(VFILE f) __CPROVER_requires(1) __CPROVER_assigns(ghost_feof) __CPROVER_ensures((__CPROVER_return_value == -1) == (ghost_file_left == 0) && ghost_feof == (__CPROVER_old(ghost_feof) || ghost_file_left == 0));
int ungetc(int c, VFILE f) __CPROVER_requires(1) __CPROVER_assigns() __CPROVER_ensures(1);
void remove_buffered_pages(int fd, size_t n) __CPROVER_requires(1) __CPROVER_assigns() __CPROVER_ensures(1);
/* BZ2_bzRead: 0 <= nread <= len; BZ_OK, BZ_STREAM_END (possibly together with nread == 0), or an error. At a stream end libbz2 may hold unused read-ahead bytes,
   and the FILE may or may not be at EOF - independently of whether compressed data remains */
int BZ2_bzRead(int* bzerror, BZFILE* b, void* buf, int len)
  __CPROVER_requires(__CPROVER_rw_ok(bzerror, sizeof(int)) && b != 0 && len >= 1)
  __CPROVER_assigns(*bzerror, ghost_file_left, ghost_unused, ghost_pending, ghost_feof, ghost_at_stream_end)
  __CPROVER_ensures(__CPROVER_return_value >= 0 && __CPROVER_return_value <= len && ghost_unused >= 0 && ghost_unused <= 5000 && ghost_file_left <= __CPROVER_old(ghost_file_left) &&
                    (!ghost_feof || ghost_file_left == 0) && (ghost_feof == 0 || ghost_feof == 1) && ghost_at_stream_end == (*bzerror == BZ_STREAM_END) && (*bzerror == BZ_STREAM_END || ghost_unused == 0) &&
                    ghost_pending >= 0 && ghost_pending <= __CPROVER_old(ghost_pending) && (*bzerror != BZ_STREAM_END || ghost_pending == 0));
void BZ2_bzReadGetUnused(int* bzerror, BZFILE* b, void** unused, int* n)
  __CPROVER_requires(__CPROVER_rw_ok(bzerror, sizeof(int)) && __CPROVER_rw_ok(n, sizeof(int)) && __CPROVER_rw_ok(unused, sizeof(void*)))
  __CPROVER_assigns(*bzerror, *unused, *n) __CPROVER_ensures(*bzerror != BZ_OK || *n == ghost_unused);
void BZ2_bzReadClose(int* bzerror, BZFILE* b) __CPROVER_requires(__CPROVER_rw_ok(bzerror, sizeof(int))) __CPROVER_assigns(*bzerror) __CPROVER_ensures(1);
/* BZ2_bzReadOpen with unused bytes: they become the start of the next stream's input (nothing is lost) */
BZFILE* BZ2_bzReadOpen(int* bzerror, VFILE f, int verbosity, int small, void* unused, int n)
  __CPROVER_requires(__CPROVER_rw_ok(bzerror, sizeof(int)) && n == ghost_unused)
  __CPROVER_assigns(*bzerror, ghost_at_stream_end, ghost_unused, ghost_pending)
  __CPROVER_ensures((__CPROVER_return_value == 0 || __CPROVER_return_value == &ghost_handle_b) && !ghost_at_stream_end && ghost_unused == 0 && ghost_pending == __CPROVER_old(ghost_unused));
void throw_bzip2_error(BZFILE* b, const char* msg, int err) __CPROVER_requires(1) __CPROVER_assigns(verif_exc) __CPROVER_ensures(verif_exc == EXC_bzip2_error);
struct Bzip2Decompressor;
bool Bzip2Decompressor_want_buffered_pages_removed(const struct Bzip2Decompressor* self) __CPROVER_requires(1) __CPROVER_assigns() __CPROVER_ensures(1);
void Bzip2Decompressor_set_offset(struct Bzip2Decompressor* self, size_t off) __CPROVER_requires(1) __CPROVER_assigns(ghost_offset) __CPROVER_ensures(1);
/* compressed data still to be decoded after this call */
#define NOTHING_LEFT (ghost_file_left == 0 && ghost_unused == 0 && ghost_pending == 0)
'''


U_bzread = Unit(BZ, 'read', cls='Bzip2Decompressor', ret='size_t', stub_siblings={'want_buffered_pages_removed': 'Bzip2Decompressor_want_buffered_pages_removed', 'set_offset': 'Bzip2Decompressor_set_offset'},
                pre=[(r'std::string buffer;', 'size_t buffer_size = 0;'), (r'std::string::size_type', 'size_t'), (r'buffer\.resize\(', 'buffer_size = ('), (r'buffer\.size\(\)', 'buffer_size'), (r'&\*buffer\.begin\(\)', 'verif_buf'),
                     (r'return buffer;', 'return buffer_size;'), (r'osmium::io::Decompressor::input_buffer_size', 'input_buffer_size'), (r'm_file\.file\(\)', 'm_file'),
                     (r'std::string unused_data\{static_cast<const char\*>\(unused\), static_cast<size_t>\(num_unused\)\};', 'size_t unused_data_size = (size_t)num_unused;'),
                     (r'unused_data\.size\(\)', 'unused_data_size'), (r'unused_data\.empty\(\) \? nullptr : &\*unused_data\.begin\(\)', '(unused_data_size == 0 ? 0 : unused)'),
                     (r'detail::throw_bzip2_error', 'throw_bzip2_error'),
                     (lambda body, R: body.replace('detail::at_end_of_file', 'at_end_of_file'))])   # optional: a body that no longer asks for the end of the file must be decided, not reported as a break
U_ateof = Unit(BZ, 'at_end_of_file', params=['VFILE file'])
BZ_CONTRACT = [
    ('pre:an open decompressor', 'requires', 'verif_exc == 0 && __CPROVER_is_fresh(self, sizeof(*self)) && self->m_bzfile == &ghost_handle_a && ghost_unused == 0 && ghost_pending >= 0 && ghost_pending <= 5000 && ghost_file_left <= (1ULL << 40) && '
     '(ghost_feof == 0 || ghost_feof == 1) && (!ghost_feof || ghost_file_left == 0) && (self->m_stream_end == 0 || self->m_stream_end == 1) && (!self->m_stream_end || (ghost_file_left == 0 && ghost_pending == 0))'),
    ('post:every library error becomes bzip2_error', 'ensures', 'verif_exc == 0 || verif_exc == EXC_bzip2_error'),
    ('post:the end of the input is declared only when no compressed data is left (concatenated streams are read to the end)', 'ensures', 'verif_exc != 0 || !self->m_stream_end || NOTHING_LEFT'),
    ('post:an empty result (the end-of-data marker for the caller) is returned only at the true end of the input', 'ensures', 'verif_exc != 0 || __CPROVER_return_value != 0 || (self->m_stream_end && NOTHING_LEFT)'),
    ('frame', 'assigns', 'verif_exc, self->m_bzfile, self->m_stream_end, ghost_file_left, ghost_unused, ghost_pending, ghost_feof, ghost_at_stream_end, ghost_offset'),
]
BZ_LOOP = [['__CPROVER_assigns(nread, verif_exc, self->m_bzfile, self->m_stream_end, ghost_file_left, ghost_unused, ghost_pending, ghost_feof, ghost_at_stream_end)',
            '__CPROVER_loop_invariant(verif_exc == 0 && !self->m_stream_end)', '__CPROVER_loop_invariant(self->m_bzfile != 0)', '__CPROVER_loop_invariant(buffer_size == input_buffer_size)',
            '__CPROVER_loop_invariant(ghost_unused == 0)', '__CPROVER_loop_invariant(ghost_pending >= 0 && ghost_pending <= 5000)',
            '__CPROVER_loop_invariant((!ghost_feof || ghost_file_left == 0) && (ghost_feof == 0 || ghost_feof == 1))']]
PIPELINES.append(Pipeline('U1_Bzip2Decompressor_read', units=[U_ateof, U_bzread], prelude=lambda repo: bz_prelude(repo) + '#define EOF (-1)\n', contracts={'Bzip2Decompressor_read': BZ_CONTRACT}, loops={'Bzip2Decompressor_read': BZ_LOOP},
                          replace=['ftell', 'fileno', 'feof', 'fgetc', 'ungetc', 'remove_buffered_pages', 'BZ2_bzRead', 'BZ2_bzReadGetUnused', 'BZ2_bzReadClose', 'BZ2_bzReadOpen', 'throw_bzip2_error',
                                   'Bzip2Decompressor_want_buffered_pages_removed', 'Bzip2Decompressor_set_offset'],
                          maythrow={'throw_bzip2_error': True}, enforce='Bzip2Decompressor_read',
                          harness='void harness(void) { struct Bzip2Decompressor* d; Bzip2Decompressor_read(d); __CPROVER_assert(verif_exc != 0, "canary:normal"); __CPROVER_assert(verif_exc == 0, "canary:throw"); }',
                          canaries=['canary:normal', 'canary:throw'], object_bits=9, replay=('c09_bzip2', lambda cex, o: ['search']),
                          note='relative to the return conventions of libbz2 and stdio: any nread, any number of unused bytes, FILE at EOF or not at each stream end'))

import specs.c09_more as MORE
PIPELINES += MORE.pipelines()
PIPELINES += MORE.more_pipelines()
PIPELINES += MORE.gz_buffer_pipelines()

TRUSTED = ['libbz2 and zlib decode correctly (they are the reference)', 'return conventions of BZ2_bzRead/bzReadGetUnused/bzReadOpen/bzReadClose, feof, fgetc/ungetc (manuals)']
ASSUMPTIONS = []
NOT_DECIDED = ['that libbz2/zlib produce the reference bytes', 'that Reader calls close() and propagates its exception', 'stdio read-ahead alignment', 'set_offset vs file size']
LEVEL_TEXT = ('Proof relative to assumed library contracts: Bzip2Decompressor::read (file descriptor input) is verified, for every behaviour the libbz2/stdio return conventions allow '
              '(any number of bytes per call, stream end with or without data, any amount of unused read-ahead, FILE at EOF or not), to declare the end of the input only when no compressed data '
              'is left - so every concatenated stream is read - to return the empty end-of-data marker only then, and to turn every library error into bzip2_error. Loop contract on the retry loop; '
              'termination is not claimed (progress depends on the library). GzipDecompressor::read hands on exactly what gzread delivers and turns its error into gzip_error; '
              'GzipDecompressor::close and Bzip2Decompressor::close report a failing gzclose_r (how zlib signals a truncated file) / BZ2_bzReadClose as an exception and close exactly once. The memory-buffer decompressors '
              '(Bzip2BufferDecompressor::read, GzipBufferDecompressor::read): every library error becomes an exception and the empty end-of-data marker is returned only after the library reported the end of a stream - a truncated buffer '
              'is never accepted as complete; that they stop at the first stream/member of a concatenated buffer is reported as known findings F12/F17.')
LEVEL_NOTE = ('Trusted: CBMC, extraction rules, and above all the stub contracts of libbz2 and stdio (manual conventions) and the ghost accounting of not-yet-decoded compressed bytes. Not decided: that the libraries '
              'decode correctly, that the Reader calls close() and propagates its exception. Known findings F12/F17 (multi-stream memory buffers) are reported, not repaired. Not decided either: close() of the memory-buffer decompressors, read offset vs. file size.')
