"""C09, further units: GzipDecompressor::read/close and Bzip2Decompressor::close relative to the return conventions of zlib / libbz2."""
from cv import Pipeline, Unit
import cx

GZ = 'include/osmium/io/gzip_compression.hpp'
BZ = 'include/osmium/io/bzip2_compression.hpp'
COMP = 'include/osmium/io/compression.hpp'


def gz_prelude(repo):
    src = cx.preprocess(cx.strip_comments(open(repo + '/' + GZ).read()))
    got = [m[1] for m in cx.extract_members(src, 'GzipDecompressor')]
    if got != ['m_gzfile', 'm_fd']:
        raise cx.ExtractError('GzipDecompressor data members changed: %s' % got)
    return cx.extract_anon_enum_const(repo, COMP, 'input_buffer_size') + '''
#define Z_OK 0
typedef int* gzFile;
struct GzipDecompressor { gzFile m_gzfile; int m_fd; };
char verif_buf[16];
int ghost_nread;        /* what gzread returns */
int ghost_gzclose_ret;  /* what gzclose_r returns */
int ghost_gzclose_calls;
size_t ghost_offset;
/* zlib (manual): gzread returns the number of uncompressed bytes read, 0 at the end of the file (after the last member of a multi-member file), -1 on error */
int gzread(gzFile f, void* buf, unsigned len) __CPROVER_requires(f != 0 && len >= 1) __CPROVER_assigns() __CPROVER_ensures(__CPROVER_return_value == ghost_nread && ghost_nread >= -1 && (ghost_nread < 0 || (unsigned)ghost_nread <= len));
/* gzoffset: -1 only for an invalid handle or mode (gzlib.c); the handle here is valid and open for reading */
long gzoffset(gzFile f) __CPROVER_requires(f != 0) __CPROVER_assigns() __CPROVER_ensures(__CPROVER_return_value >= 0);
/* gzclose_r: Z_OK, or Z_BUF_ERROR when the last read ended in the middle of a gzip stream (truncated file), or another error code */
int gzclose_r(gzFile f) __CPROVER_requires(f != 0) __CPROVER_assigns(ghost_gzclose_calls) __CPROVER_ensures(__CPROVER_return_value == ghost_gzclose_ret && ghost_gzclose_calls == __CPROVER_old(ghost_gzclose_calls) + 1);
void remove_buffered_pages(int fd, size_t n) __CPROVER_requires(1) __CPROVER_assigns() __CPROVER_ensures(1);
void remove_buffered_pages_all(int fd) __CPROVER_requires(1) __CPROVER_assigns() __CPROVER_ensures(1);
void throw_gzip_error(gzFile f, const char* msg) __CPROVER_requires(1) __CPROVER_assigns(verif_exc) __CPROVER_ensures(verif_exc == EXC_gzip_error);
struct GzipDecompressor;
bool GzipDecompressor_want_buffered_pages_removed(const struct GzipDecompressor* self) __CPROVER_requires(1) __CPROVER_assigns() __CPROVER_ensures(1);
void GzipDecompressor_set_offset(struct GzipDecompressor* self, size_t off) __CPROVER_requires(1) __CPROVER_assigns(ghost_offset) __CPROVER_ensures(1);
'''


GSIB = {'want_buffered_pages_removed': 'GzipDecompressor_want_buffered_pages_removed', 'set_offset': 'GzipDecompressor_set_offset'}
U_gzread = Unit(GZ, 'read', cls='GzipDecompressor', ret='size_t', stub_siblings=GSIB,
                pre=[(r"std::string buffer\(osmium::io::Decompressor::input_buffer_size, '\\0'\);", 'size_t buffer_size = input_buffer_size;'), (r'std::string::size_type', 'size_t'),
                     (r'buffer\.resize\(', 'buffer_size = ('), (r'buffer\.size\(\)', 'buffer_size'), (r'&\*buffer\.begin\(\)', 'verif_buf'), (r'return buffer;', 'return buffer_size;'),
                     (r'detail::throw_gzip_error', 'throw_gzip_error'), (r'osmium::io::detail::remove_buffered_pages\(', 'remove_buffered_pages('), (r'::gzoffset\(', 'gzoffset('), (r'::gzread\(', 'gzread(')])
U_gzclose = Unit(GZ, 'close', cls='GzipDecompressor', stub_siblings=GSIB,
                 pre=[(r'osmium::io::detail::remove_buffered_pages\(m_fd\)', 'remove_buffered_pages_all(m_fd)'), (r'::gzclose_r\(', 'gzclose_r(')])


def bzc_prelude(repo):
    import specs.C09 as C09
    return C09.bz_prelude(repo) + '''
int ghost_bzerr_close; int ghost_fclose_calls;
void BZ2_bzReadClose_c(int* bzerror, BZFILE* b) __CPROVER_requires(__CPROVER_rw_ok(bzerror, sizeof(int)) && b != 0) __CPROVER_assigns(*bzerror) __CPROVER_ensures(*bzerror == ghost_bzerr_close);
void file_wrapper_close(VFILE* f) __CPROVER_requires(verif_exc == 0 && __CPROVER_rw_ok(f, sizeof(*f))) __CPROVER_assigns(verif_exc, ghost_fclose_calls)
  __CPROVER_ensures((verif_exc == 0 || verif_exc == EXC_system_error) && ghost_fclose_calls == __CPROVER_old(ghost_fclose_calls) + 1);
void remove_buffered_pages_all(int fd) __CPROVER_requires(1) __CPROVER_assigns() __CPROVER_ensures(1);
'''


U_bzclose = Unit(BZ, 'close', cls='Bzip2Decompressor', stub_siblings={'want_buffered_pages_removed': 'Bzip2Decompressor_want_buffered_pages_removed'},
                 pre=[(r'osmium::io::detail::remove_buffered_pages\(fileno\(m_file\.file\(\)\)\)', 'remove_buffered_pages_all(fileno(m_file))'), (r'::BZ2_bzReadClose\(', 'BZ2_bzReadClose_c('),
                      (r'm_file\.close\(\)', 'file_wrapper_close(&m_file)')])


def pipelines():
    ps = []
    both = ['canary:normal', 'canary:throw']
    tail = ' __CPROVER_assert(verif_exc != 0, "canary:normal"); __CPROVER_assert(verif_exc == 0, "canary:throw"); }'
    ps.append(Pipeline('U2_GzipDecompressor_read', units=[U_gzread], prelude=gz_prelude, contracts={'GzipDecompressor_read': [
        ('pre:an open decompressor', 'requires', 'verif_exc == 0 && __CPROVER_is_fresh(self, sizeof(*self)) && self->m_gzfile != 0'),
        ('post:an error reported by gzread becomes gzip_error, nothing else throws', 'ensures', '(verif_exc != 0) == (ghost_nread < 0) && (verif_exc == 0 || verif_exc == EXC_gzip_error)'),
        ('post:exactly the bytes zlib delivered are handed on; the empty result (end-of-data marker) only when zlib reports the end of the file', 'ensures',
         'verif_exc != 0 || __CPROVER_return_value == (size_t)ghost_nread'),
        ('frame', 'assigns', 'verif_exc, ghost_offset')]},
        replace=['gzread', 'gzoffset', 'remove_buffered_pages', 'throw_gzip_error', 'GzipDecompressor_want_buffered_pages_removed', 'GzipDecompressor_set_offset'],
        maythrow={'throw_gzip_error': True}, enforce='GzipDecompressor_read',
        harness='void harness(void) { struct GzipDecompressor* d; GzipDecompressor_read(d);' + tail, canaries=both, replay=('c09_bzip2', lambda cex, o: ['search']),
        note='gzread itself continues across the members of a multi-member file; the wrapper only has to hand on what it gets'))
    ps.append(Pipeline('U2_GzipDecompressor_close', units=[U_gzclose], prelude=gz_prelude, contracts={'GzipDecompressor_close': [
        ('pre', 'requires', 'verif_exc == 0 && __CPROVER_is_fresh(self, sizeof(*self)) && ghost_gzclose_calls == 0'),
        ('post:closed afterwards, gzclose_r called exactly once for an open file and not at all otherwise', 'ensures', 'self->m_gzfile == 0 && ghost_gzclose_calls == (__CPROVER_old(self->m_gzfile) != 0 ? 1 : 0)'),
        ('post:a truncated or corrupt file (gzclose_r != Z_OK) is reported with gzip_error, nothing else throws', 'ensures',
         '(verif_exc != 0) == (__CPROVER_old(self->m_gzfile) != 0 && ghost_gzclose_ret != Z_OK) && (verif_exc == 0 || verif_exc == EXC_gzip_error)'),
        ('frame', 'assigns', 'verif_exc, self->m_gzfile, ghost_gzclose_calls')]},
        replace=['gzclose_r', 'remove_buffered_pages_all', 'GzipDecompressor_want_buffered_pages_removed'], enforce='GzipDecompressor_close',
        harness='void harness(void) { struct GzipDecompressor* d; GzipDecompressor_close(d);' + tail, canaries=both, replay=('c09_bzip2', lambda cex, o: ['search']),
        note='zlib detects truncation at gzclose_r (Z_BUF_ERROR); the wrapper must turn that into an exception'))
    ps.append(Pipeline('U2_Bzip2Decompressor_close', units=[U_bzclose], prelude=bzc_prelude, contracts={'Bzip2Decompressor_close': [
        ('pre', 'requires', 'verif_exc == 0 && __CPROVER_is_fresh(self, sizeof(*self)) && ghost_fclose_calls == 0'),
        ('post:closed afterwards; the file is closed exactly once for an open decompressor, whatever libbz2 reports', 'ensures', 'self->m_bzfile == 0 && ghost_fclose_calls == (__CPROVER_old(self->m_bzfile) != 0 ? 1 : 0)'),
        ('post:an error from BZ2_bzReadClose or fclose is reported', 'ensures', '!(__CPROVER_old(self->m_bzfile) != 0 && ghost_bzerr_close != BZ_OK) || verif_exc != 0'),
        ('post:exception classes', 'ensures', 'verif_exc == 0 || verif_exc == EXC_bzip2_error || verif_exc == EXC_system_error'),
        ('frame', 'assigns', 'verif_exc, self->m_bzfile, ghost_fclose_calls')]},
        replace=['BZ2_bzReadClose_c', 'file_wrapper_close', 'remove_buffered_pages_all', 'fileno', 'Bzip2Decompressor_want_buffered_pages_removed'], maythrow={'file_wrapper_close': True},
        enforce='Bzip2Decompressor_close', harness='void harness(void) { struct Bzip2Decompressor* d; Bzip2Decompressor_close(d);' + tail, canaries=both, replay=('c09_bzip2', lambda cex, o: ['search'])))
    return ps


# ---- Bzip2BufferDecompressor::read (memory buffer input) relative to the return conventions of BZ2_bzDecompress ------------------------------------------
def bzbuf_prelude(repo):
    src = cx.preprocess(cx.strip_comments(open(repo + '/' + BZ).read()))
    got = [m[1] for m in cx.extract_members(src, 'Bzip2BufferDecompressor')]
    if got != ['m_buffer', 'm_buffer_size', 'm_bzstream']:
        raise cx.ExtractError('Bzip2BufferDecompressor data members changed: %s' % got)
    return '''
#define BZ_OK 0
#define BZ_STREAM_END 4
#define BZ_UNEXPECTED_EOF (-7)
typedef struct { char* next_in; unsigned int avail_in; char* next_out; unsigned int avail_out; } bz_stream;
struct Bzip2BufferDecompressor { const char* m_buffer; size_t m_buffer_size; bz_stream m_bzstream; };
char verif_outbuf[10240];
int ghost_last_result;     /* ghost: what the last BZ2_bzDecompress call returned */
unsigned ghost_produced;   /* ghost: bytes it delivered */
/* BZ2_bzDecompress (bzip2 manual): consumes input, produces output, returns BZ_OK, BZ_STREAM_END at the logical end of a stream, or a negative error code.
   BZ_OK without output means that it needs more input than there is. */
int BZ2_bzDecompress(bz_stream* strm)
  __CPROVER_requires(__CPROVER_rw_ok(strm, sizeof(*strm)) && strm->avail_out == 10240 && __CPROVER_pointer_equals(strm->next_out, verif_outbuf))
  __CPROVER_assigns(strm->next_in, strm->avail_in, strm->next_out, strm->avail_out, ghost_last_result, ghost_produced)
  __CPROVER_ensures(__CPROVER_return_value == ghost_last_result && (ghost_last_result == BZ_OK || ghost_last_result == BZ_STREAM_END || (ghost_last_result < 0 && ghost_last_result >= -9)) &&
                    strm->avail_in <= __CPROVER_old(strm->avail_in) && ghost_produced <= 10240 && strm->avail_out == 10240 - ghost_produced && __CPROVER_pointer_equals(strm->next_out, verif_outbuf + ghost_produced) &&
                    (ghost_last_result != BZ_OK || ghost_produced != 0 || strm->avail_in == 0));
'''


U_bzbread = Unit(BZ, 'read', cls='Bzip2BufferDecompressor', ret='size_t',
                 pre=[(r'std::string output;', 'size_t output_size = 0;'), (r'output\.resize\(buffer_size\);', 'output_size = buffer_size;'), (r'&\*output\.begin\(\)', 'verif_outbuf'),
                      (r'output\.resize\(static_cast<std::size_t>\(m_bzstream\.next_out - output\.data\(\)\)\);', 'output_size = (size_t)(m_bzstream.next_out - verif_outbuf);'),
                      (r'output\.empty\(\)', '(output_size == 0)', '?'), (r'return output;', 'return output_size;'),
                      (r'throw bzip2_error\{"[^"]*", [^}]*\};', 'throw bzip2_error{};')])


def more_pipelines():
    tail = ' __CPROVER_assert(verif_exc != 0, "canary:normal"); __CPROVER_assert(verif_exc == 0, "canary:throw"); }'
    return [Pipeline('U3_Bzip2BufferDecompressor_read', units=[U_bzbread], prelude=bzbuf_prelude, contracts={'Bzip2BufferDecompressor_read': [
        ('pre:a decompressor in any state', 'requires', 'verif_exc == 0 && __CPROVER_is_fresh(self, sizeof(*self)) && self->m_bzstream.avail_in <= (1u << 30)'),
        ('post:a library error becomes bzip2_error, nothing else throws', 'ensures', 'verif_exc == 0 || verif_exc == EXC_bzip2_error'),
        ('post:truncation is detected: the empty result (the end-of-data marker for the caller) is returned only after the library reported the end of a stream, never because the input ran out in the middle of one', 'ensures',
         'verif_exc != 0 || __CPROVER_return_value != 0 || __CPROVER_old(self->m_buffer) == 0 || ghost_last_result == BZ_STREAM_END'),
        ('post:concatenated streams: the decompressor declares itself finished only when no input is left', 'ensures',
         'verif_exc != 0 || __CPROVER_old(self->m_buffer) == 0 || self->m_buffer != 0 || self->m_bzstream.avail_in == 0'),
        ('frame', 'assigns', 'verif_exc, self->m_buffer, self->m_buffer_size, self->m_bzstream.next_in, self->m_bzstream.avail_in, self->m_bzstream.next_out, self->m_bzstream.avail_out, ghost_last_result, ghost_produced')]},
        replace=['BZ2_bzDecompress'], enforce='Bzip2BufferDecompressor_read', known={'Bzip2BufferDecompressor_read:post:concatenated streams: the decompressor declares itself finished only when no input is left': 'F12'},
        harness='void harness(void) { struct Bzip2BufferDecompressor* d; Bzip2BufferDecompressor_read(d);' + tail, canaries=['canary:normal', 'canary:throw'], replay=('c09_bzip2', lambda cex, o: ['bufsearch']),
        note='memory-buffer input (Reader on a buffer); relative to the return conventions of BZ2_bzDecompress')]


# ---- GzipBufferDecompressor::read relative to the return conventions of inflate() ---------------------------------------------------------------------------
def gzbuf_prelude(repo):
    src = cx.preprocess(cx.strip_comments(open(repo + '/' + GZ).read()))
    got = [m[1] for m in cx.extract_members(src, 'GzipBufferDecompressor')]
    if got != ['m_buffer', 'm_buffer_size', 'm_zstream']:
        raise cx.ExtractError('GzipBufferDecompressor data members changed: %s' % got)
    return '''
#define Z_OK 0
#define Z_STREAM_END 1
#define Z_BUF_ERROR (-5)
#define Z_SYNC_FLUSH 2
typedef struct { unsigned char* next_in; unsigned int avail_in; unsigned char* next_out; unsigned int avail_out; const char* msg; } z_stream;
struct GzipBufferDecompressor { const char* m_buffer; size_t m_buffer_size; z_stream m_zstream; };
unsigned char verif_outbuf[10240];
int ghost_last_result; unsigned ghost_produced;
/* zlib inflate (manual): Z_OK if some progress was made, Z_STREAM_END at the end of the compressed data (of one gzip member), Z_BUF_ERROR if no progress is possible
   (input exhausted in the middle of the data), other negative codes for errors */
int inflate(z_stream* strm, int flush)
  __CPROVER_requires(__CPROVER_rw_ok(strm, sizeof(*strm)) && strm->avail_out == 10240 && __CPROVER_pointer_equals(strm->next_out, verif_outbuf) && flush == Z_SYNC_FLUSH)
  __CPROVER_assigns(strm->next_in, strm->avail_in, strm->next_out, strm->avail_out, strm->msg, ghost_last_result, ghost_produced)
  __CPROVER_ensures(__CPROVER_return_value == ghost_last_result && (ghost_last_result == Z_OK || ghost_last_result == Z_STREAM_END || (ghost_last_result < 0 && ghost_last_result >= -6)) &&
                    strm->avail_in <= __CPROVER_old(strm->avail_in) && ghost_produced <= 10240 && strm->avail_out == 10240 - ghost_produced && __CPROVER_pointer_equals(strm->next_out, verif_outbuf + ghost_produced) && strm->msg == 0 &&
                    (ghost_last_result != Z_OK || ghost_produced != 0 || strm->avail_in < __CPROVER_old(strm->avail_in)));
'''


U_gzbread = Unit(GZ, 'read', cls='GzipBufferDecompressor', ret='size_t',
                 pre=[(r'std::string output;', 'size_t output_size = 0;'), (r"output\.append\(buffer_size, '\\0'\);", 'output_size = buffer_size;'), (r'reinterpret_cast<unsigned char\*>\(&\*output\.begin\(\)\)', 'verif_outbuf'),
                      (r'output\.resize\(static_cast<std::size_t>\(m_zstream\.next_out - reinterpret_cast<const unsigned char\*>\(output\.data\(\)\)\)\);', 'output_size = (size_t)(m_zstream.next_out - verif_outbuf);'),
                      (r'throw osmium::gzip_error\{"gzip error: unexpected end of data", Z_BUF_ERROR\};', 'throw osmium::gzip_error{};', '?'), (r'std::string message\{"gzip error: inflate failed: "\};\s*if \(m_zstream\.msg\) \{\s*message\.append\(m_zstream\.msg\);\s*\}\s*throw osmium::gzip_error\{message, result\};', 'throw osmium::gzip_error{};'),
                      (r'output\.empty\(\)', '(output_size == 0)', '?'), (r'return output;', 'return output_size;')])


def gz_buffer_pipelines():
    tail = ' __CPROVER_assert(verif_exc != 0, "canary:normal"); __CPROVER_assert(verif_exc == 0, "canary:throw"); }'
    return [Pipeline('U3_GzipBufferDecompressor_read', units=[U_gzbread], prelude=gzbuf_prelude, contracts={'GzipBufferDecompressor_read': [
        ('pre:a decompressor in any state', 'requires', 'verif_exc == 0 && __CPROVER_is_fresh(self, sizeof(*self)) && self->m_zstream.avail_in <= (1u << 30)'),
        ('post:a library error becomes gzip_error, nothing else throws', 'ensures', 'verif_exc == 0 || verif_exc == EXC_gzip_error'),
        ('post:truncation is detected: the empty result (end-of-data marker) is returned only after the library reported the end of the compressed data', 'ensures',
         'verif_exc != 0 || __CPROVER_return_value != 0 || __CPROVER_old(self->m_buffer) == 0 || ghost_last_result == Z_STREAM_END'),
        ('post:concatenated members: the decompressor declares itself finished only when no input is left', 'ensures',
         'verif_exc != 0 || __CPROVER_old(self->m_buffer) == 0 || self->m_buffer != 0 || self->m_zstream.avail_in == 0'),
        ('frame', 'assigns', 'verif_exc, self->m_buffer, self->m_buffer_size, self->m_zstream.next_in, self->m_zstream.avail_in, self->m_zstream.next_out, self->m_zstream.avail_out, self->m_zstream.msg, ghost_last_result, ghost_produced')]},
        replace=['inflate'], enforce='GzipBufferDecompressor_read', known={'GzipBufferDecompressor_read:post:concatenated members: the decompressor declares itself finished only when no input is left': 'F17'},
        harness='void harness(void) { struct GzipBufferDecompressor* d; GzipBufferDecompressor_read(d);' + tail, canaries=['canary:normal', 'canary:throw'], replay=('c09_bzip2', lambda cex, o: ['bufsearch']),
        note='memory-buffer input; relative to the return conventions of inflate(): Z_OK always means progress, so running out of input shows up as Z_BUF_ERROR')]
