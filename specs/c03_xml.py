"""C03 layer 4 - the XML element handlers keep the builder protocol for every sequence of elements expat can deliver.

The handlers (XMLParser::top_level_element, data_level_element, start_element incl. get_tag, end_element) are extracted whole. What the extraction
replaces, and by what:
  * std::unique_ptr<...Builder> members -> one flag each (0 empty / 1 owns a builder); reset(), make_unique, operator* and operator-> go to the
    typestate functions of the prelude, which carry the obligations of the builder classes (their asserts, and the stack discipline of
    sub-builders: a sub-builder writes at the end of the buffer and adds to the size of its parent until it is destroyed);
  * std::vector<context> m_context_stack -> array of 8 with a depth (push asserts the capacity; the invariant bounds the depth by 5);
  * the lambdas handed to check_attributes -> havoc of the variables captured by reference, may throw (attribute values are not part of this layer);
  * std::strcmp on element names -> unconstrained result (every branch reachable, so the invariant holds for any spelling);
  * the asserts in end_element that the closing tag matches the open element -> dropped (that is expat's well-formedness guarantee; expat is trusted);
  * Header, comment text string, nested buffer handling -> no-ops except commit(), which requires that no builder is open.
"""
import re
from cv import Pipeline, Unit
import cx

XML = 'include/osmium/io/detail/xml_input_format.hpp'
EB = 'include/osmium/osm/entity_bits.hpp'
IT = 'include/osmium/osm/item_type.hpp'

BUILDERS = ['m_node_builder', 'm_way_builder', 'm_relation_builder', 'm_changeset_builder', 'm_changeset_discussion_builder', 'm_tl_builder', 'm_wnl_builder', 'm_rml_builder']
OBJ_OF = {'m_node_builder': 'node', 'm_way_builder': 'way', 'm_relation_builder': 'relation', 'm_changeset_builder': 'changeset'}
PARENT_OF = {'m_wnl_builder': 'm_way_builder', 'm_rml_builder': 'm_relation_builder', 'm_changeset_discussion_builder': 'm_changeset_builder'}


TYPEMAP = {'std::vector<context>': 'struct ctxstack', 'osmium::io::Header': 'int', 'std::string': 'int', 'ExpatXMLParser*': 'void*', 'osmium::Timestamp': 'Timestamp',
           'osmium::user_id_type': 'user_id_type'}
for _b in ('NodeBuilder', 'WayBuilder', 'RelationBuilder', 'ChangesetBuilder', 'ChangesetDiscussionBuilder', 'TagListBuilder', 'WayNodeListBuilder', 'RelationMemberListBuilder'):
    TYPEMAP['std::unique_ptr<osmium::builder::%s>' % _b] = 'verif_up'


def prelude(repo):
    out = ['typedef unsigned char verif_up;   /* std::unique_ptr<...Builder>: 0 = empty, 1 = owns a builder */',
           'typedef int NodeRef; typedef int Timestamp; typedef int64_t object_id_type; typedef uint32_t user_id_type;',
           cx.extract_enum(repo, XML, 'context'), cx.extract_enum(repo, EB, 'type', prefix='osm_entity_bits_'), cx.extract_enum(repo, IT, 'item_type'),
           'struct ctxstack { context a[8]; size_t depth; };   /* std::vector<context> */',
           cx.members_struct(repo, [(XML, 'XMLParser')], 'XMLParser', typemap=TYPEMAP),
           'unsigned char ghost_read_types;   /* ghost: read_types(), constant for the life of the parser */',
           'unsigned char ghost_comment_open; /* ghost: the ChangesetDiscussionBuilder has an unfinished comment (its m_comment_offset != no_comment) */',
           '#define P struct XMLParser* p',
           '#define SUBS(p) ((p)->m_tl_builder + (p)->m_wnl_builder + (p)->m_rml_builder + (p)->m_changeset_discussion_builder)',
           '#define OBJS(p) ((p)->m_node_builder + (p)->m_way_builder + (p)->m_relation_builder + (p)->m_changeset_builder)',
           '#define CTX_EMPTY(s) ((s).depth == 0)', '#define CTX_BACK(s) ((s).a[(s).depth - 1])',
           '#define CTX_PUSH(s, c) { __CPROVER_assert((s).depth < 8, "model capacity of the context stack (the invariant bounds the depth by 5)"); (s).a[(s).depth] = (c); ++(s).depth; }',
           '#define CTX_POP(s) { __CPROVER_assert((s).depth > 0, "pop_back on an empty context stack"); --(s).depth; }',
           '#define UP_DEREF(x) ({ __CPROVER_assert((x) != 0, "unique_ptr dereferenced while empty"); (x); })',
           '#define VERIF_HAVOC(x) { __typeof__(x) verif_h; (x) = verif_h; }',
           'int verif_nondet_int(void) { int verif_any; return verif_any; }   /* an uninitialised local is an unconstrained value for CBMC */', '#define STUB_MAY_THROW(x, r) if (verif_nondet_int()) { verif_exc = (x); return r; }',
           '#define VERIF_ATTRS_MAY_THROW { if (verif_nondet_int()) { VERIF_THROW(EXC_exception) } }   /* string_to_object_id, set_lon, Timestamp(...) ... throw on bad values */']
    # ---- typestate of the builders
    for b in BUILDERS:
        if b in OBJ_OF:
            out.append('void UP_make_%s(P) { __CPROVER_assert(OBJS(p) == 0 && SUBS(p) == 0, "an object builder is created while another builder is open"); p->%s = 1; }' % (b, b))
            out.append('void UP_reset_%s(P) { if (p->%s) { __CPROVER_assert(SUBS(p) == 0, "object builder destroyed while one of its sub-builders is open: the sub-builder\'s destructor writes through a dangling parent"); p->%s = 0; } }' % (b, b, b))
        else:
            par = PARENT_OF.get(b)
            out.append('void UP_make_%s(P, verif_up parent) { __CPROVER_assert(SUBS(p) == 0, "a sub-builder is created while another sub-builder of the object is open: their data interleave in the buffer"); p->%s = 1; }' % (b, b))
            extra = '__CPROVER_assert(!ghost_comment_open, "~ChangesetDiscussionBuilder: assert(m_comment_offset == no_comment) - add_comment() without add_comment_text()"); ' if b == 'm_changeset_discussion_builder' else ''
            out.append('void UP_reset_%s(P) { if (p->%s) { %sp->%s = 0; } }' % (b, b, extra, b))
    out += ['void B_add_tag(verif_up b, const char* k, const char* v) { }', 'void B_add_node_ref(verif_up b, NodeRef nr) { }',
            'void B_add_member(verif_up b, item_type type, object_id_type ref, const char* role) { STUB_MAY_THROW(EXC_length_error, ) }',
            '/* add_comment: the comment is open once the call returns normally (the user name may be rejected before that); add_comment_text closes it before the text may be rejected.\n   Both are the order of the statements in ChangesetDiscussionBuilder (the units of C04/U11 verify the bodies) */',
            'void B_add_comment(verif_up b, Timestamp date, user_id_type uid, const char* user) { __CPROVER_assert(!ghost_comment_open, "ChangesetDiscussionBuilder::add_comment: assert(m_comment_offset == no_comment)"); STUB_MAY_THROW(EXC_length_error, ) ghost_comment_open = 1; }',
            'void B_add_comment_text(verif_up b, int text) { __CPROVER_assert(ghost_comment_open, "ChangesetDiscussionBuilder::add_comment_text: assert(m_comment_offset != no_comment)"); ghost_comment_open = 0; STUB_MAY_THROW(EXC_length_error, ) }',
            'int B_object(verif_up b) { return 0; }',
            'void B_set_user(P, verif_up b, const char* user) { __CPROVER_assert(SUBS(p) == 0, "set_user on an object builder while a sub-builder is open"); STUB_MAY_THROW(EXC_length_error, ) }',
            'const char* P_init_object(P, int object, const char** attrs) { __CPROVER_assert(p->m_context_stack.depth > 1, "repo assert in init_object: m_context_stack.size() > 1"); STUB_MAY_THROW(EXC_exception, "") return ""; }',
            'void P_init_changeset(verif_up b, const char** attrs) { STUB_MAY_THROW(EXC_exception, ) }',
            'unsigned char P_read_types(const P) { return ghost_read_types; }', 'void P_mark_header_as_done(P) { }', 'void P_flush_nested_buffer(P) { }',
            'void P_maybe_new_buffer(P, item_type t) { __CPROVER_assert(OBJS(p) == 0 && SUBS(p) == 0, "nested buffer swapped while a builder is open"); }',
            'void P_commit(P) { __CPROVER_assert(OBJS(p) == 0 && SUBS(p) == 0, "Buffer::commit() while a builder is open"); }',
            'int verif_strcmp(const char* a, const char* b) { return verif_nondet_int(); }']
    # ---- the invariant between two handler calls (a pure function: evaluated in the contracts)
    out.append(INV_FN)
    return '\n'.join(out) + '\n'


INV_FN = '''
/* the state between two handler calls: the context stack has one of the shapes of the OSM XML grammar and the builders match it;
   no comment is unfinished (the parser can be destroyed after any handler - expat reports a syntax error - and ~ChangesetDiscussionBuilder asserts that) */
bool xml_inv(const struct XMLParser* p)
{
  const size_t d = p->m_context_stack.depth;
  if (d > 5) return 0;
  const context a0 = p->m_context_stack.a[0], a1 = p->m_context_stack.a[1], a2 = p->m_context_stack.a[2], a3 = p->m_context_stack.a[3], a4 = p->m_context_stack.a[4];
  const verif_up nb = p->m_node_builder, wb = p->m_way_builder, rb = p->m_relation_builder, cb = p->m_changeset_builder;
  const verif_up cdb = p->m_changeset_discussion_builder, tl = p->m_tl_builder, wnl = p->m_wnl_builder, rml = p->m_rml_builder;
  if (nb > 1 || wb > 1 || rb > 1 || cb > 1 || cdb > 1 || tl > 1 || wnl > 1 || rml > 1 || ghost_comment_open != 0) return 0;
  const int objs = nb + wb + rb + cb, subs = cdb + tl + wnl + rml;
  if (d == 0) return objs == 0 && subs == 0;
  const bool root = (a0 == context_osm || a0 == context_osmChange);
  if (!root) return 0;
  if (d == 1) return objs == 0 && subs == 0;
  const bool sect1 = (a0 == context_osmChange) && (a1 == context_create_section || a1 == context_modify_section || a1 == context_delete_section);
  if (d == 2 && (a1 == context_bounds || a1 == context_other || sect1)) return objs == 0 && subs == 0;
  /* the object element: at position 1, or at position 2 inside a change section (no changesets there) */
  const size_t k = sect1 ? 2 : 1;
  const context o = sect1 ? a2 : a1;
  if (d <= k) return 0;
  if (!(o == context_node || o == context_way || o == context_relation || (o == context_changeset && !sect1))) return 0;
  /* exactly the builder of the object exists, if that type is read at all; sub-builders: at most one, below its own parent */
  if (nb != (o == context_node && (ghost_read_types & osm_entity_bits_node) != 0)) return 0;
  if (wb != (o == context_way && (ghost_read_types & osm_entity_bits_way) != 0)) return 0;
  if (rb != (o == context_relation && (ghost_read_types & osm_entity_bits_relation) != 0)) return 0;
  if (cb != (o == context_changeset && (ghost_read_types & osm_entity_bits_changeset) != 0)) return 0;
  if (subs > 1 || (wnl && !wb) || (rml && !rb) || (cdb && !cb) || (tl && objs != 1)) return 0;
  if (d == k + 1) return 1;
  const context c1 = sect1 ? a3 : a2;   /* child of the object */
  if (d == k + 2 && (c1 == context_tag || (c1 == context_nd && o == context_way) || (c1 == context_member && o == context_relation) ||
                     (c1 == context_obj_bbox && (o == context_way || o == context_relation)))) return 1;
  if (o != context_changeset || c1 != context_discussion) return 0;
  /* inside <discussion>: the discussion builder exists (if changesets are read) */
  if (cb && !cdb) return 0;
  if (d == 3) return 1;
  if (a3 != context_comment) return 0;
  if (d == 4) return 1;
  return a4 == context_text;
}
#define INV(p) xml_inv(p)
'''


def drop_lambdas(body, R):
    """check_attributes(attrs, [&a, &b](...) { ... });  ->  havoc of a, b; may throw.   [this] captures are rejected (fail closed)."""
    out = []
    pos = 0
    n = 0
    while True:
        m = re.search(r'check_attributes\(attrs, \[([^\]]*)\]', body[pos:])
        if not m:
            break
        start = pos + m.start()
        j = cx.match_close(body, start + len('check_attributes'))
        if body[j + 1] != ';':
            raise cx.ExtractError('check_attributes call is not a statement')
        caps = [c.strip() for c in m.group(1).split(',') if c.strip()]
        hav = []
        for c in caps:
            if not c.startswith('&'):
                raise cx.ExtractError('check_attributes lambda captures %r: only by-reference captures of locals are understood' % c)
            hav.append('VERIF_HAVOC(%s);' % c[1:])
        out.append(body[pos:start] + '/* attribute lambda */ ' + ' '.join(hav) + ' VERIF_ATTRS_MAY_THROW')
        pos = j + 2
        n += 1
    if n == 0:
        raise cx.ExtractError('no check_attributes lambda found')
    R.hit('unit_rewrite:check_attributes lambda', n)
    return ''.join(out) + body[pos:]


def arrow(body, R):
    """m_x_builder->f(args) -> B_f(UP_DEREF(m_x_builder), args)"""
    def rep(m):
        return 'B_%s(UP_DEREF(%s)%s' % (m.group(2), m.group(1), ')' if m.group(3) else ', ')
    new, n = re.subn(r'\b(m_\w+_builder)->(\w+)\((\))?', rep, body)
    if not n:
        raise cx.ExtractError('no builder->method() call found')
    R.hit('unit_rewrite:builder->method', n)
    return new


COMMON_PRE = [
    (r'm_context_stack\.empty\(\)', 'CTX_EMPTY(m_context_stack)'), (r'm_context_stack\.back\(\)', 'CTX_BACK(m_context_stack)'),
    (r'm_context_stack\.push_back\(([^;]*)\);', r'CTX_PUSH(m_context_stack, \1)'),
]
SIB = {'read_types': 'P_read_types', 'mark_header_as_done': 'P_mark_header_as_done', 'flush_nested_buffer': 'P_flush_nested_buffer', 'maybe_new_buffer': 'P_maybe_new_buffer',
       'init_object': 'P_init_object'}
RESET = (r'\b(m_\w+_builder)\.reset\(\);', r'UP_reset_\1(self);')
MAKE_SUB = (r'\b(m_\w+_builder) = std::make_unique<osmium::builder::\w+>\(\*(m_\w+_builder)\);', r'UP_make_\1(self, UP_DEREF(\2));')
STRCMP = (r'std::strcmp\(', 'verif_strcmp(')
EBITS = (r'osmium::osm_entity_bits::(\w+)', r'osm_entity_bits_\1')
ENUMS = ['context', 'item_type']

U_get_tag = Unit(XML, 'get_tag', cls='XMLParser', selftype='struct XMLParser', enums=ENUMS, params=['verif_up builder', 'const char** attrs'], stub_siblings=SIB,
                 pre=[drop_lambdas, (r'm_tl_builder = std::make_unique<osmium::builder::TagListBuilder>\(builder\);', 'UP_make_m_tl_builder(self, builder);'), arrow])
U_top = Unit(XML, 'top_level_element', cls='XMLParser', selftype='struct XMLParser', enums=ENUMS, params=['const char* element', 'const char** attrs'], stub_siblings=SIB,
             pre=COMMON_PRE[2:] + [STRCMP,
                                   (r'check_attributes\(attrs, \[this\]\(const XML_Char\* name, const XML_Char\* value\) \{.*?\n                    \}\);', '/* header attributes: values go to m_header only */ VERIF_ATTRS_MAY_THROW'),
                                   (r'm_header\.set_has_multiple_object_versions\(true\);', '/* header */;'), (r'm_header\.get\("version"\)\.empty\(\)', 'verif_nondet_int()')])
U_data = Unit(XML, 'data_level_element', cls='XMLParser', selftype='struct XMLParser', enums=ENUMS, params=['const char* element', 'const char** attrs', 'bool in_change_section'], stub_siblings=SIB,
              pre=COMMON_PRE[1:] + [STRCMP, EBITS, drop_lambdas,
                                    (r'\b(m_\w+_builder) = std::make_unique<osmium::builder::\w+>\(buffer\(\)\);', r'UP_make_\1(self);'),
                                    (r'(m_\w+_builder)->set_user\(', r'B_set_user(self, UP_DEREF(\1), '),
                                    (r'init_changeset\(\*m_changeset_builder, attrs\);', 'P_init_changeset(UP_DEREF(m_changeset_builder), attrs);'),
                                    arrow,
                                    (r'osmium::Location min;\s*osmium::Location max;', 'int min; int max;'),
                                    (r'osmium::Box box;\s*box\.extend\(min\)\.extend\(max\);\s*m_header\.add_box\(box\);', '/* header box */;')])
U_start = Unit(XML, 'start_element', cls='XMLParser', selftype='struct XMLParser', enums=ENUMS, params=['const char* element', 'const char** attrs'], stub_siblings=SIB,
               pre=COMMON_PRE + [STRCMP, EBITS, drop_lambdas, RESET, MAKE_SUB,
                                 (r'get_tag\(\*(m_\w+_builder), attrs\)', r'get_tag(UP_DEREF(\1), attrs)'), arrow,
                                 (r'osmium::Timestamp date;', 'Timestamp date = 0;'), (r'm_comment_user = user;', '/* string */;'), (r'm_comment_text\.clear\(\);', '/* string */;')])
U_end = Unit(XML, 'end_element', cls='XMLParser', selftype='struct XMLParser', enums=ENUMS, params=['const char* element'], stub_siblings=SIB,
             pre=COMMON_PRE[1:2] + [(r'assert\(!m_context_stack\.empty\(\)\);', '__CPROVER_assert(!CTX_EMPTY(m_context_stack), "repo assert: end_element with an empty context stack");'),
                                    (r'assert\(!std::strcmp\(element, "\w+"\)(?: \|\| !std::strcmp\(element, "\w+"\))?\);', '/* closing tag matches the open element: expat */'),
                                    EBITS, RESET, arrow, (r'buffer\(\)\.commit\(\);', 'P_commit(self);'), (r'm_comment_text\.clear\(\);', '/* text */;'),
                                    (r'm_comment_user\.c_str\(\)', '""'),
                                    (r'm_context_stack\.pop_back\(\);', 'CTX_POP(m_context_stack)')])

HANDLER_POST = [('post:after a normal return the context stack and the builders are again in a state of the grammar (nothing interleaved, nothing dangling, no unfinished comment)', 'ensures', 'verif_exc != 0 || INV(self)'),
                ('post:after an exception the parser can be destroyed: no unfinished comment (the members are destroyed sub-builders first)', 'ensures', 'verif_exc == 0 || !ghost_comment_open'),
                ('frame', 'assigns', 'verif_exc, ghost_comment_open, __CPROVER_object_whole(self)')]
SECT_TOP = '(CTX_BACK(self->m_context_stack) == context_create_section || CTX_BACK(self->m_context_stack) == context_modify_section || CTX_BACK(self->m_context_stack) == context_delete_section)'
CONTRACTS = {
    'XMLParser_top_level_element': [('pre:nothing is open', 'requires', 'verif_exc == 0 && __CPROVER_is_fresh(self, sizeof(*self)) && INV(self) && self->m_context_stack.depth == 0')] + HANDLER_POST,
    'XMLParser_data_level_element': [('pre:the innermost open element is osm, osmChange or a change section', 'requires',
                                      'verif_exc == 0 && __CPROVER_is_fresh(self, sizeof(*self)) && INV(self) && self->m_context_stack.depth >= 1 && self->m_context_stack.depth <= 2 && '
                                      '(self->m_context_stack.depth == 1 ? !in_change_section : (in_change_section && %s))' % SECT_TOP)] + HANDLER_POST,
    'XMLParser_start_element': [('pre:any state of the grammar', 'requires', 'verif_exc == 0 && __CPROVER_is_fresh(self, sizeof(*self)) && INV(self)')] + HANDLER_POST,
    'XMLParser_end_element': [('pre:any state of the grammar with an open element', 'requires', 'verif_exc == 0 && __CPROVER_is_fresh(self, sizeof(*self)) && INV(self) && self->m_context_stack.depth >= 1')] + HANDLER_POST,
}


MAYTHROW = {'B_add_member': True, 'B_add_comment': True, 'B_add_comment_text': True, 'B_set_user': True, 'P_init_object': False, 'P_init_changeset': True,
            'XMLParser_get_tag': True, 'XMLParser_top_level_element': True, 'XMLParser_data_level_element': True}


def harness(fn, args, decl):
    return ('void harness(void) { struct XMLParser* p; %s XMLParser_%s(p%s); __CPROVER_assert(verif_exc != 0, "canary:normal"); __CPROVER_assert(verif_exc == 0, "canary:throw"); }'
            % (decl, fn, args))


def pipelines(replay):
    ps = []
    mk = lambda name, units, enforce, replace, h, canaries, note: ps.append(Pipeline(
        name, units=units, prelude=prelude, contracts={k: v for k, v in CONTRACTS.items() if k == enforce or k in replace}, enforce=enforce, replace=replace, object_bits=10,
        maythrow=MAYTHROW, harness=h, canaries=canaries, replay=replay, noflags=['--conversion-check'], note=note))
    both = ['canary:normal', 'canary:throw']
    mk('U_xml_top_level_element', [U_top], 'XMLParser_top_level_element', [], harness('top_level_element', ', e, a', 'const char* e; const char** a;'), both,
       'first element of the document')
    mk('U_xml_data_level_element', [U_data], 'XMLParser_data_level_element', [], harness('data_level_element', ', e, a, s', 'const char* e; const char** a; bool s;'), both,
       'elements directly below osm/osmChange and inside create/modify/delete: object builders are created only when nothing is open')
    mk('U_xml_start_element', [U_get_tag, U_top, U_data, U_start], 'XMLParser_start_element', ['XMLParser_top_level_element', 'XMLParser_data_level_element'],
       harness('start_element', ', e, a', 'const char* e; const char** a;'), both,
       'every open tag in every state: sub-builders are created only after the previous one was destroyed, builders are dereferenced only while they exist, comments are opened only when none is open')
    mk('U_xml_end_element', [U_end], 'XMLParser_end_element', [], harness('end_element', ', e', 'const char* e;'), both,
       'every closing tag in every state: sub-builders are destroyed before their parents, commit happens after the last builder is gone, the stack returns to a state of the grammar')
    return ps
