"""C14 - text-format string escaping is injective and exactly undone by the parsers."""
from cv import Pipeline, Unit
from specs.common import *
import cx, os

PROPERTY = 'C14'
LEVEL = 'proof'
SU = 'include/osmium/io/detail/string_util.hpp'
OPL = 'include/osmium/io/detail/opl_parser_functions.hpp'
HERE = os.path.dirname(os.path.abspath(__file__))
SPEC = open(os.path.join(HERE, '..', 'stubs', 'c14_spec.h')).read()
GHOST = 'size_t ghost_n;\n'
NOCONV = ['--conversion-check']     # unsigned -> char narrowing is implementation-defined, not an error, and intended here

U_len = Unit(SU, 'utf8_sequence_length')
U_next = Unit(SU, 'next_utf8_codepoint')
U_hex2 = Unit(SU, 'append_2_hex_digits', strs=['out'])
U_hex4 = Unit(SU, 'append_min_4_hex_digits', strs=['out'], post=[(r'__auto_type\s+v = ', 'uint32_t v = ')])
U_esc = Unit(SU, 'append_utf8_encoded_string', strs=['out'])
U_cp8 = Unit(SU, 'append_codepoint_as_utf8', bind={'TOutputIterator': 'vstr*'}, ret='vstr*',
             post=[(r'\*\(out\+\+\) = ([^;]*);', r'vstr_push_char(out, \1);')])
U_pesc = Unit(OPL, 'opl_parse_escaped', strs=['result'])
U_pstr = Unit(OPL, 'opl_parse_string', strs=['result'])
U_xml = Unit(SU, 'append_xml_encoded_string', strs=['out'])
MAYTHROW = {'next_utf8_codepoint': False, 'opl_parse_escaped': True}

PIPELINES = []

# ---- U1: sequence length table ------------------------------------------------------------------
PIPELINES.append(Pipeline('U1_utf8_sequence_length', units=[U_len], contracts={'utf8_sequence_length': [
    ('post:length-table (RFC 3629 lead byte classes)', 'ensures',
     '__CPROVER_return_value == (first < 0x80 ? 1 : (first >= 0xC0 && first <= 0xDF) ? 2 : (first >= 0xE0 && first <= 0xEF) ? 3 : (first >= 0xF0 && first <= 0xF7) ? 4 : 0)'),
    ('frame', 'assigns', '')]},
    harness='void harness(void) { uint32_t f; uint8_t r = utf8_sequence_length(f); __CPROVER_assert(0, "canary"); }', enforce='utf8_sequence_length'))

# ---- U2: next_utf8_codepoint on an arbitrary byte range ------------------------------------------
NEXT_CONTRACT = [
    ('pre:non-empty range', 'requires', 'verif_exc == 0 && ghost_n >= 1 && ghost_n < VERIF_MAXLEN && __CPROVER_is_fresh(begin, sizeof(*begin)) && '
     '__CPROVER_is_fresh(*begin, ghost_n) && __CPROVER_pointer_equals(end, *begin + ghost_n)'),
    ('post:exception-class', 'ensures', 'verif_exc == 0 || verif_exc == EXC_runtime_error || verif_exc == EXC_out_of_range'),
    ('post:invalid lead byte rejected', 'ensures', '(SPEC_LEN((unsigned char)__CPROVER_old(**begin)) == 0) == (verif_exc == EXC_runtime_error)'),
    ('post:sequence cut off at the end is reported', 'ensures',
     '(SPEC_LEN((unsigned char)__CPROVER_old(**begin)) > ghost_n) == (verif_exc == EXC_out_of_range)'),
    ('post:not consumed on error', 'ensures', 'verif_exc == 0 || *begin == __CPROVER_old(*begin)'),
    ('post:consumes exactly the sequence', 'ensures', 'verif_exc != 0 || *begin == __CPROVER_old(*begin) + SPEC_LEN((unsigned char)__CPROVER_old(**begin))'),
    ('post:value is the RFC 3629 bit-field value', 'ensures', 'verif_exc != 0 || __CPROVER_return_value == SPEC_VALUE(__CPROVER_old(*begin))'),
    ('frame', 'assigns', '*begin, verif_exc'),
]
SPEC_NEXT = '''
#define SPEC_LEN(b) ((b) < 0x80 ? 1 : ((b) >= 0xC0 && (b) <= 0xDF) ? 2 : ((b) >= 0xE0 && (b) <= 0xEF) ? 3 : ((b) >= 0xF0 && (b) <= 0xF7) ? 4 : 0)
#define UB(p, k) ((uint32_t)(unsigned char)(p)[k])
#define SPEC_VALUE(p) (SPEC_LEN(UB(p, 0)) == 1 ? UB(p, 0) : SPEC_LEN(UB(p, 0)) == 2 ? (((UB(p, 0) & 0x1f) << 6) | (UB(p, 1) & 0x3f)) : \\
   SPEC_LEN(UB(p, 0)) == 3 ? (((UB(p, 0) & 0x0f) << 12) | ((UB(p, 1) & 0x3f) << 6) | (UB(p, 2) & 0x3f)) : \\
   (((UB(p, 0) & 0x07) << 18) | ((UB(p, 1) & 0x3f) << 12) | ((UB(p, 2) & 0x3f) << 6) | (UB(p, 3) & 0x3f)))
'''
PIPELINES.append(Pipeline('U2_next_utf8_codepoint', units=[U_len, U_next], prelude=GHOST + SPEC_NEXT + '#define VERIF_DISTANCE(a, b) ((b) - (a))\n',
                          contracts={'next_utf8_codepoint': NEXT_CONTRACT}, noflags=NOCONV,
                          harness='void harness(void) { const char** b; const char* e; uint32_t r = next_utf8_codepoint(b, e); __CPROVER_assert(verif_exc != 0, "canary:normal"); __CPROVER_assert(verif_exc == 0, "canary:throw"); }',
                          enforce='next_utf8_codepoint', canaries=['canary:normal', 'canary:throw'],
                          replay=('c14_escape', None),
                          note='arbitrary byte range of any length: never reads at or beyond end; value formula; both exceptions exactly when due'))

# ---- U4: hex numerals -----------------------------------------------------------------------------
H_HEX = '''
static const char* HEXD = "0123456789abcdef";
void harness(void) {
  uint32_t v; vstr out; out.size = 0;
  %(call)s
  /* specification: the lower-case hexadecimal numeral of v, %(what)s */
  size_t nd = %(nd)s;
  __CPROVER_assert(out.size == nd, "U4 number of digits");
  for (size_t k = 0; k < 8; ++k) if (k < nd) __CPROVER_assert(out.data[k] == HEXD[(v >> (4 * (nd - 1 - k))) & 0xf], "U4 digit k is nibble nd-1-k of the value");
  __CPROVER_assert(nd == 8 || (v >> (4 * nd)) == 0, "U4 no significant digit is dropped");
  __CPROVER_assert(0, "canary");
}'''
PIPELINES.append(Pipeline('U4_append_2_hex_digits', units=[U_hex2], stubs=['vstr_exec.h'], unwind=10, loop_contracts=False,
                          harness=H_HEX % dict(call='__CPROVER_assume(v <= 0xff); append_2_hex_digits(&out, v, HEXD);', what='exactly two digits', nd='2'),
                          replay=('c14_escape', lambda cex, o: ['hex2', cex.first('v', 0)])))
PIPELINES.append(Pipeline('U4_append_min_4_hex_digits', units=[U_hex4], stubs=['vstr_exec.h'], unwind=10, loop_contracts=False,
                          harness=H_HEX % dict(call='append_min_4_hex_digits(&out, v, HEXD);', what='at least four digits, no other leading zeros',
                                               nd='(v >> 28) ? 8 : (v >> 24) ? 7 : (v >> 20) ? 6 : (v >> 16) ? 5 : 4'),
                          replay=('c14_escape', lambda cex, o: ['hex4', cex.first('v', 0)])))

# ---- L1: per code point: escape, structural characters, parse back (real bodies, complete unwinding) -----
H_L1 = SPEC + '''
void harness(void) {
  uint32_t cp; __CPROVER_assume(SPEC_IS_SCALAR(cp));
  unsigned char in[5]; int n = spec_utf8_encode(cp, in); in[n] = 0;
  vstr out; out.size = 0; verif_exc = 0;
  append_utf8_encoded_string(&out, (const char*)in);
  __CPROVER_assert(verif_exc == 0, "L1 escaping a well-formed string does not throw");
  __CPROVER_assert(out.size >= 1 && out.size <= 10, "L1 chunk length");
  int escaped = out.data[0] == '%';
  for (size_t k = 0; k < 10; ++k) if (k < out.size) {
    char c = out.data[k];
    __CPROVER_assert(!SPEC_OPL_STRUCTURAL(c) || (c == '%' && escaped && (k == 0 || k == out.size - 1)), "L1 no structural character in the escaped form");
    __CPROVER_assert(!(c >= 0 && c < 0x20) && c != 0x7f, "L1 no control character in the escaped form");
  }
  /* parse it back with the real parser */
  vstr_push_char(&out, 0);
  const char* p = out.data; const char** d = &p; vstr res; res.size = 0;
  opl_parse_string(d, &res);
  __CPROVER_assert(verif_exc == 0, "L1 the parser accepts the escaped form");
  __CPROVER_assert(p == out.data + out.size - 1, "L1 the parser consumes the whole escaped form");
  __CPROVER_assert(res.size == (size_t)n, "L1 parsed length equals original length");
  for (int k = 0; k < 4; ++k) if (k < n) __CPROVER_assert((unsigned char)res.data[k] == in[k], "L1 parse(escape(s)) == s");
  __CPROVER_assert(0, "canary");
}'''
PIPELINES.append(Pipeline('L1_escape_parse_per_codepoint', units=[U_len, U_next, U_hex2, U_hex4, U_esc, U_cp8, U_pesc, U_pstr], stubs=['vstr_exec.h'],
                          prelude='#include <string.h>\n', maythrow=MAYTHROW, harness=H_L1, unwind=12, loop_contracts=False, noflags=NOCONV, timeout=900,
                          replay=('c14_escape', lambda cex, o: ['cp', cex.first('cp', 0)]),
                          note='every Unicode scalar value (symbolic): real escaper and real parser inlined; all loops bounded by the chunk length'))


# ---- safety on arbitrary NUL-terminated input (loop contracts, abstract output string) -------------------
U_esc_abs = Unit(SU, 'append_utf8_encoded_string', strs=['out'], post=[(r'(?<!\w)strlen\(', 'verif_strlen(')], witness=[('data', 'ghost_n + 1', 24)])
ESC_LOOP = [['__CPROVER_assigns(data, verif_exc, out->size)',
             '__CPROVER_loop_invariant(__CPROVER_same_object(data, end_ptr) && __CPROVER_POINTER_OFFSET(data) <= __CPROVER_POINTER_OFFSET(end_ptr) && '
             '__CPROVER_POINTER_OFFSET(end_ptr) <= ghost_n && verif_exc == 0)',
             '__CPROVER_decreases(__CPROVER_POINTER_OFFSET(end_ptr) - __CPROVER_POINTER_OFFSET(data))']]
ESC_CONTRACT = [
    ('pre:nul-terminated-string', 'requires', 'verif_exc == 0 && ghost_n < VERIF_MAXLEN && __CPROVER_is_fresh(out, sizeof(*out)) && __CPROVER_is_fresh(data, ghost_n + 1) && data[ghost_n] == 0'),
    ('post:exception-class', 'ensures', 'verif_exc == 0 || verif_exc == EXC_runtime_error || verif_exc == EXC_out_of_range'),
    ('frame', 'assigns', 'verif_exc, out->size'),
]
# contract of next_utf8_codepoint as used by the caller (proved by pipeline U2 above in its own terms)
NEXT_FOR_CALLER = [
    ('pre:non-empty readable range', 'requires', 'verif_exc == 0 && __CPROVER_same_object(*begin, end) && __CPROVER_POINTER_OFFSET(*begin) < __CPROVER_POINTER_OFFSET(end) && '
     '__CPROVER_r_ok(*begin, (size_t)(end - *begin))'),
    ('post', 'ensures', 'verif_exc == 0 || verif_exc == EXC_runtime_error || verif_exc == EXC_out_of_range'),
    ('post', 'ensures', 'verif_exc != 0 || (__CPROVER_same_object(*begin, end) && __CPROVER_POINTER_OFFSET(*begin) > __CPROVER_POINTER_OFFSET(__CPROVER_old(*begin)) && '
     '__CPROVER_POINTER_OFFSET(*begin) <= __CPROVER_POINTER_OFFSET(end))'),
    ('post', 'ensures', 'verif_exc == 0 || *begin == __CPROVER_old(*begin)'),
    ('frame', 'assigns', '*begin, verif_exc'),
]
HEX_STUBS = '''
/* append_2_hex_digits / append_min_4_hex_digits as the escaper uses them: they only append to the output (their digits are decided in the U4 pipelines on the real bodies) */
void append_2_hex_digits(vstr* out, uint32_t value, const char* const hex_digits) __CPROVER_requires(__CPROVER_rw_ok(out, sizeof(*out))) __CPROVER_assigns(out->size) __CPROVER_ensures(out->size == __CPROVER_old(out->size) + 2);
void append_min_4_hex_digits(vstr* out, uint32_t value, const char* const hex_digits) __CPROVER_requires(__CPROVER_rw_ok(out, sizeof(*out))) __CPROVER_assigns(out->size)
  __CPROVER_ensures(out->size >= __CPROVER_old(out->size) + 4 && out->size <= __CPROVER_old(out->size) + 8);
'''
U_esc_abs2 = Unit(SU, 'append_utf8_encoded_string', strs=['out'], post=[(r'(?<!\w)strlen\(', 'verif_strlen('), (r'append_(2|min_4)_hex_digits\(\(\*out\), ', r'append_\1_hex_digits(out, ')], witness=[('data', 'ghost_n + 1', 24)])
PIPELINES.append(Pipeline('U3_escape_safety_any_string', units=[U_len, U_next, U_esc_abs2], stubs=['vstr_abs.h'], prelude=HEX_STUBS,
                          contracts={'append_utf8_encoded_string': ESC_CONTRACT, 'next_utf8_codepoint': NEXT_FOR_CALLER},
                          loops={'append_utf8_encoded_string': ESC_LOOP}, maythrow={'next_utf8_codepoint': False},
                          replace=['next_utf8_codepoint', 'vstr_push_char', 'vstr_append_range', 'verif_strlen', 'append_2_hex_digits', 'append_min_4_hex_digits'],
                          harness='void harness(void) { vstr* o; const char* d; append_utf8_encoded_string(o, d); __CPROVER_assert(verif_exc != 0, "canary:normal"); __CPROVER_assert(verif_exc == 0, "canary:throw"); }',
                          enforce='append_utf8_encoded_string', canaries=['canary:normal', 'canary:throw'], noflags=NOCONV, timeout=900, object_bits=10,
                          replay=('c14_escape', lambda cex, o: ['str', hexs(cex.witness('append_utf8_encoded_string').split(b'\\0')[0])]),
                          note='whatever bytes the string contains, the escaper never reads beyond its terminating NUL; termination (decreases)'))
# the caller-side contract of next_utf8_codepoint is itself enforced on the real body
PIPELINES.append(Pipeline('U2_next_utf8_codepoint_caller_contract', units=[U_len, U_next], prelude=GHOST + '#define VERIF_DISTANCE(a, b) ((b) - (a))\n',
                          contracts={'next_utf8_codepoint': [('pre', 'requires', 'verif_exc == 0 && ghost_n >= 1 && ghost_n < VERIF_MAXLEN && __CPROVER_is_fresh(begin, sizeof(*begin)) && '
                                                              '__CPROVER_is_fresh(*begin, ghost_n) && __CPROVER_pointer_equals(end, *begin + ghost_n)')] + NEXT_FOR_CALLER[1:]},
                          harness='void harness(void) { const char** b; const char* e; uint32_t r = next_utf8_codepoint(b, e); __CPROVER_assert(0, "canary"); }',
                          enforce='next_utf8_codepoint', noflags=NOCONV))

# ---- parser side: opl_parse_escaped / opl_parse_string on arbitrary NUL-terminated input ------------------
U_pesc_abs = Unit(OPL, 'opl_parse_escaped', strs=['result'], witness=[('(*data)', 'ghost_n + 1', 24)])
U_pstr_abs = Unit(OPL, 'opl_parse_string', strs=['result'], witness=[('(*data)', 'ghost_n + 1', 24)])
U_cp8_abs = Unit(SU, 'append_codepoint_as_utf8', bind={'TOutputIterator': 'vstr*'}, ret='vstr*',
                 post=[(r'\*\(out\+\+\) = ([^;]*);', r'vstr_push_char(out, \1);')])
PESC_CONTRACT = [
    ('pre', 'requires', 'verif_exc == 0 && ghost_n < VERIF_MAXLEN && __CPROVER_is_fresh(result, sizeof(*result)) && __CPROVER_is_fresh(data, sizeof(*data)) && '
     '__CPROVER_is_fresh(*data, ghost_n + 1) && (*data)[ghost_n] == 0'),
    ('post:exception-class', 'ensures', 'verif_exc == 0 || verif_exc == EXC_opl_error'),
    ('post:consumed-within-string', 'ensures', '__CPROVER_same_object(*data, __CPROVER_old(*data)) && __CPROVER_POINTER_OFFSET(*data) <= ghost_n'),
    ('post:progress', 'ensures', 'verif_exc != 0 || __CPROVER_POINTER_OFFSET(*data) > __CPROVER_POINTER_OFFSET(__CPROVER_old(*data))'),
    ('frame', 'assigns', '*data, verif_exc, result->size'),
]
PESC_LOOP = [['__CPROVER_assigns(s, length, value, verif_exc, *data, result->size)',
              '__CPROVER_loop_invariant(__CPROVER_same_object(s, *data) && __CPROVER_POINTER_OFFSET(s) <= ghost_n && 0 <= length && length <= max_length && verif_exc == 0 && '
              '*data == __CPROVER_loop_entry(*data) && __CPROVER_POINTER_OFFSET(s) >= __CPROVER_POINTER_OFFSET(*data))',
              '__CPROVER_decreases(max_length - length)']]
PIPELINES.append(Pipeline('U5_opl_parse_escaped_safety', units=[U_cp8_abs, U_pesc_abs], stubs=['vstr_abs.h'], contracts={'opl_parse_escaped': PESC_CONTRACT},
                          loops={'opl_parse_escaped': PESC_LOOP}, replace=['vstr_push_char'],
                          harness='void harness(void) { const char** d; vstr* r; opl_parse_escaped(d, r); __CPROVER_assert(verif_exc != 0, "canary:normal"); __CPROVER_assert(verif_exc == 0, "canary:throw"); }',
                          enforce='opl_parse_escaped', canaries=['canary:normal', 'canary:throw'], noflags=NOCONV, solver='kissat', object_bits=9,
                          replay=('c14_escape', None)))
# opl_parse_escaped as seen by opl_parse_string: called with a pointer to a local
PESC_FOR_CALLER = [
    ('pre', 'requires', 'verif_exc == 0 && __CPROVER_r_ok(*data, 1) && __CPROVER_POINTER_OFFSET(*data) <= ghost_n'),
    ('post', 'ensures', 'verif_exc == 0 || verif_exc == EXC_opl_error'),
    ('post', 'ensures', '__CPROVER_same_object(*data, __CPROVER_old(*data)) && __CPROVER_POINTER_OFFSET(*data) <= ghost_n'),
    ('post', 'ensures', 'verif_exc != 0 || __CPROVER_POINTER_OFFSET(*data) > __CPROVER_POINTER_OFFSET(__CPROVER_old(*data))'),
    ('frame', 'assigns', '*data, verif_exc, result->size'),
]
PSTR_CONTRACT = [PESC_CONTRACT[0], PESC_CONTRACT[1], PESC_CONTRACT[2],
                 ('post:stops-at-terminator', 'ensures', 'verif_exc != 0 || **data == 0 || **data == \' \' || **data == \'\\t\' || **data == \',\' || **data == \'=\''),
                 PESC_CONTRACT[4]]
PSTR_LOOP = [['__CPROVER_assigns(s, verif_exc, result->size)',
              '__CPROVER_loop_invariant(__CPROVER_same_object(s, *data) && __CPROVER_POINTER_OFFSET(s) <= ghost_n && verif_exc == 0)',
              '__CPROVER_decreases(ghost_n - __CPROVER_POINTER_OFFSET(s))']]
PIPELINES.append(Pipeline('U6_opl_parse_string_safety', units=[U_cp8_abs, U_pesc_abs, U_pstr_abs], stubs=['vstr_abs.h'],
                          contracts={'opl_parse_string': PSTR_CONTRACT, 'opl_parse_escaped': PESC_FOR_CALLER},
                          loops={'opl_parse_string': PSTR_LOOP}, replace=['vstr_push_char', 'opl_parse_escaped'], maythrow={'opl_parse_escaped': True},
                          harness='void harness(void) { const char** d; vstr* r; opl_parse_string(d, r); __CPROVER_assert(verif_exc != 0, "canary:normal"); __CPROVER_assert(verif_exc == 0, "canary:throw"); }',
                          enforce='opl_parse_string', canaries=['canary:normal', 'canary:throw'], noflags=NOCONV,
                          replay=('c14_escape', None)))


# ---- pair of code points: chunk boundaries (thorough) -----------------------------------------------------
H_L1P = SPEC + '''
void harness(void) {
  uint32_t cp, cq; __CPROVER_assume(SPEC_IS_SCALAR(cp) && SPEC_IS_SCALAR(cq));
  unsigned char in[9]; int n = spec_utf8_encode(cp, in); n += spec_utf8_encode(cq, in + n); in[n] = 0;
  vstr out; out.size = 0; verif_exc = 0;
  append_utf8_encoded_string(&out, (const char*)in);
  __CPROVER_assert(verif_exc == 0, "L1p escaping a well-formed string does not throw");
  vstr_push_char(&out, 0);
  const char* p = out.data; const char** d = &p; vstr res; res.size = 0;
  opl_parse_string(d, &res);
  __CPROVER_assert(verif_exc == 0 && p == out.data + out.size - 1, "L1p the parser accepts and consumes the escaped form");
  __CPROVER_assert(res.size == (size_t)n, "L1p parsed length equals original length");
  for (int k = 0; k < 8; ++k) if (k < n) __CPROVER_assert((unsigned char)res.data[k] == in[k], "L1p parse(escape(s)) == s for two code points");
  __CPROVER_assert(0, "canary");
}'''
PIPELINES.append(Pipeline('L1_escape_parse_codepoint_pair', units=[U_len, U_next, U_hex2, U_hex4, U_esc, U_cp8, U_pesc, U_pstr], stubs=['vstr_exec.h'],
                          prelude='#include <string.h>\n', maythrow=MAYTHROW, harness=H_L1P, unwind=24, loop_contracts=False, noflags=NOCONV, timeout=1700, tier='thorough',
                          solver='kissat', replay=('c14_escape', lambda cex, o: ['cp2', cex.first('cp', 0), cex.first('cq', 0)]),
                          note='all pairs of scalar values: what happens at a chunk boundary'))

# ---- XML attribute escaping, per byte ------------------------------------------------------------------------
H_XML = SPEC + r'''
void harness(void) {
  char in[3]; __CPROVER_assume(in[0] != 0); in[2] = 0;         /* one or two bytes */
  vstr out; out.size = 0; verif_exc = 0;
  append_xml_encoded_string(&out, in);
  size_t n1;   /* length of the chunk produced for the first byte */
  char c = in[0];
  n1 = c == '&' ? 5 : c == '"' ? 6 : c == '\'' ? 6 : c == '<' ? 4 : c == '>' ? 4 : c == '\n' ? 5 : c == '\r' ? 5 : c == '\t' ? 5 : 1;
  __CPROVER_assert(out.size >= n1, "U8 chunk present");
  if (n1 == 1) __CPROVER_assert(out.data[0] == c, "U8 ordinary bytes pass through unchanged");
  else {
    __CPROVER_assert(out.data[0] == '&' && out.data[n1 - 1] == ';', "U8 escaped bytes become one entity or character reference");
    for (size_t k = 1; k + 1 < 6; ++k) if (k + 1 < n1) __CPROVER_assert(!SPEC_XML_STRUCTURAL(out.data[k]) && out.data[k] != ';', "U8 entity body has no structural character");
    /* the reference names exactly this byte */
    __CPROVER_assert((c == '&') == (n1 == 5 && out.data[1] == 'a' && out.data[2] == 'm' && out.data[3] == 'p'), "U8 &amp;");
    __CPROVER_assert((c == '"') == (n1 == 6 && out.data[1] == 'q' && out.data[2] == 'u' && out.data[3] == 'o' && out.data[4] == 't'), "U8 &quot;");
    __CPROVER_assert((c == '\'') == (n1 == 6 && out.data[1] == 'a' && out.data[2] == 'p' && out.data[3] == 'o' && out.data[4] == 's'), "U8 &apos;");
    __CPROVER_assert((c == '<') == (n1 == 4 && out.data[1] == 'l' && out.data[2] == 't'), "U8 &lt;");
    __CPROVER_assert((c == '>') == (n1 == 4 && out.data[1] == 'g' && out.data[2] == 't'), "U8 &gt;");
    __CPROVER_assert((c == '\n') == (n1 == 5 && out.data[1] == '#' && out.data[2] == 'x' && out.data[3] == 'A'), "U8 &#xA;");
    __CPROVER_assert((c == '\r') == (n1 == 5 && out.data[1] == '#' && out.data[2] == 'x' && out.data[3] == 'D'), "U8 &#xD;");
    __CPROVER_assert((c == '\t') == (n1 == 5 && out.data[1] == '#' && out.data[2] == 'x' && out.data[3] == '9'), "U8 &#x9;");
  }
  __CPROVER_assert(n1 != 1 || !SPEC_XML_STRUCTURAL(c), "U8 no markup, quote, line break or tab passes through");
  /* second byte (if any) is escaped independently of the first: chunk boundary */
  if (in[1] == 0) __CPROVER_assert(out.size == n1, "U8 nothing after the last chunk");
  else { char c2 = in[1]; size_t n2 = c2 == '&' ? 5 : c2 == '"' ? 6 : c2 == '\'' ? 6 : c2 == '<' ? 4 : c2 == '>' ? 4 : c2 == '\n' ? 5 : c2 == '\r' ? 5 : c2 == '\t' ? 5 : 1;
    __CPROVER_assert(out.size == n1 + n2, "U8 second chunk follows the first");
    __CPROVER_assert(n2 != 1 || out.data[n1] == c2, "U8 second byte passes through"); __CPROVER_assert(n2 == 1 || out.data[n1] == '&', "U8 second byte escaped"); }
  __CPROVER_assert(0, "canary");
}'''
PIPELINES.append(Pipeline('U8_xml_escape_per_byte', units=[U_xml], stubs=['vstr_exec.h'], harness=H_XML, unwind=8, loop_contracts=False, noflags=NOCONV,
                          replay=('c14_escape', lambda cex, o: ['xml', hexs(bytes([(cex.first('in[0l]', 65) or 65) & 255, (cex.first('in[1l]', 0) or 0) & 255]).split(b'\\0')[0])]),
                          note='every byte value, alone and followed by any second byte: chunk table; chunks are a prefix code (an entity starts with & and ends at the first ;, a plain byte is never & or ;-terminated)'))

TRUSTED = ['strlen (CBMC C library model)', 'std::string modelled by stubs/vstr_exec.h (append/push_back/index semantics of the C++ standard)',
           'expat undoes XML attribute escaping (external library; assumed)']
ASSUMPTIONS = []
NOT_DECIDED = ['XML decoding side (expat)', 'strings of more than one code point are covered through the loop structure only (each iteration handles one code point independently)']
LEVEL_TEXT = ('Proof for the OPL escaper/parser pair per Unicode scalar value (all 1,112,064 of them, symbolically, real escaper and real parser bodies '
              'inlined with complete unwinding): the escaped form contains no structural or control character, the parser accepts it, consumes it '
              'exactly and returns the original bytes - hence distinct code points have distinct escaped forms. next_utf8_codepoint is verified '
              'against the RFC 3629 value formula on byte ranges of any length (never reads at or beyond end; a sequence cut off at the end throws '
              'out_of_range); the hex numeral writers against the numeral specification; opl_parse_escaped/opl_parse_string are memory-safe and '
              'terminate on every NUL-terminated input (loop contracts). XML escaping: per-byte chunk table for every byte value and every '
              'following byte. Thorough tier adds all pairs of code points and the unbounded safety proof of the escaper loop.')
LEVEL_NOTE = ('Trusted: CBMC, extraction rules, strlen model, the std::string models (stubs/vstr_exec.h executable model with a fixed capacity '
              'guarded by model-capacity assertions; stubs/vstr_abs.h length-only contracts). Not decided: decoding by expat (external), '
              'strings of 3+ code points are covered only through the per-iteration independence of both loops, not by an induction CBMC checked.')
