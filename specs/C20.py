"""C20 - handler dispatch and diff iteration visit each object once with the right context."""
from cv import Pipeline, Unit
from specs.common import *
import cx

PROPERTY = 'C20'
LEVEL = 'proof'
VIS = 'include/osmium/visitor.hpp'
ITEM = 'include/osmium/memory/item.hpp'
ITYPE = 'include/osmium/osm/item_type.hpp'
OBJ = 'include/osmium/osm/object.hpp'
DIT = 'include/osmium/diff_iterator.hpp'
DOB = 'include/osmium/osm/diff_object.hpp'
TS = 'include/osmium/osm/timestamp.hpp'

CLSS = ['OSMObject', 'Node', 'Way', 'Relation', 'Area', 'Changeset', 'TagList', 'WayNodeList', 'RelationMemberList', 'OuterRing', 'InnerRing', 'ChangesetDiscussion']
CBS = ['osm_object', 'node', 'way', 'relation', 'area', 'changeset', 'tag_list', 'way_node_list', 'relation_member_list',
       'outer_ring', 'inner_ring', 'changeset_discussion']


def prelude(repo):
    return ('typedef uint32_t item_size_type;\n' + cx.extract_enum(repo, ITYPE, 'item_type')
            + cx.members_struct(repo, [(ITEM, 'Item')], 'Item') + 'typedef struct Item Item; typedef struct Item OSMEntity;\n'
            + '#define EXC_unknown_type (0x02000000 | EXC_runtime_error)\n'
            + 'enum { CB_none = 0, ' + ', '.join('CB_' + c for c in CBS) + ' };\n'
            + 'enum { CLS_none = 0, ' + ', '.join('CLS_' + c for c in CLSS) + ' };\n'
            + 'enum { Q_same = 0, Q_const, Q_mut };   /* const-ness of the reference handed to the callback: that of the item parameter / forced const / forced non-const */\n'
            + 'int cb_log[4]; int cb_q[4]; int cb_cls[4]; int cb_n;   /* ghost: the sequence of handler callbacks made, with the static type of their argument */\n'
            + '#define VERIF_CB(x, q, c) { if (cb_n < 4) { cb_log[cb_n] = (x); cb_q[cb_n] = (q); cb_cls[cb_n] = (c); } cb_n = cb_n + 1; }\n' + SPEC_TABLE)


# specification table, written from the property sentence: "first the generic object callback and then exactly the
# callback that matches the item's type" (OSM objects: node, way, relation, area); other entities and sub-items: exactly their callback
SPEC_TABLE = '''
#define IS_OBJ(t) ((t) == item_type_node || (t) == item_type_way || (t) == item_type_relation || (t) == item_type_area)
#define SPEC_OWN_CB(t) ((t) == item_type_node ? CB_node : (t) == item_type_way ? CB_way : (t) == item_type_relation ? CB_relation : (t) == item_type_area ? CB_area : \\
  (t) == item_type_changeset ? CB_changeset : (t) == item_type_tag_list ? CB_tag_list : (t) == item_type_way_node_list ? CB_way_node_list : \\
  ((t) == item_type_relation_member_list || (t) == item_type_relation_member_list_with_full_members) ? CB_relation_member_list : \\
  (t) == item_type_outer_ring ? CB_outer_ring : (t) == item_type_inner_ring ? CB_inner_ring : (t) == item_type_changeset_discussion ? CB_changeset_discussion : CB_none)
/* the class a callback takes (handler.hpp): "function objects ... see exactly the objects of the types they accept", const-ness included */
#define SPEC_CLS(cb) ((cb) == CB_osm_object ? CLS_OSMObject : (cb) == CB_node ? CLS_Node : (cb) == CB_way ? CLS_Way : (cb) == CB_relation ? CLS_Relation : (cb) == CB_area ? CLS_Area : \\
  (cb) == CB_changeset ? CLS_Changeset : (cb) == CB_tag_list ? CLS_TagList : (cb) == CB_way_node_list ? CLS_WayNodeList : (cb) == CB_relation_member_list ? CLS_RelationMemberList : \\
  (cb) == CB_outer_ring ? CLS_OuterRing : (cb) == CB_inner_ring ? CLS_InnerRing : (cb) == CB_changeset_discussion ? CLS_ChangesetDiscussion : CLS_none)
#define ARG_OK(k) (cb_cls[k] == SPEC_CLS(cb_log[k]) && (cb_q[k] == Q_same || cb_q[k] == Q_VARIANT))
'''

# the callback and the static type of its argument: class and const-ness of the cast (no cast: the item parameter itself)
CB_RULE = [(r'std::forward<THandler>\(handler\)\.(\w+)\(static_cast<ConstIfConst<TItem, osmium::(\w+)>&>\(item\)\);', r'VERIF_CB(CB_\1, Q_same, CLS_\2)', '?'),
           (r'std::forward<THandler>\(handler\)\.(\w+)\(static_cast<const osmium::(\w+)&>\(item\)\);', r'VERIF_CB(CB_\1, Q_const, CLS_\2)', '?'),
           (r'std::forward<THandler>\(handler\)\.(\w+)\(static_cast<osmium::(\w+)&>\(item\)\);', r'VERIF_CB(CB_\1, Q_mut, CLS_\2)', '?'),
           (r'std::forward<THandler>\(handler\)\.(\w+)\(item\);', r'VERIF_CB(CB_\1, Q_same, CLS_PARAM)', '?'),
           (r'osmium::item_type::(\w+)', r'item_type_\1')]
U_type = Unit(ITEM, 'type', cls='Item', selftype='const struct Item')


def dispatch_unit(cname, sig):
    return Unit(VIS, 'apply_item_impl', cname=cname, sig=sig, pre=CB_RULE, objs={'item': 'Item'},
                params=['Item* item'], ret='void', post=[(r'(?<![\w>.])item(?![\w(])', '(*item)')] if False else [])


VARIANTS = [
    # (cname, signature regex, which types are dispatched, what happens for the others)
    ('apply_item_generic', r'TItem& item', 'all', 'nothing'),
    ('apply_item_const_entity', r'\(const osmium::OSMEntity& item', 'entity', 'throw'),
    ('apply_item_entity', r'\(osmium::OSMEntity& item', 'entity', 'throw'),
    ('apply_item_const_object', r'\(const osmium::OSMObject& item', 'object', 'throw'),
    ('apply_item_object', r'\(osmium::OSMObject& item', 'object', 'throw'),
]
PIPELINES = []
for cname, sig, which, other in VARIANTS:
    u = Unit(VIS, 'apply_item_impl', cname=cname, sig=sig, pre=CB_RULE, params=['const Item* item'], ret='void',
             post=[(r'(?<![\w>.&])item\.type\(\)', 'Item_type(item)')])
    if which == 'all':
        handled = 'SPEC_OWN_CB(item->m_type) != CB_none'
    elif which == 'entity':
        handled = '(IS_OBJ(item->m_type) || item->m_type == item_type_changeset)'
    else:
        handled = 'IS_OBJ(item->m_type)'
    contract = [
        ('pre', 'requires', 'verif_exc == 0 && cb_n == 0 && __CPROVER_is_fresh(item, sizeof(*item))'),
        ('post:objects get osm_object first, then their own callback', 'ensures',
         '!(IS_OBJ(item->m_type)) || (verif_exc == 0 && cb_n == 2 && cb_log[0] == CB_osm_object && cb_log[1] == SPEC_OWN_CB(item->m_type))'),
        ('post:other dispatched items get exactly their own callback', 'ensures',
         '!(%s && !IS_OBJ(item->m_type)) || (verif_exc == 0 && cb_n == 1 && cb_log[0] == SPEC_OWN_CB(item->m_type))' % handled),
        ('post:anything else: no callback' + ('' if other == 'nothing' else ', unknown_type thrown'), 'ensures',
         '(%s) || (cb_n == 0 && verif_exc == %s)' % (handled, '0' if other == 'nothing' else 'EXC_unknown_type')),
        ('post:every callback gets the item as the class it takes, with the const-ness of the item handed to the dispatcher (a non-const item reaches the non-const overloads)', 'ensures',
         '(cb_n < 1 || ARG_OK(0)) && (cb_n < 2 || ARG_OK(1))'),
        ('frame', 'assigns', 'verif_exc, cb_n, __CPROVER_object_whole(cb_log), __CPROVER_object_whole(cb_q), __CPROVER_object_whole(cb_cls)'),
    ]
    qv = 'Q_same' if which == 'all' else ('Q_const' if 'const' in cname else 'Q_mut')
    var_prelude = (lambda q, c: (lambda repo: '#define Q_VARIANT %s\n#define CLS_PARAM %s\n' % (q, c) + prelude(repo)))(qv, 'CLS_OSMObject' if which == 'object' else 'CLS_none')
    PIPELINES.append(Pipeline('U1_' + cname, units=[U_type, u], prelude=var_prelude, contracts={cname: contract}, enforce=cname,
                              harness='void harness(void) { const Item* it; %s(it); __CPROVER_assert(0, "canary"); }' % cname,
                              replay=('c20_dispatch', (lambda cn: (lambda cex, o: ['dispatch', cn, cex.field(cex.pointer_target('item'), 'm_type')]))(cname)),
                              note='all 2^16 item type values; loop-free, complete'))

# ------------------------------------------------------------------------------------------------ DiffIterator
def prelude_diff(repo):
    return ('typedef int64_t object_id_type; typedef uint64_t unsigned_object_id_type; typedef uint32_t object_version_type; typedef uint32_t user_id_type;\n'
            'typedef uint32_t changeset_id_type; typedef uint32_t item_size_type;\n' + cx.extract_enum(repo, ITYPE, 'item_type')
            + cx.members_struct(repo, [(TS, 'Timestamp')], 'Timestamp') + 'typedef struct Timestamp Timestamp;\n'
            + cx.members_struct(repo, [(ITEM, 'Item'), (OBJ, 'OSMObject')], 'OSMObject') + 'typedef struct OSMObject OSMObject;\n'
            + cx.members_struct(repo, [(DOB, 'DiffObject')], 'DiffObject') + 'typedef struct DiffObject DiffObject;\n'
            + cx.members_struct(repo, [(DIT, 'DiffIterator')], 'DiffIterator',
                                typemap={'TBasicIterator': 'const OSMObject*', 'mutable osmium::DiffObject': 'struct DiffObject'})
            + GHOSTD)


GHOSTD = '''
/* ghost: the version-sorted sequence being iterated: ghost_arr[0 .. ghost_len), and the position of m_curr */
const OSMObject* ghost_arr; size_t ghost_len; size_t ghost_i;
#define SAME(a, b) ((a)->m_type == (b)->m_type && (a)->m_id == (b)->m_id)
/* representation invariant of a DiffIterator positioned at index i of the sequence */
#define WF(s, i) ((i) <= ghost_len && (s)->m_end == ghost_arr + ghost_len && (s)->m_curr == ghost_arr + (i) && \\
   (s)->m_prev == ghost_arr + ((i) > 0 ? (i) - 1 : 0) && (s)->m_next == ghost_arr + ((i) + 1 < ghost_len ? (i) + 1 : ghost_len))
#define WF_REQ(s, i) ((i) <= ghost_len && __CPROVER_pointer_equals((s)->m_end, ghost_arr + ghost_len) && __CPROVER_pointer_equals((s)->m_curr, ghost_arr + (i)) && \\
   __CPROVER_pointer_equals((s)->m_prev, ghost_arr + ((i) > 0 ? (i) - 1 : 0)) && __CPROVER_pointer_equals((s)->m_next, ghost_arr + ((i) + 1 < ghost_len ? (i) + 1 : ghost_len)))
#define SEQ_REQ (ghost_len >= 1 && ghost_len <= 1000 && __CPROVER_is_fresh(ghost_arr, ghost_len * sizeof(OSMObject)))
struct DiffObject DiffObject_make(const OSMObject* prev, const OSMObject* curr, const OSMObject* next);
'''
OBJS = {'m_prev': 'OSMObject', 'm_curr': 'OSMObject', 'm_next': 'OSMObject', 'prev': 'OSMObject', 'curr': 'OSMObject', 'next': 'OSMObject'}
U_otype = Unit(ITEM, 'type', cls='Item', cname='OSMObject_type', selftype='const struct OSMObject')
U_oid = Unit(OBJ, 'id', cls='OSMObject', selftype='const struct OSMObject')
U_dctor = Unit(DOB, 'DiffObject', cls='DiffObject', cname='DiffObject_ctor', sig=r'const osmium::OSMObject& prev', objs=OBJS)
MAKE = '''
struct DiffObject DiffObject_make(const OSMObject* prev, const OSMObject* curr, const OSMObject* next) { struct DiffObject d; DiffObject_ctor(&d, prev, curr, next); return d; }
'''
U_setdiff = Unit(DIT, 'set_diff', cls='DiffIterator', objs=OBJS,
                 pre=[(r'osmium::DiffObject\{\s*\*(.*?),\s*\*(.*?),\s*\*(.*?)\s*\}', r'DiffObject_make(\1, \2, \3)')])
U_inc = Unit(DIT, 'operator++', cls='DiffIterator', cname='DiffIterator_inc', sig=r'operator\+\+\(\)', ret='void',
             post=[(r'return \(\*self\);', 'return;')])
U_ctor = Unit(DIT, 'DiffIterator', cls='DiffIterator', cname='DiffIterator_ctor', sig=r'TBasicIterator begin', bind={'TBasicIterator': 'const OSMObject*'})

SETDIFF_CONTRACT = [
    ('pre:iterator positioned on an element', 'requires', 'SEQ_REQ && ghost_i < ghost_len && __CPROVER_is_fresh(self, sizeof(*self)) && WF_REQ(self, ghost_i)'),
    ('post:current version', 'ensures', 'self->m_diff.m_curr == ghost_arr + ghost_i'),
    ('post:previous version of the same object, or itself at the start of an object', 'ensures',
     'self->m_diff.m_prev == ((ghost_i > 0 && SAME(ghost_arr + ghost_i - 1, ghost_arr + ghost_i)) ? ghost_arr + ghost_i - 1 : ghost_arr + ghost_i)'),
    ('post:next version of the same object, or itself at the end of an object', 'ensures',
     'self->m_diff.m_next == ((ghost_i + 1 < ghost_len && SAME(ghost_arr + ghost_i + 1, ghost_arr + ghost_i)) ? ghost_arr + ghost_i + 1 : ghost_arr + ghost_i)'),
    ('post:position unchanged', 'ensures', 'WF(self, ghost_i)'),
    ('frame', 'assigns', 'self->m_diff'),
]
PIPELINES.append(Pipeline('U3_DiffIterator_set_diff', units=[U_otype, U_oid, U_dctor, U_setdiff], prelude=lambda repo: prelude_diff(repo),
                          contracts={'DiffIterator_set_diff': SETDIFF_CONTRACT}, enforce='DiffIterator_set_diff',
                          harness=MAKE + 'void harness(void) { struct DiffIterator* it; DiffIterator_set_diff(it); __CPROVER_assert(0, "canary"); }',
                          replay=('c20_dispatch', None),
                          note='any sequence of 1..1000 objects with arbitrary (type,id,version) at any position; asserts of the DiffObject constructor are obligations'))
PIPELINES.append(Pipeline('U3_DiffIterator_increment', units=[U_inc], prelude=lambda repo: prelude_diff(repo),
                          contracts={'DiffIterator_inc': [
                              ('pre', 'requires', 'SEQ_REQ && ghost_i < ghost_len && __CPROVER_is_fresh(self, sizeof(*self)) && WF_REQ(self, ghost_i)'),
                              ('post:advances by exactly one element', 'ensures', 'WF(self, ghost_i + 1)'),
                              ('frame', 'assigns', 'self->m_prev, self->m_curr, self->m_next')]}, enforce='DiffIterator_inc',
                          harness='void harness(void) { struct DiffIterator* it; DiffIterator_inc(it); __CPROVER_assert(0, "canary"); }',
                          replay=('c20_dispatch', None)))
PIPELINES.append(Pipeline('U3_DiffIterator_ctor', units=[U_ctor], prelude=lambda repo: prelude_diff(repo),
                          contracts={'DiffIterator_ctor': [
                              ('pre', 'requires', 'ghost_len <= 1000 && __CPROVER_is_fresh(ghost_arr, (ghost_len + 1) * sizeof(OSMObject)) && __CPROVER_is_fresh(self, sizeof(*self)) && '
                               '__CPROVER_pointer_equals(begin, ghost_arr) && __CPROVER_pointer_equals(end, ghost_arr + ghost_len)'),
                              ('post:positioned on the first element (or at end when empty)', 'ensures', 'WF(self, 0)'),
                              ('frame', 'assigns', 'self->m_prev, self->m_curr, self->m_next, self->m_end')]}, enforce='DiffIterator_ctor',
                          harness='void harness(void) { struct DiffIterator* it; const OSMObject *b, *e; DiffIterator_ctor(it, b, e); __CPROVER_assert(0, "canary"); }',
                          replay=('c20_dispatch', None)))

TRUSTED = ['order of pack expansion in apply() over several handlers (C++ language rule)', 'virtual dispatch of DynamicHandler, lambda overload sets (C++ overload resolution)']
ASSUMPTIONS = ['DiffIterator is instantiated with a contiguous sequence (TBasicIterator := const OSMObject*); sequences of at most 1000 elements (object-size bound; no loop depends on it)']
NOT_DECIDED = ['DynamicHandler virtual dispatch', 'function objects wrapped as handlers (overload resolution)', 'flush() call at the end of apply()',
               'ItemIterator type filtering']
LEVEL_TEXT = ('Proof, complete: each of the five apply_item_impl overloads is extracted and shown, for all 2^16 item type values, to make exactly the '
              'callback sequence the property states (osm_object then the type-specific callback for node/way/relation/area; exactly the own callback for '
              'changesets and sub-items; nothing or unknown_type otherwise). DiffIterator: constructor, increment and set_diff are verified against a '
              'representation invariant over a ghost sequence of any length up to 1000 with arbitrary contents: each position is visited once, prev/next '
              'are the neighbouring versions of the same (type,id) or the object itself at the boundaries, which is exactly when first()/last() are true; '
              'the asserts of the DiffObject constructor are proof obligations.')
LEVEL_NOTE = ('Trusted: CBMC, extraction rules; the rule turning std::forward<THandler>(handler).cb(item) into a ghost log entry; C++ pack expansion order and '
              'overload resolution. Not decided: DynamicHandler, wrapped function objects, flush(), ItemIterator.')
