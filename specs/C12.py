"""C12 - all id-to-value index implementations behave as one mathematical map (in-memory kernels)."""
from cv import Pipeline, Unit
from cx import ExtractError
import cx, re

PROPERTY = 'C12'
LEVEL = 'proof'
VM = 'include/osmium/index/detail/vector_map.hpp'
FM = 'include/osmium/index/map/flex_mem.hpp'
PIPELINES = []

COMMON = '''
typedef uint64_t TId; typedef uint64_t TValue;
TValue ghost_empty;                 /* the empty value of the value type (osmium::index::empty_value<TValue>()), symbolic */
#define VERIF_EMPTY_VALUE ghost_empty
#define EXC_not_found_ EXC_not_found
uint64_t ghost_q;                   /* ghost: an arbitrary id at which the abstract map is observed */
size_t ghost_g;
'''
EMPTY_RULE = [(r'osmium::index::empty_value<TValue>\(\)', 'VERIF_EMPTY_VALUE')]

# ------------------------------------------------------------------------------------------------ dense vector map
DENSE_MODEL = COMMON + '''
/* the vector type TVector<TValue> (std::vector or mmap_vector): array + size; resize value-initialises new slots with the empty value
   (std::vector<Location> does; mmap_vector_base::resize fills explicitly) - assumed contract */
struct vvec_val { TValue* data; size_t size; };
struct VectorBasedDenseMap { struct vvec_val m_vector; };
void vvec_val_resize(struct vvec_val* v, size_t n)
  __CPROVER_requires(__CPROVER_rw_ok(v, sizeof(*v)) && n >= v->size && n <= (1u << 24) && (v->size == 0 || __CPROVER_r_ok(v->data, v->size * sizeof(TValue))))
  __CPROVER_assigns(v->data, v->size)
  __CPROVER_ensures(v->size == n && __CPROVER_is_fresh(v->data, n * sizeof(TValue)) &&
                    (ghost_g >= n || v->data[ghost_g] == (ghost_g < __CPROVER_old(v->size) ? __CPROVER_old(v->data)[ghost_g] : ghost_empty)));
/* abstract view of the dense map at id q */
#define DVIEW(s, q) ((q) < (s)->m_vector.size ? (s)->m_vector.data[q] : ghost_empty)
#define DENSE_OK(s) (__CPROVER_is_fresh(s, sizeof(*(s))) && (s)->m_vector.size <= (1u << 24) && ((s)->m_vector.size == 0 || __CPROVER_is_fresh((s)->m_vector.data, (s)->m_vector.size * sizeof(TValue))))
'''
DRULES = EMPTY_RULE + [(r'm_vector\.resize\(', 'vvec_val_resize(&m_vector, '), (r'm_vector\[id\]', 'm_vector.data[id]'), (r'm_vector\.size\(\)', 'm_vector.size')]
U_dsize = Unit(VM, 'size', cls='VectorBasedDenseMap', pre=DRULES[3:], selftype='const struct VectorBasedDenseMap')
U_dset = Unit(VM, 'set', cls='VectorBasedDenseMap', pre=DRULES[1:3])
U_dget = Unit(VM, 'get', cls='VectorBasedDenseMap', pre=DRULES[0:1] + DRULES[2:], sig=r'get\(const TId id\) const', selftype='const struct VectorBasedDenseMap')
U_dgetn = Unit(VM, 'get_noexcept', cls='VectorBasedDenseMap', pre=DRULES[0:1] + DRULES[2:], selftype='const struct VectorBasedDenseMap')
PIPELINES.append(Pipeline('U1_dense_set', units=[U_dsize, U_dset], prelude=DENSE_MODEL, contracts={'VectorBasedDenseMap_set': [
    ('pre', 'requires', 'DENSE_OK(self) && id < (1u << 24) - 1 && ghost_g == ghost_q'),
    ('post:map update: the new value at id, every other id as before', 'ensures',
     'DVIEW(self, ghost_q) == (ghost_q == id ? value : (ghost_q < __CPROVER_old(self->m_vector.size) ? __CPROVER_old(self->m_vector.data)[ghost_q] : ghost_empty)) || ghost_q >= (1u << 24)'),
    ('frame', 'assigns', 'self->m_vector.data, self->m_vector.size'), ('frame:slots', 'assigns', 'self->m_vector.size != 0: __CPROVER_object_whole(self->m_vector.data)')]},
    replace=['vvec_val_resize'], enforce='VectorBasedDenseMap_set',
    harness='void harness(void) { struct VectorBasedDenseMap* m; TId id; TValue v; VectorBasedDenseMap_set(m, id, v); __CPROVER_assert(0, "canary"); }',
    replay=('c12_index', lambda cex, o: ['search'])))
for nm, u, throws in (('get', U_dget, True), ('get_noexcept', U_dgetn, False)):
    PIPELINES.append(Pipeline('U1_dense_' + nm, units=[u], prelude=DENSE_MODEL, contracts={u.cname: [
        ('pre', 'requires', 'verif_exc == 0 && DENSE_OK(self)'),
        ('post:lookup returns exactly the stored value' + (', not_found for ids never set' if throws else ', the empty value for ids never set'), 'ensures',
         ('(verif_exc == 0) == (DVIEW(self, id) != ghost_empty) && (verif_exc == 0 || verif_exc == EXC_not_found) && (verif_exc != 0 || __CPROVER_return_value == DVIEW(self, id))') if throws
         else '__CPROVER_return_value == DVIEW(self, id)'),
        ('frame', 'assigns', 'verif_exc' if throws else '')]}, enforce=u.cname,
        harness='void harness(void) { struct VectorBasedDenseMap* m; TId id; %s(m, id); __CPROVER_assert(0, "canary"); }' % u.cname,
        replay=('c12_index', lambda cex, o: ['search'])))

# ------------------------------------------------------------------------------------------------ FlexMem
def flex_model(repo):
    src = cx.preprocess(cx.strip_comments(open(repo + '/' + FM).read()))
    got = [m[1] for m in cx.extract_members(src, 'FlexMem')]
    if got != ['m_sparse_entries', 'm_dense_blocks', 'm_max_id', 'm_dense']:
        raise ExtractError('FlexMem data members changed: %s' % got)
    consts = ''
    for nm in ('bits', 'min_dense_entries', 'density_factor'):
        m = re.search(r'\b' + nm + r'\s*=\s*([^,}\n]+)', src)
        if not m:
            raise ExtractError('FlexMem::%s not found' % nm)
        consts += '#define %s (%s)\n' % (nm, m.group(1).strip())
    m = re.search(r'\bblock_size\s*=\s*([^,}\n]+)', src)
    consts += '#define block_size (%s)\n' % m.group(1).strip()
    return COMMON + consts + '''
/* FlexMem keeps (id,value) pairs in m_sparse_entries (sparse mode) or values in m_dense_blocks (dense mode). The containers are abstracted by
   what they hold for the observed id ghost_q (assumed contracts of emplace_back / the dense store; switch_to_dense has its own pipeline) */
struct sparse_vec { size_t size; TValue at_q; };      /* at_q: value of the entry with id ghost_q, or empty if there is none */
struct dense_blk { size_t nblocks; TValue at_q; };
struct FlexMem { struct sparse_vec m_sparse_entries; struct dense_blk m_dense_blocks; uint64_t m_max_id; bool m_dense; };
#define FVIEW(s) ((s)->m_dense ? (s)->m_dense_blocks.at_q : (s)->m_sparse_entries.at_q)
void sparse_emplace_back(struct sparse_vec* v, uint64_t id, TValue value)
  __CPROVER_requires(__CPROVER_rw_ok(v, sizeof(*v)) && v->size < (1ULL << 40)) __CPROVER_assigns(v->size, v->at_q)
  __CPROVER_ensures(v->size == __CPROVER_old(v->size) + 1 && v->at_q == (id == ghost_q ? value : __CPROVER_old(v->at_q)));
struct FlexMem;
void FlexMem_set_dense(struct FlexMem* self, uint64_t id, TValue value)
  __CPROVER_requires(__CPROVER_rw_ok(self, sizeof(*self))) __CPROVER_assigns(self->m_dense_blocks.nblocks, self->m_dense_blocks.at_q)
  __CPROVER_ensures(self->m_dense_blocks.at_q == (id == ghost_q ? value : __CPROVER_old(self->m_dense_blocks.at_q)));
TValue FlexMem_get_dense(const struct FlexMem* self, uint64_t id)
  __CPROVER_requires(__CPROVER_r_ok(self, sizeof(*self))) __CPROVER_assigns() __CPROVER_ensures(id != ghost_q || __CPROVER_return_value == self->m_dense_blocks.at_q);
TValue FlexMem_get_sparse(const struct FlexMem* self, uint64_t id)
  __CPROVER_requires(__CPROVER_r_ok(self, sizeof(*self))) __CPROVER_assigns() __CPROVER_ensures(id != ghost_q || __CPROVER_return_value == self->m_sparse_entries.at_q);
/* switch_to_dense: every sparse entry is stored densely, the sparse list is emptied (loop over the entries: its own pipeline) */
void FlexMem_switch_to_dense(struct FlexMem* self)
  __CPROVER_requires(__CPROVER_rw_ok(self, sizeof(*self)))
  __CPROVER_assigns(self->m_sparse_entries.size, self->m_sparse_entries.at_q, self->m_dense_blocks.nblocks, self->m_dense_blocks.at_q, self->m_max_id, self->m_dense)
  __CPROVER_ensures(self->m_dense && self->m_sparse_entries.size == 0 && self->m_sparse_entries.at_q == ghost_empty &&
     self->m_dense_blocks.at_q == (__CPROVER_old(self->m_dense) ? __CPROVER_old(self->m_dense_blocks.at_q) :
                                   (__CPROVER_old(self->m_sparse_entries.at_q) != ghost_empty ? __CPROVER_old(self->m_sparse_entries.at_q) : __CPROVER_old(self->m_dense_blocks.at_q))));
'''


FRULES = [(r'm_sparse_entries\.emplace_back\(', 'sparse_emplace_back(&m_sparse_entries, '), (r'm_sparse_entries\.size\(\)', 'm_sparse_entries.size')]
FSTUBS = {'set_dense': 'FlexMem_set_dense', 'get_dense': 'FlexMem_get_dense', 'get_sparse': 'FlexMem_get_sparse', 'switch_to_dense': 'FlexMem_switch_to_dense'}
U_fss = Unit(FM, 'set_sparse', cls='FlexMem', pre=FRULES, stub_siblings=FSTUBS)
U_fset = Unit(FM, 'set', cls='FlexMem', sig=r'set\(const TId id', stub_siblings=FSTUBS)
U_fgetn = Unit(FM, 'get_noexcept', cls='FlexMem', stub_siblings=FSTUBS, selftype='const struct FlexMem')
U_fget = Unit(FM, 'get', cls='FlexMem', sig=r'get\(const TId id\) const', pre=EMPTY_RULE, selftype='const struct FlexMem', stub_siblings={'get_noexcept': 'FlexMem_get_noexcept'})
FREP = ['sparse_emplace_back', 'FlexMem_set_dense', 'FlexMem_get_dense', 'FlexMem_get_sparse', 'FlexMem_switch_to_dense']
FLEX_REQ = '__CPROVER_is_fresh(self, sizeof(*self)) && self->m_sparse_entries.size < (1ULL << 40)'
SET_POST = ('post:map update in whichever representation is active afterwards: the value at id, every other id as before', 'ensures',
            'FVIEW(self) == (ghost_q == id ? value : __CPROVER_old(FVIEW(self)))')
for nm, units, fn in (('set_sparse', [U_fss], 'FlexMem_set_sparse'), ('set', [U_fss, U_fset], 'FlexMem_set')):
    PIPELINES.append(Pipeline('U5_flex_' + nm, units=units, prelude=flex_model, contracts={fn: [
        ('pre' + (':sparse mode; a dense store may already hold values only after an explicit switch' if nm == 'set_sparse' else ''), 'requires',
         FLEX_REQ + (' && !self->m_dense && self->m_dense_blocks.at_q == ghost_empty' if nm == 'set_sparse' else ' && (self->m_dense || self->m_dense_blocks.at_q == ghost_empty)') + ' && value != ghost_empty'),
        ('post:map update in whichever representation is active afterwards: the value at id, every other id as before', 'ensures',
         'FVIEW(self) == (ghost_q == id ? value : (__CPROVER_old(self->m_dense) ? __CPROVER_old(self->m_dense_blocks.at_q) : __CPROVER_old(self->m_sparse_entries.at_q)))'),
        ('frame', 'assigns', 'self->m_sparse_entries.size, self->m_sparse_entries.at_q, self->m_dense_blocks.nblocks, self->m_dense_blocks.at_q, self->m_max_id, self->m_dense')]},
        replace=FREP, enforce=fn,
        harness='void harness(void) { struct FlexMem* m; uint64_t id; TValue v; %s(m, id, v); __CPROVER_assert(0, "canary"); }' % fn,
        replay=('c12_index', lambda cex, o: ['flex']),
        note='includes the call in which the index switches itself from sparse to dense'))
PIPELINES.append(Pipeline('U5_flex_get_noexcept', units=[U_fgetn], prelude=flex_model, contracts={'FlexMem_get_noexcept': [
    ('pre', 'requires', FLEX_REQ), ('post:consults the representation that is active', 'ensures', 'id != ghost_q || __CPROVER_return_value == FVIEW(self)'), ('frame', 'assigns', '')]},
    replace=FREP, enforce='FlexMem_get_noexcept', harness='void harness(void) { struct FlexMem* m; TId id; FlexMem_get_noexcept(m, id); __CPROVER_assert(0, "canary"); }',
    replay=('c12_index', lambda cex, o: ['flex'])))
PIPELINES.append(Pipeline('U5_flex_get', units=[U_fget], prelude=lambda repo: flex_model(repo) + '''
TValue FlexMem_get_noexcept(const struct FlexMem* self, TId id) __CPROVER_requires(__CPROVER_r_ok(self, sizeof(*self))) __CPROVER_assigns() __CPROVER_ensures(id != ghost_q || __CPROVER_return_value == FVIEW(self));
''', contracts={'FlexMem_get': [
    ('pre', 'requires', 'verif_exc == 0 && ' + FLEX_REQ + ' && id == ghost_q'),
    ('post:the stored value, or not_found for ids never set', 'ensures', '(verif_exc == 0) == (FVIEW(self) != ghost_empty) && (verif_exc == 0 || verif_exc == EXC_not_found) && (verif_exc != 0 || __CPROVER_return_value == FVIEW(self))'),
    ('frame', 'assigns', 'verif_exc')]}, replace=['FlexMem_get_noexcept'], enforce='FlexMem_get',
    harness='void harness(void) { struct FlexMem* m; TId id; FlexMem_get(m, id); __CPROVER_assert(0, "canary"); }', replay=('c12_index', lambda cex, o: ['flex'])))
# block/offset split of the dense store
U_fblock = Unit(FM, 'block', cls='FlexMem', method=False)
U_foff = Unit(FM, 'offset', cls='FlexMem', method=False)
PIPELINES.append(Pipeline('U5_flex_block_offset', units=[U_fblock, U_foff], prelude=flex_model, harness='''
void harness(void) { uint64_t a, b;
  __CPROVER_assert(FlexMem_offset(a) < block_size, "U5 offset lies inside the block");
  __CPROVER_assert(FlexMem_block(a) * block_size + FlexMem_offset(a) == a, "U5 the id is recovered from block and offset");
  __CPROVER_assert(a == b || FlexMem_block(a) != FlexMem_block(b) || FlexMem_offset(a) != FlexMem_offset(b), "U5 distinct ids get distinct slots");
  __CPROVER_assert(0, "canary"); }''', replay=('c12_index', lambda cex, o: ['flex'])))

# ---- sparse maps (VectorBasedSparseMap): lookup on the sorted vector of (id, value) pairs ------------------------------------------------------
SPARSE_PRELUDE = '''
typedef uint64_t TId; typedef uint64_t TValue;
#define VERIF_EMPTY_VALUE ((TValue)0)
struct element_type { TId first; TValue second; };
typedef struct element_type element_type;
struct vvec_pair { element_type* data; size_t size; };
struct VectorBasedSparseMap { struct vvec_pair m_vector; };
size_t ghost_lb;   /* ghost: the position std::lower_bound returns */
size_t ghost_g;    /* ghost: an arbitrary position of the vector at which the map is observed */
/* find_id(id) = std::lower_bound over the ids (assumed contract, C++ standard, for a vector sorted by id): the first position whose id is not less than id */
const element_type* VectorBasedSparseMap_find_id(const struct VectorBasedSparseMap* self, TId id)
__CPROVER_requires(__CPROVER_r_ok(self, sizeof(*self)) && ghost_lb <= self->m_vector.size)
__CPROVER_assigns()
__CPROVER_ensures(__CPROVER_pointer_equals(__CPROVER_return_value, self->m_vector.data + ghost_lb));
/* what "sorted by id, ids distinct" says about the lower bound position and the observed position */
#define SORTED_AT(s, id) ((ghost_lb >= (s)->m_vector.size || (s)->m_vector.data[ghost_lb].first >= (id)) && (ghost_lb == 0 || (s)->m_vector.data[ghost_lb - 1].first < (id)) && \\
   (ghost_g >= (s)->m_vector.size || ((ghost_g < ghost_lb ? (s)->m_vector.data[ghost_g].first <= (s)->m_vector.data[ghost_lb - 1].first : 1) && \\
                                      (ghost_g > ghost_lb && ghost_lb < (s)->m_vector.size ? (s)->m_vector.data[ghost_g].first > (s)->m_vector.data[ghost_lb].first : 1))))
'''
SP_PRE = [(r'm_vector\.end\(\)', '(m_vector.data + m_vector.size)'), (r'osmium::index::empty_value<TValue>\(\)', 'VERIF_EMPTY_VALUE', '?'), (r'throw osmium::not_found\{id\};', 'throw osmium::not_found{};', '?')]
SP_REQ = ('verif_exc == 0 && __CPROVER_is_fresh(self, sizeof(*self)) && self->m_vector.size <= 1000000 && __CPROVER_is_fresh(self->m_vector.data, (self->m_vector.size + 1) * sizeof(element_type)) && '
          'ghost_lb <= self->m_vector.size && SORTED_AT(self, id)')
for nm, noexc in (('get', False), ('get_noexcept', True)):
    u = Unit(VM, nm, cls='VectorBasedSparseMap', selftype='const struct VectorBasedSparseMap', nth=0, pre=SP_PRE, stub_siblings={'find_id': 'VectorBasedSparseMap_find_id'}, ret='TValue', params=['const TId id'])
    found = '(ghost_g < self->m_vector.size && self->m_vector.data[ghost_g].first == id)'
    missing = '(verif_exc == EXC_not_found)' if not noexc else '(__CPROVER_return_value == VERIF_EMPTY_VALUE)'
    PIPELINES.append(Pipeline('U6_sparse_' + nm, units=[u], prelude=SPARSE_PRELUDE, contracts={'VectorBasedSparseMap_' + nm: [
        ('pre:a vector sorted by id with distinct ids (sort() has been called), observed at an arbitrary position', 'requires', SP_REQ),
        ('post:an id that is in the map is found and its own value is returned', 'ensures', '!%s || (verif_exc == 0 && __CPROVER_return_value == self->m_vector.data[ghost_g].second)' % found),
        ('post:for an id that is not in the map the lookup reports "not found" - it never returns the value of a neighbouring id', 'ensures',
         '(ghost_lb < self->m_vector.size && self->m_vector.data[ghost_lb].first == id) || ' + missing),
        ('post:exception class', 'ensures', 'verif_exc == 0' if noexc else 'verif_exc == 0 || verif_exc == EXC_not_found'),
        ('frame', 'assigns', '' if noexc else 'verif_exc')]},
        replace=['VectorBasedSparseMap_find_id'], enforce='VectorBasedSparseMap_' + nm,
        harness='void harness(void) { const struct VectorBasedSparseMap* m; TId id; VectorBasedSparseMap_%s(m, id); __CPROVER_assert(0, "canary"); }' % nm,
        replay=('c12_index', lambda cex, o: ['search']), note='relative to the std::lower_bound contract; ids and values 64-bit; any vector length up to 10^6'))

# ---- mmap_vector_base (DenseMmapArray / DenseFileArray): growth keeps what is there and fills what is new with the empty value -------------------------
MMV = 'include/osmium/index/detail/mmap_vector_base.hpp'
MMV_PRELUDE = '''
typedef uint64_t T; typedef T value_type;
#define VERIF_EMPTY_VALUE_NZ ((T)0x7fffffff7fffffffULL)   /* empty_value<Location>() is the undefined location, NOT zero bytes: fresh pages of a mapping must be filled */
struct TypedMemoryMapping { T* ptr; size_t n; };
struct mmap_vector_base { size_t m_size; struct TypedMemoryMapping m_mapping; };
size_t ghost_g; T ghost_v;   /* ghost: an arbitrary element position and the value stored there before the operation */
size_t ghost_k;              /* ghost: an arbitrary position of the range handed to std::fill */
/* TypedMemoryMapping::resize (mremap / ftruncate + mmap): the mapping may move; old elements keep their values, NEW elements hold whatever the kernel or the file provides */
void Mapping_resize(struct TypedMemoryMapping* m, size_t new_n) __CPROVER_requires(__CPROVER_rw_ok(m, sizeof(*m)) && new_n >= m->n && new_n <= (1u << 27) && (ghost_g >= m->n || m->ptr[ghost_g] == ghost_v))
  __CPROVER_assigns(m->ptr, m->n) __CPROVER_ensures(m->n == new_n && __CPROVER_is_fresh(m->ptr, new_n * sizeof(T)) && (ghost_g >= __CPROVER_old(m->n) || m->ptr[ghost_g] == ghost_v));
/* std::fill (C++ standard), stated for the observed position of the range */
void verif_fill(T* first, T* last, T v) __CPROVER_requires(__CPROVER_same_object(first, last) && first <= last && __CPROVER_rw_ok(first, (size_t)(last - first) * sizeof(T)))
  __CPROVER_assigns(__CPROVER_object_upto(first, (size_t)(last - first) * sizeof(T))) __CPROVER_ensures(ghost_k >= (size_t)(last - first) || first[ghost_k] == v);
'''
U_mcap = Unit(MMV, 'capacity', cls='mmap_vector_base', selftype='const struct mmap_vector_base', pre=[(r'm_mapping\.size\(\)', 'm_mapping.n')])
U_mdata = Unit(MMV, 'data', cls='mmap_vector_base', sig=r'pointer data\(\)', nth=1, ret='T*', pre=[(r'm_mapping\.begin\(\)', 'm_mapping.ptr')])
U_mres = Unit(MMV, 'reserve', cls='mmap_vector_base',
              pre=[(r'm_mapping\.resize\(new_capacity\);', 'Mapping_resize(&m_mapping, new_capacity);'), (r'std::fill\(', 'verif_fill('), (r'osmium::index::empty_value<value_type>\(\)', 'VERIF_EMPTY_VALUE_NZ')])
PIPELINES.append(Pipeline('U7_mmap_vector_reserve', units=[U_mcap, U_mdata, U_mres], prelude=MMV_PRELUDE, contracts={'mmap_vector_base_reserve': [
    ('pre:a mapping of any size; one element before and one position after the old end are observed', 'requires',
     '__CPROVER_is_fresh(self, sizeof(*self)) && self->m_mapping.n >= 1 && self->m_mapping.n <= (1u << 26) && new_capacity <= (1u << 27) && __CPROVER_is_fresh(self->m_mapping.ptr, self->m_mapping.n * sizeof(T)) && '
     'self->m_size <= self->m_mapping.n && (ghost_g >= self->m_mapping.n || self->m_mapping.ptr[ghost_g] == ghost_v) && ghost_k < (1u << 27)'),
    ('post:the capacity is at least what was asked for and never shrinks; the size is untouched', 'ensures',
     'self->m_mapping.n >= new_capacity && self->m_mapping.n >= __CPROVER_old(self->m_mapping.n) && self->m_size == __CPROVER_old(self->m_size)'),
    ('post:every element that was there keeps its value', 'ensures', 'ghost_g >= __CPROVER_old(self->m_mapping.n) || self->m_mapping.ptr[ghost_g] == ghost_v'),
    ('post:every new element holds the empty value (ids in the grown region that were never set must read as "not found", in memory and in the backing file)', 'ensures',
     '__CPROVER_old(self->m_mapping.n) + ghost_k >= self->m_mapping.n || self->m_mapping.ptr[__CPROVER_old(self->m_mapping.n) + ghost_k] == VERIF_EMPTY_VALUE_NZ'),
    ('frame', 'assigns', 'self->m_mapping.ptr, self->m_mapping.n, __CPROVER_object_whole(self->m_mapping.ptr)')]},
    replace=['Mapping_resize', 'verif_fill'], enforce='mmap_vector_base_reserve',
    harness='void harness(void) { struct mmap_vector_base* v; size_t n; mmap_vector_base_reserve(v, n); __CPROVER_assert(0, "canary"); }', noflags=['--conversion-check'],
    replay=('c12_index', lambda cex, o: ['mmapgrow']), note='element type 64 bit; relative to contracts of the memory mapping and std::fill'))

TRUSTED = ['std::vector / mmap_vector resize fills new slots with the empty value', 'std::lower_bound on a sorted vector', 'emplace_back / the dense block store as abstracted by the ghost view (assumed contracts)']
ASSUMPTIONS = ['dense vector maps of at most 2^24 slots in the model (object-size bound; no loop depends on it)']
NOT_DECIDED = ['file-backed persistence, real mremap', 'switch_to_dense loop body, assure_block', 'NodeLocationsForWays', 'dump_as_array']
LEVEL_TEXT = ('Proof for the in-memory kernels: VectorBasedDenseMap set/get/get_noexcept against the abstract map observed at an arbitrary id (set updates exactly one id, lookups return '
              'exactly the stored value and report never-set ids as not found / empty); FlexMem set_sparse/set/get/get_noexcept against an abstract view that follows the active '
              'representation, including the call in which the index switches itself from sparse to dense; the block/offset split of the dense store is injective. mmap_vector_base::reserve (DenseMmapArray, DenseFileArray) keeps every element and fills every new one with the empty value, relative to contracts of the mapping and std::fill. VectorBasedSparseMap get/get_noexcept on the sorted pair vector, relative to the std::lower_bound contract: '
              'an id that is in the map is found and gets its own value, any other id is reported as not found (never the value of a neighbour).')
LEVEL_NOTE = ('Trusted: CBMC, extraction rules; containers are abstracted (array+size for the dense vector with an assumed resize contract; for FlexMem the containers are observed only at a ghost id through '
              'assumed contracts of emplace_back, set_dense/get_dense/get_sparse and switch_to_dense). Not decided: persistence, mremap, std::sort/std::lower_bound themselves, dump_as_array, switch_to_dense body, NodeLocationsForWays.')
