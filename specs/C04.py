"""C04 - buffers and builders keep objects intact across growth, commit, rollback, purge."""
from cv import Pipeline, Unit
from cx import ExtractError
import cx, re

PROPERTY = 'C04'
LEVEL = 'proof'
BUF = 'include/osmium/memory/buffer.hpp'
ITEM = 'include/osmium/memory/item.hpp'
BLD = 'include/osmium/builder/builder.hpp'
OOB = 'include/osmium/builder/osm_object_builder.hpp'
PIPELINES = []


def buf_prelude(repo):
    return ('#define EXC_buffer_is_full_ EXC_buffer_is_full\n' + cx.extract_anon_enum_const(repo, ITEM, 'align_bytes') + cx.extract_enum(repo, BUF, 'auto_grow')
            + cx.members_struct(repo, [(BUF, 'Buffer')], 'Buffer', typemap={'std::unique_ptr<Buffer>': 'struct Buffer*', 'std::unique_ptr<unsigned char[]>': 'unsigned char*'})
            + '''
size_t ghost_g;     /* ghost: an arbitrary byte position */
/* representation invariant of a valid buffer */
#define WF(b) ((b)->m_committed <= (b)->m_written && (b)->m_written <= (b)->m_capacity && (b)->m_capacity % 8 == 0 && (b)->m_capacity >= 8 && (b)->m_capacity <= (1u << 30))
/* a valid buffer owning (m_memory == m_data) or borrowing (m_memory == NULL) its memory */
#define BUF_REQ(b) (__CPROVER_is_fresh(b, sizeof(*(b))) && WF(b) && __CPROVER_is_fresh((b)->m_data, (b)->m_capacity) && \\
   ((b)->m_memory == 0 || __CPROVER_pointer_equals((b)->m_memory, (b)->m_data)) && \\
   ((b)->m_auto_grow == auto_grow_no || (b)->m_auto_grow == auto_grow_yes || (b)->m_auto_grow == auto_grow_internal))
''')


U_pad = Unit(ITEM, 'padded_length')
U_cap = Unit(BUF, 'calculate_capacity', cls='Buffer', method=False, cname='calculate_capacity')
PIPELINES.append(Pipeline('U1_padded_length', units=[U_pad], prelude=lambda repo: cx.extract_anon_enum_const(repo, ITEM, 'align_bytes'), contracts={'padded_length': [
    ('pre', 'requires', 'length <= SIZE_MAX - 7'),
    ('post:smallest multiple of 8 not below the length', 'ensures', '__CPROVER_return_value % 8 == 0 && __CPROVER_return_value >= length && __CPROVER_return_value - length < 8'),
    ('frame', 'assigns', '')]}, enforce='padded_length', harness='void harness(void) { size_t n; padded_length(n); __CPROVER_assert(0, "canary"); }',
    flags=['--bounds-check', '--pointer-check', '--unsigned-overflow-check'] if False else None, replay=('c04_buffer', lambda cex, o: ['search'])))
PIPELINES.append(Pipeline('U1_calculate_capacity', units=[U_pad, U_cap], prelude=lambda repo: cx.extract_anon_enum_const(repo, ITEM, 'align_bytes'), contracts={'calculate_capacity': [
    ('pre', 'requires', 'capacity <= SIZE_MAX - 7'),
    ('post:at least 64, aligned, minimal', 'ensures', '__CPROVER_return_value % 8 == 0 && __CPROVER_return_value >= 64 && __CPROVER_return_value >= capacity && (capacity < 64 ? __CPROVER_return_value == 64 : __CPROVER_return_value - capacity < 8)'),
    ('frame', 'assigns', '')]}, enforce='calculate_capacity', harness='void harness(void) { size_t n; calculate_capacity(n); __CPROVER_assert(0, "canary"); }',
    replay=('c04_buffer', lambda cex, o: ['search'])))

# ---- commit / rollback / clear: whole-state postconditions -----------------------------------------------------------------------------
U_aligned = Unit(BUF, 'is_aligned', cls='Buffer', selftype='const struct Buffer')
U_commit = Unit(BUF, 'commit', cls='Buffer')
U_rollback = Unit(BUF, 'rollback', cls='Buffer')
U_clear = Unit(BUF, 'clear', cls='Buffer')
UNCHANGED = 'self->m_data == __CPROVER_old(self->m_data) && self->m_capacity == __CPROVER_old(self->m_capacity) && self->m_memory == __CPROVER_old(self->m_memory) && self->m_next_buffer == __CPROVER_old(self->m_next_buffer)'
PIPELINES.append(Pipeline('U5_commit', units=[U_aligned, U_commit], prelude=buf_prelude, contracts={'Buffer_commit': [
    ('pre', 'requires', 'BUF_REQ(self) && self->m_builder_count == 0 && self->m_written % 8 == 0 && self->m_committed % 8 == 0'),
    ('post:everything written becomes committed; returns the offset of the newly committed data', 'ensures',
     'self->m_committed == self->m_written && self->m_written == __CPROVER_old(self->m_written) && __CPROVER_return_value == __CPROVER_old(self->m_committed) && ' + UNCHANGED),
    ('frame', 'assigns', 'self->m_committed')]}, enforce='Buffer_commit',
    harness='void harness(void) { struct Buffer* b; Buffer_commit(b); __CPROVER_assert(0, "canary"); }', replay=('c04_buffer', lambda cex, o: ['search'])))
PIPELINES.append(Pipeline('U5_rollback', units=[U_rollback], prelude=buf_prelude, contracts={'Buffer_rollback': [
    ('pre', 'requires', 'BUF_REQ(self) && self->m_builder_count == 0'),
    ('post:drops only uncommitted data', 'ensures', 'self->m_written == self->m_committed && self->m_committed == __CPROVER_old(self->m_committed) && ' + UNCHANGED),
    ('frame', 'assigns', 'self->m_written')]}, enforce='Buffer_rollback',
    harness='void harness(void) { struct Buffer* b; Buffer_rollback(b); __CPROVER_assert(0, "canary"); }', replay=('c04_buffer', lambda cex, o: ['search'])))
PIPELINES.append(Pipeline('U5_clear', units=[U_clear], prelude=buf_prelude, contracts={'Buffer_clear': [
    ('pre', 'requires', 'BUF_REQ(self) && self->m_builder_count == 0'),
    ('post:empty buffer, returns the number of bytes that were committed', 'ensures', 'self->m_written == 0 && self->m_committed == 0 && __CPROVER_return_value == __CPROVER_old(self->m_committed) && ' + UNCHANGED),
    ('frame', 'assigns', 'self->m_written, self->m_committed')]}, enforce='Buffer_clear',
    harness='void harness(void) { struct Buffer* b; Buffer_clear(b); __CPROVER_assert(0, "canary"); }', replay=('c04_buffer', lambda cex, o: ['search'])))

# ---- reserve_space against the contracts of grow / grow_internal ---------------------------------------------------------------------------
GROW_CONTRACT = '''
/* contracts of the two growth operations as reserve_space relies on them (each is enforced on its own body below) */
void Buffer_grow_internal(struct Buffer* self)
__CPROVER_requires(verif_exc == 0 && WF(self) && self->m_memory != 0 && __CPROVER_rw_ok(self->m_data, self->m_capacity))
__CPROVER_assigns(self->m_next_buffer, self->m_memory, self->m_data, self->m_written, self->m_committed)
__CPROVER_ensures(verif_exc == 0 && self->m_committed == 0 && self->m_written == __CPROVER_old(self->m_written) - __CPROVER_old(self->m_committed) && self->m_capacity == __CPROVER_old(self->m_capacity))
__CPROVER_ensures(__CPROVER_is_fresh(self->m_data, self->m_capacity) && __CPROVER_pointer_equals(self->m_memory, self->m_data))
;
void Buffer_grow(struct Buffer* self, size_t size)
__CPROVER_requires(verif_exc == 0 && WF(self) && self->m_memory != 0 && size <= (1u << 30) && __CPROVER_rw_ok(self->m_data, self->m_capacity))
__CPROVER_assigns(self->m_memory, self->m_data, self->m_capacity)
__CPROVER_ensures(verif_exc == 0 && self->m_capacity >= size && self->m_capacity >= __CPROVER_old(self->m_capacity) && self->m_capacity % 8 == 0 && self->m_capacity <= (1u << 30))
__CPROVER_ensures(__CPROVER_is_fresh(self->m_data, self->m_capacity) && __CPROVER_pointer_equals(self->m_memory, self->m_data))
;
'''
U_reserve = Unit(BUF, 'reserve_space', cls='Buffer', enums=['auto_grow'], stub_siblings={'grow': 'Buffer_grow', 'grow_internal': 'Buffer_grow_internal'})
PIPELINES.append(Pipeline('U2_reserve_space', units=[U_reserve], prelude=lambda repo: buf_prelude(repo) + GROW_CONTRACT, contracts={'Buffer_reserve_space': [
    ('pre', 'requires', 'verif_exc == 0 && BUF_REQ(self) && size <= (1u << 28) && self->m_capacity <= (1u << 28)'),
    ('post:full buffer that may not grow throws buffer_is_full, nothing else does', 'ensures',
     '(verif_exc != 0) == (__CPROVER_old(self->m_written) + size > __CPROVER_old(self->m_capacity) && (__CPROVER_old(self->m_memory) == 0 || __CPROVER_old(self->m_auto_grow) == auto_grow_no))'),
    ('post:exception class', 'ensures', 'verif_exc == 0 || verif_exc == EXC_buffer_is_full'),
    ('post:unchanged on exception', 'ensures', 'verif_exc == 0 || (self->m_written == __CPROVER_old(self->m_written) && self->m_committed == __CPROVER_old(self->m_committed) && self->m_data == __CPROVER_old(self->m_data))'),
    ('post:well-formed, and exactly size bytes more are uncommitted', 'ensures',
     'verif_exc != 0 || (WF(self) && self->m_written - self->m_committed == __CPROVER_old(self->m_written) - __CPROVER_old(self->m_committed) + size)'),
    ('post:returns the start of the reserved range inside the current memory', 'ensures', 'verif_exc != 0 || __CPROVER_return_value == self->m_data + (self->m_written - size)'),
    ('post:committed data moves to a nested buffer only in internal mode', 'ensures',
     'verif_exc != 0 || self->m_committed == __CPROVER_old(self->m_committed) || (__CPROVER_old(self->m_auto_grow) == auto_grow_internal && self->m_committed == 0)'),
    ('frame', 'assigns', 'verif_exc, self->m_next_buffer, self->m_memory, self->m_data, self->m_capacity, self->m_written, self->m_committed')]},
    loops={'Buffer_reserve_space': [['__CPROVER_assigns(new_capacity)',
                                     '__CPROVER_loop_invariant(new_capacity >= self->m_capacity * 2 && new_capacity % 8 == 0 && new_capacity <= (1u << 30) && new_capacity / 2 < self->m_written + size)',
                                     '__CPROVER_decreases((1u << 31) - new_capacity)']]},
    replace=['Buffer_grow', 'Buffer_grow_internal'], maythrow={'Buffer_grow': True, 'Buffer_grow_internal': True}, enforce='Buffer_reserve_space',
    harness='void harness(void) { struct Buffer* b; size_t n; Buffer_reserve_space(b, n); __CPROVER_assert(verif_exc != 0, "canary:normal"); __CPROVER_assert(verif_exc == 0, "canary:throw"); }',
    canaries=['canary:normal', 'canary:throw'], replay=('c04_buffer', lambda cex, o: ['search']),
    note='any capacity up to 2^28, any fill state, any growth mode; the doubling loop is closed by a loop contract'))


# =============================================================================================== builders across relocation
REL = 'include/osmium/osm/relation.hpp'
CHS = 'include/osmium/osm/changeset.hpp'
TS = 'include/osmium/osm/timestamp.hpp'
TYPES = 'include/osmium/osm/types.hpp'


def bld_prelude(derived):
    def f(repo):
        return ('typedef int64_t object_id_type; typedef uint32_t user_id_type; typedef uint16_t string_size_type; typedef uint32_t changeset_comment_size_type;\n'
                'typedef uint32_t item_size_type; typedef uint16_t item_type;\n' + cx.extract_anon_enum_const(repo, ITEM, 'align_bytes')
                + cx.extract_anon_enum_const(repo, TYPES, 'max_osm_string_length')
                + cx.members_struct(repo, [(ITEM, 'Item')], 'Item') + 'typedef struct Item Item;\n'
                + cx.members_struct(repo, [(TS, 'Timestamp')], 'Timestamp') + 'typedef struct Timestamp Timestamp;\n'
                + cx.members_struct(repo, [(REL, 'RelationMember')], 'RelationMember') + 'typedef struct RelationMember RelationMember;\n'
                + cx.members_struct(repo, [(CHS, 'ChangesetComment')], 'ChangesetComment') + 'typedef struct ChangesetComment ChangesetComment;\n'
                + '/* the part of osmium::memory::Buffer the builders see */\nstruct Buffer { unsigned char* m_data; size_t m_capacity; size_t m_written; size_t m_committed; };\n'
                + cx.members_struct(repo, [(BLD, 'Builder')] + ([(OOB, derived)] if derived else []), 'Builder',
                                    typemap={'osmium::memory::Buffer&': 'struct Buffer*', 'Builder*': 'struct Builder*', 'osmium::ChangesetComment*': 'ChangesetComment*'})
                + RELOC)
    return f


RELOC = '''
size_t ghost_n;
#define WFB(b) ((b)->m_committed <= (b)->m_written && (b)->m_written <= (b)->m_capacity && (b)->m_capacity <= (1u << 20) && (b)->m_capacity >= 64)
/* Buffer::reserve_space as the builders may rely on it (its own body is verified in pipeline U2_reserve_space): the memory MAY MOVE.
   When it moves, the written bytes are copied to the new block (observed at the 16-byte ghost window) and the old block is left behind:
   a builder that keeps a pointer into the old block writes into memory nobody reads any more. (Growth mode 'internal', which also
   shifts the uncommitted data to the front, is not part of this model - stated.) */
size_t ghost_keep;   /* ghost: start of a 16-byte window (8-aligned, inside the written part) whose content is observed across a move */
unsigned char* Buffer_reserve_space(struct Buffer* self, size_t size)
__CPROVER_requires(verif_exc == 0 && __CPROVER_rw_ok(self, sizeof(*self)) && WFB(self) && size <= (1u << 17) && __CPROVER_rw_ok(self->m_data, self->m_capacity))
__CPROVER_assigns(verif_exc, self->m_data, self->m_capacity, self->m_written)
__CPROVER_ensures(verif_exc == 0 || verif_exc == EXC_buffer_is_full)
__CPROVER_ensures(verif_exc != 0 || (WFB(self) && self->m_written == __CPROVER_old(self->m_written) + size && self->m_committed == __CPROVER_old(self->m_committed)))
__CPROVER_ensures(verif_exc != 0 || (self->m_data == __CPROVER_old(self->m_data) && self->m_capacity == __CPROVER_old(self->m_capacity)) ||
                   (__CPROVER_is_fresh(self->m_data, self->m_capacity) && self->m_capacity >= __CPROVER_old(self->m_capacity) &&
                    (ghost_keep + 16 > __CPROVER_old(self->m_written) || ((self->m_data)[ghost_keep + 0] == (__CPROVER_old(self->m_data))[ghost_keep + 0] && (self->m_data)[ghost_keep + 1] == (__CPROVER_old(self->m_data))[ghost_keep + 1] && (self->m_data)[ghost_keep + 2] == (__CPROVER_old(self->m_data))[ghost_keep + 2] && (self->m_data)[ghost_keep + 3] == (__CPROVER_old(self->m_data))[ghost_keep + 3] && (self->m_data)[ghost_keep + 4] == (__CPROVER_old(self->m_data))[ghost_keep + 4] && (self->m_data)[ghost_keep + 5] == (__CPROVER_old(self->m_data))[ghost_keep + 5] && (self->m_data)[ghost_keep + 6] == (__CPROVER_old(self->m_data))[ghost_keep + 6] && (self->m_data)[ghost_keep + 7] == (__CPROVER_old(self->m_data))[ghost_keep + 7] && (self->m_data)[ghost_keep + 8] == (__CPROVER_old(self->m_data))[ghost_keep + 8] && (self->m_data)[ghost_keep + 9] == (__CPROVER_old(self->m_data))[ghost_keep + 9] && (self->m_data)[ghost_keep + 10] == (__CPROVER_old(self->m_data))[ghost_keep + 10] && (self->m_data)[ghost_keep + 11] == (__CPROVER_old(self->m_data))[ghost_keep + 11] && (self->m_data)[ghost_keep + 12] == (__CPROVER_old(self->m_data))[ghost_keep + 12] && (self->m_data)[ghost_keep + 13] == (__CPROVER_old(self->m_data))[ghost_keep + 13] && (self->m_data)[ghost_keep + 14] == (__CPROVER_old(self->m_data))[ghost_keep + 14] && (self->m_data)[ghost_keep + 15] == (__CPROVER_old(self->m_data))[ghost_keep + 15]))))
__CPROVER_ensures(verif_exc != 0 || __CPROVER_return_value == self->m_data + (self->m_written - size))
__CPROVER_ensures(verif_exc == 0 || (self->m_data == __CPROVER_old(self->m_data) && self->m_written == __CPROVER_old(self->m_written) && self->m_capacity == __CPROVER_old(self->m_capacity)))
;
unsigned char* copy_n(const unsigned char* src, size_t n, unsigned char* dst) __CPROVER_requires(__CPROVER_r_ok(src, n) && __CPROVER_w_ok(dst, n)) __CPROVER_assigns(__CPROVER_object_upto(dst, n));
unsigned char* fill_n(unsigned char* dst, size_t n, int v) __CPROVER_requires(__CPROVER_w_ok(dst, n)) __CPROVER_assigns(__CPROVER_object_upto(dst, n));
size_t verif_strlen(const char* s) __CPROVER_requires(__CPROVER_r_ok(s, ghost_n + 1) && s[ghost_n] == 0) __CPROVER_assigns() __CPROVER_ensures(__CPROVER_return_value <= ghost_n && s[__CPROVER_return_value] == 0);
/* Builder::add_size: adds to the size field of this builder's item and of every parent item (recursive; the recursive call is taken by this same contract) */
struct Builder;
void Builder_add_size(struct Builder* self, item_size_type size)
__CPROVER_requires(__CPROVER_rw_ok(self, sizeof(*self)) && __CPROVER_rw_ok(self->m_buffer, sizeof(struct Buffer)) && WFB(self->m_buffer) &&
                   self->m_buffer->m_committed + self->m_item_offset + sizeof(Item) <= self->m_buffer->m_written && __CPROVER_rw_ok(self->m_buffer->m_data, self->m_buffer->m_capacity))
__CPROVER_assigns(__CPROVER_object_upto(self->m_buffer->m_data + self->m_buffer->m_committed + self->m_item_offset, sizeof(Item)))
;
unsigned char* Buffer_data(const struct Buffer* b) { return b->m_data; }
size_t Buffer_committed(const struct Buffer* b) { return b->m_committed; }
'''
BOBJ = {'m_buffer': 'Buffer', 'm_parent': 'Builder'}
BPOST = [(r'&self->m_buffer', 'self->m_buffer')]
SB = 'struct Builder'
U_itempos = Unit(BLD, 'item_pos', cls='Builder', objs=BOBJ, post=BPOST, selftype='const struct Builder')
U_item = Unit(BLD, 'item', cls='Builder', selftype='const struct Builder')
U_bres = Unit(BLD, 'reserve_space', cls='Builder', objs=BOBJ, post=BPOST)
U_bsize = Unit(BLD, 'size', cls='Builder', selftype='const struct Builder', pre=[(r'item\(\)\.byte_size\(\)', 'Item_byte_size(&item())')])
U_iaddsz = Unit(ITEM, 'add_size', cls='Item')
U_ibytes = Unit(ITEM, 'byte_size', cls='Item', selftype='const struct Item')
U_baddsz = Unit(BLD, 'add_size', cls='Builder', objs=BOBJ, pre=[(r'item\(\)\.add_size\(size\)', 'Item_add_size(&item(), size)')])
U_bpad = Unit(BLD, 'add_padding', cls='Builder', objs=BOBJ, rename={'self': 'self_flag'}, stub_siblings={'add_size': 'Builder_add_size'})
U_bapp0 = Unit(BLD, 'append_with_zero', cls='Builder')
U_setrole = Unit(REL, 'set_role_size', cls='RelationMember')
U_rmctor = Unit(REL, 'RelationMember', cls='RelationMember', cname='RelationMember_ctor', sig=r'const object_id_type ref')
U_addrole = Unit(OOB, 'add_role', cls='RelationMemberListBuilder', cname='Builder_add_role', selftype=SB, objs={'member': 'RelationMember'}, stub_siblings={'add_size': 'Builder_add_size'},
                 scalar_types=['string_size_type', 'item_size_type'])
U_addmember = Unit(OOB, 'add_member', cls='RelationMemberListBuilder', cname='Builder_add_member', selftype=SB, sig=r'const std::size_t role_length', stub_siblings={'add_size': 'Builder_add_size'},
                   pre=[(r'auto\* member = reserve_space_for<osmium::RelationMember>\(\);', 'RelationMember* member = (RelationMember*)reserve_space(sizeof(RelationMember));'),
                        (r'new \(member\) osmium::RelationMember\{([^}]*)\};', r'RelationMember_ctor(member, \1);'),
                        (r'if \(full_member\) \{\s*add_item\(\*full_member\);\s*\}', '/* full member copy: not part of this unit (precondition full_member == NULL) */')],
                   params=['item_type type', 'object_id_type ref', 'const char* role', 'const size_t role_length', 'const void* full_member'])
BUILDER_CORE = [U_ibytes, U_iaddsz, U_itempos, U_item, U_bres, U_bsize, U_bpad, U_bapp0]
KEEP16 = ' && '.join('self->m_buffer->m_data[ghost_keep + %d] == __CPROVER_old(self->m_buffer->m_data[ghost_keep + %d])' % (k, k) for k in range(16))
# contracts of the Builder operations that the list builders call; each may move the buffer memory (they reserve space);
# what was written before stays where it was relative to the start of the memory (observed at the 16-byte ghost window)
BLD_STUBS = """
#define BLD_OK(b) (__CPROVER_rw_ok(b, sizeof(struct Builder)) && __CPROVER_rw_ok((b)->m_buffer, sizeof(struct Buffer)) && WFB((b)->m_buffer) && __CPROVER_rw_ok((b)->m_buffer->m_data, (b)->m_buffer->m_capacity) && \\
   (b)->m_buffer->m_committed + (b)->m_item_offset + sizeof(Item) <= ghost_keep && ghost_keep + 16 <= (b)->m_buffer->m_written)
#define MOVED_OR_SAME(b) (((b)->m_buffer->m_data == __CPROVER_old((b)->m_buffer->m_data) && (b)->m_buffer->m_capacity == __CPROVER_old((b)->m_buffer->m_capacity)) || \\
   (__CPROVER_is_fresh((b)->m_buffer->m_data, (b)->m_buffer->m_capacity) && (b)->m_buffer->m_capacity >= __CPROVER_old((b)->m_buffer->m_capacity)))
item_size_type Builder_append_with_zero_c(struct Builder* self, const char* data, item_size_type length)
__CPROVER_requires(verif_exc == 0 && BLD_OK(self) && length <= 100000 && __CPROVER_r_ok(data, length))
__CPROVER_assigns(verif_exc, self->m_buffer->m_data, self->m_buffer->m_capacity, self->m_buffer->m_written, __CPROVER_object_from(self->m_buffer->m_data + self->m_buffer->m_written))
__CPROVER_ensures(verif_exc == 0 || verif_exc == EXC_buffer_is_full)
__CPROVER_ensures(verif_exc != 0 || (MOVED_OR_SAME(self) && WFB(self->m_buffer) && self->m_buffer->m_written == __CPROVER_old(self->m_buffer->m_written) + length + 1 && __CPROVER_return_value == length + 1 && (@KEEP16@)))
__CPROVER_ensures(verif_exc == 0 || (self->m_buffer->m_data == __CPROVER_old(self->m_buffer->m_data) && self->m_buffer->m_written == __CPROVER_old(self->m_buffer->m_written)))
;
void Builder_add_padding_c(struct Builder* self, bool self_flag)
__CPROVER_requires(verif_exc == 0 && BLD_OK(self))
__CPROVER_assigns(verif_exc, self->m_buffer->m_data, self->m_buffer->m_capacity, self->m_buffer->m_written, __CPROVER_object_from(self->m_buffer->m_data + self->m_buffer->m_written),
                  __CPROVER_object_upto(self->m_buffer->m_data + self->m_buffer->m_committed + self->m_item_offset, sizeof(Item)))
__CPROVER_ensures(verif_exc == 0 || verif_exc == EXC_buffer_is_full)
__CPROVER_ensures(verif_exc != 0 || (MOVED_OR_SAME(self) && WFB(self->m_buffer) && self->m_buffer->m_written >= __CPROVER_old(self->m_buffer->m_written) && self->m_buffer->m_written - __CPROVER_old(self->m_buffer->m_written) < 8 && (@KEEP16@)))
;
void Builder_add_size_c(struct Builder* self, item_size_type size)
__CPROVER_requires(BLD_OK(self))
__CPROVER_assigns(__CPROVER_object_upto(self->m_buffer->m_data + self->m_buffer->m_committed + self->m_item_offset, sizeof(Item)))
__CPROVER_ensures(1)
;
""".replace('@KEEP16@', KEEP16)
U_addrole2 = Unit(OOB, 'add_role', cls='RelationMemberListBuilder', cname='Builder_add_role', selftype=SB, objs={'member': 'RelationMember'},
                  stub_siblings={'add_size': 'Builder_add_size_c', 'append_with_zero': 'Builder_append_with_zero_c', 'add_padding': 'Builder_add_padding_c'}, scalar_types=['string_size_type', 'item_size_type'])
U10_DISABLED = '''
PIPELINES.append(Pipeline('U10_RelationMemberListBuilder_add_role', units=[U_setrole, U_addrole2], prelude=lambda repo: bld_prelude(None)(repo) + BLD_STUBS,
                          contracts={'Builder_add_role': [
                              ('pre:the member was just written at the ghost window of the CURRENT buffer memory; any later reservation may move the memory', 'requires',
                               'verif_exc == 0 && __CPROVER_is_fresh(self, sizeof(*self)) && __CPROVER_is_fresh(self->m_buffer, sizeof(struct Buffer)) && WFB(self->m_buffer) && '
                               '__CPROVER_is_fresh(self->m_buffer->m_data, self->m_buffer->m_capacity) && self->m_buffer->m_committed + self->m_item_offset + sizeof(Item) <= ghost_keep && '
                               'ghost_keep + 16 <= self->m_buffer->m_written && ghost_keep % 8 == 0 && __CPROVER_pointer_equals(member, (RelationMember*)(self->m_buffer->m_data + ghost_keep)) && '
                               'length <= 100000 && __CPROVER_is_fresh(role, length + 1)'),
                              ('post:exception class; too long roles are rejected', 'ensures', '(verif_exc == 0 || verif_exc == EXC_length_error || verif_exc == EXC_buffer_is_full) && (length <= 1024 || verif_exc == EXC_length_error)'),
                              ('post:the member in the CURRENT buffer memory carries the role length (the reader finds the next member with it)', 'ensures',
                               'verif_exc != 0 || ((RelationMember*)(self->m_buffer->m_data + ghost_keep))->m_role_size == (string_size_type)(length + 1)'),
                              ('frame', 'assigns', 'verif_exc, self->m_buffer->m_data, self->m_buffer->m_capacity, self->m_buffer->m_written, __CPROVER_object_whole(self->m_buffer->m_data)')]},
                          replace=['Builder_append_with_zero_c', 'Builder_add_padding_c', 'Builder_add_size_c'],
                          maythrow={'Builder_append_with_zero_c': False, 'Builder_add_padding_c': True}, enforce='Builder_add_role',
                          harness='void harness(void) { struct Builder* b; RelationMember* m; const char* role; size_t n; Builder_add_role(b, m, role, n); __CPROVER_assert(verif_exc != 0, "canary:normal"); __CPROVER_assert(verif_exc == 0, "canary:throw"); }',
                          canaries=['canary:normal', 'canary:throw'], timeout=900, split=10, replay=('c04_buffer', lambda cex, o: ['members']),
                          note='a field written through a pointer taken before a later reservation ends up in memory nobody reads: the postcondition reads the member back from the current memory'))

'''
# U10 (builders across moving memory) is not registered: the pipeline ran out of memory / time on this image (DESIGN.md 15.2); the native oracle c04_buffer sweeps the growth points instead

PIPELINES.append(Pipeline('U7_Builder_add_size', units=[U_ibytes, U_iaddsz, U_itempos, U_item, U_baddsz], prelude=bld_prelude(None),
                          contracts={'Builder_add_size': [
                              ('pre', 'requires', '__CPROVER_is_fresh(self, sizeof(*self)) && __CPROVER_is_fresh(self->m_buffer, sizeof(struct Buffer)) && WFB(self->m_buffer) && '
                               'self->m_buffer->m_committed + self->m_item_offset + sizeof(Item) <= self->m_buffer->m_written && __CPROVER_is_fresh(self->m_buffer->m_data, self->m_buffer->m_capacity) && '
                               '(self->m_parent == 0 || (__CPROVER_is_fresh(self->m_parent, sizeof(struct Builder)) && __CPROVER_pointer_equals(self->m_parent->m_buffer, self->m_buffer) && '
                               'self->m_buffer->m_committed + self->m_parent->m_item_offset + sizeof(Item) <= self->m_buffer->m_written))'),
                              ('post:the size field of this builder\'s item grows by size', 'ensures',
                               '((Item*)(self->m_buffer->m_data + self->m_buffer->m_committed + self->m_item_offset))->m_size == (item_size_type)(__CPROVER_old(((Item*)(self->m_buffer->m_data + self->m_buffer->m_committed + self->m_item_offset))->m_size) + size) || '
                               '(self->m_parent != 0 && self->m_parent->m_item_offset + sizeof(Item) > self->m_item_offset && self->m_item_offset + sizeof(Item) > self->m_parent->m_item_offset)'),
                              ('frame', 'assigns', '__CPROVER_object_whole(self->m_buffer->m_data)')]},
                          replace=['Builder_add_size'] if False else [], enforce='Builder_add_size', unwind=None,
                          harness='void harness(void) { struct Builder* b; item_size_type n; Builder_add_size(b, n); __CPROVER_assert(0, "canary"); }',
                          replay=('c04_buffer', lambda cex, o: ['search'])))
PIPELINES.pop()   # recursion under dfcc: kept out until the self-replacement form is settled


# ---- grow / grow_internal enforced on their own bodies: sizes, ownership, and the content observed at an arbitrary byte ---------------------------
GROW_STUBS = '''
size_t ghost_k; unsigned char ghost_v;    /* ghost: an arbitrary byte of the buffer before the operation and its value */
/* new unsigned char[n]: fresh memory of that size (allocation failure is outside the property) */
unsigned char* verif_new_bytes(size_t n) __CPROVER_requires(n >= 1) __CPROVER_assigns() __CPROVER_ensures(__CPROVER_is_fresh(__CPROVER_return_value, n));
/* std::copy_n on bytes (C++ standard), stated for the observed byte */
unsigned char* copy_n(const unsigned char* src, size_t n, unsigned char* dst) __CPROVER_requires(__CPROVER_r_ok(src, n) && __CPROVER_w_ok(dst, n)) __CPROVER_assigns(__CPROVER_object_upto(dst, n))
  __CPROVER_ensures(ghost_k >= n || dst[ghost_k] == src[ghost_k]);
unsigned char* copy_n_off(const unsigned char* src, size_t n, unsigned char* dst) __CPROVER_requires(__CPROVER_r_ok(src, n) && __CPROVER_w_ok(dst, n)) __CPROVER_assigns(__CPROVER_object_upto(dst, n))
  __CPROVER_ensures(ghost_k2 >= n || dst[ghost_k2] == src[ghost_k2]);
void verif_delete_bytes(unsigned char* p) __CPROVER_requires(1) __CPROVER_assigns() __CPROVER_ensures(1);
/* new Buffer{std::move(m_memory), capacity, committed}: the nested buffer takes over the old memory block */
struct Buffer* verif_new_nested_buffer(unsigned char* memory, size_t capacity, size_t committed) __CPROVER_requires(memory != 0) __CPROVER_assigns()
  __CPROVER_ensures(__CPROVER_is_fresh(__CPROVER_return_value, sizeof(struct Buffer)) && __CPROVER_pointer_equals(__CPROVER_return_value->m_data, memory) && __CPROVER_pointer_equals(__CPROVER_return_value->m_memory, memory) &&
                    __CPROVER_return_value->m_capacity == capacity && __CPROVER_return_value->m_written == committed && __CPROVER_return_value->m_committed == committed && __CPROVER_return_value->m_next_buffer == 0);
'''
U_grow = Unit(BUF, 'grow', cls='Buffer',
              pre=[(r'std::unique_ptr<unsigned char\[\]> memory\{new unsigned char\[size\]\};', 'unsigned char* memory = verif_new_bytes(size);'),
                   (r'std::copy_n\(m_memory\.get\(\), m_capacity, memory\.get\(\)\);', 'copy_n(m_memory, m_capacity, memory);'),
                   (r'using std::swap;\s*swap\(m_memory, memory\);', '{ unsigned char* verif_t = m_memory; m_memory = memory; memory = verif_t; }'),
                   (r'm_data = m_memory\.get\(\);', 'm_data = m_memory;'),
                   (r'm_capacity = size;\s*\}', 'm_capacity = size; verif_delete_bytes(memory); /* ~unique_ptr: the old block */ }')])
PIPELINES.append(Pipeline('U3_grow', units=[U_pad, U_cap, U_grow], prelude=lambda repo: buf_prelude(repo) + 'size_t ghost_k2;\n' + GROW_STUBS, contracts={'Buffer_grow': [
    ('pre:a valid buffer; one byte of it is observed', 'requires', 'verif_exc == 0 && BUF_REQ(self) && size <= (1u << 30) - 8 && ghost_k < self->m_capacity && self->m_data[ghost_k] == ghost_v'),
    ('post:only a buffer with external memory refuses', 'ensures', '(verif_exc != 0) == (__CPROVER_old(self->m_memory) == 0) && (verif_exc == 0 || verif_exc == EXC_logic_error)'),
    ('post:the capacity is at least what was asked for, never shrinks, stays aligned; fill state untouched', 'ensures',
     'verif_exc != 0 || (self->m_capacity >= size && self->m_capacity >= __CPROVER_old(self->m_capacity) && self->m_capacity % 8 == 0 && self->m_written == __CPROVER_old(self->m_written) && self->m_committed == __CPROVER_old(self->m_committed))'),
    ('post:the buffer owns its (possibly new) memory and every byte is where it was', 'ensures',
     'verif_exc != 0 || (__CPROVER_pointer_equals(self->m_memory, self->m_data) && __CPROVER_rw_ok(self->m_data, self->m_capacity) && self->m_data[ghost_k] == ghost_v)'),
    ('frame', 'assigns', 'verif_exc, self->m_memory, self->m_data, self->m_capacity')]},
    replace=['verif_new_bytes', 'copy_n', 'verif_delete_bytes'], enforce='Buffer_grow',
    harness='void harness(void) { struct Buffer* b; size_t n; Buffer_grow(b, n); __CPROVER_assert(verif_exc != 0, "canary:normal"); __CPROVER_assert(verif_exc == 0, "canary:throw"); }',
    canaries=['canary:normal', 'canary:throw'], replay=('c04_buffer', lambda cex, o: ['search']), trace=False, note='any capacity up to 2^30; the content is observed at an arbitrary byte'))
U_growi = Unit(BUF, 'grow_internal', cls='Buffer',
               pre=[(r'std::unique_ptr<Buffer> old\{new Buffer\{std::move\(m_memory\), m_capacity, m_committed\}\};', 'struct Buffer* old = verif_new_nested_buffer(m_memory, m_capacity, m_committed);'),
                    (r'm_memory = std::unique_ptr<unsigned char\[\]>\{new unsigned char\[m_capacity\]\};', 'm_memory = verif_new_bytes(m_capacity);'),
                    (r'm_data = m_memory\.get\(\);', 'm_data = m_memory;'),
                    (r'std::copy_n\(old->data\(\) \+ m_committed, m_written, m_data\);', 'copy_n_off(old->m_data + m_committed, m_written, m_data);'),
                    (r'old->m_next_buffer = std::move\(m_next_buffer\);', 'old->m_next_buffer = m_next_buffer;'), (r'm_next_buffer = std::move\(old\);', 'm_next_buffer = old;')])
PIPELINES.append(Pipeline('U3_grow_internal', units=[U_growi], prelude=lambda repo: buf_prelude(repo) + 'size_t ghost_k2;\n' + GROW_STUBS, contracts={'Buffer_grow_internal': [
    ('pre:a valid buffer; one uncommitted and one committed byte are observed', 'requires',
     'verif_exc == 0 && BUF_REQ(self) && ghost_k2 < self->m_written - self->m_committed && self->m_data[self->m_committed + ghost_k2] == ghost_v && ghost_k < self->m_committed'),
    ('post:only a buffer with external memory refuses', 'ensures', '(verif_exc != 0) == (__CPROVER_old(self->m_memory) == 0) && (verif_exc == 0 || verif_exc == EXC_logic_error)'),
    ('post:the uncommitted data moves to the front of fresh memory of the same capacity, byte by byte', 'ensures',
     'verif_exc != 0 || (self->m_committed == 0 && self->m_written == __CPROVER_old(self->m_written) - __CPROVER_old(self->m_committed) && self->m_capacity == __CPROVER_old(self->m_capacity) && '
     '__CPROVER_pointer_equals(self->m_memory, self->m_data) && __CPROVER_rw_ok(self->m_data, self->m_capacity) && self->m_data[ghost_k2] == ghost_v)'),
    ('post:the committed data stays, untouched, in the old memory, which now belongs to the first nested buffer; the older nested buffers follow it', 'ensures',
     'verif_exc != 0 || (self->m_next_buffer != 0 && self->m_next_buffer->m_data == __CPROVER_old(self->m_data) && self->m_next_buffer->m_committed == __CPROVER_old(self->m_committed) && '
     'self->m_next_buffer->m_written == __CPROVER_old(self->m_committed) && self->m_next_buffer->m_next_buffer == __CPROVER_old(self->m_next_buffer))'),
    ('frame', 'assigns', 'verif_exc, self->m_next_buffer, self->m_memory, self->m_data, self->m_written, self->m_committed')]},
    replace=['verif_new_nested_buffer', 'verif_new_bytes', 'copy_n_off'], enforce='Buffer_grow_internal',
    harness='void harness(void) { struct Buffer* b; Buffer_grow_internal(b); __CPROVER_assert(verif_exc != 0, "canary:normal"); __CPROVER_assert(verif_exc == 0, "canary:throw"); }',
    canaries=['canary:normal', 'canary:throw'], replay=('c04_buffer', lambda cex, o: ['search']), trace=False, note='the old block is not written to (frame): committed items stay valid for readers of the nested buffer'))

# ---- U11: builders never use a pointer into the buffer after the buffer had a chance to move (ghost epochs) ------------------------------------
# Every Builder operation that reserves space (append, append_with_zero, add_padding, reserve_space_for, add_item) may move the buffer memory
# (Buffer::reserve_space, pipeline U2): its contract starts a new ghost epoch. A pointer obtained into the buffer is stamped with the epoch it was
# obtained in; the contracts of the operations that write through such a pointer (placement construction, set_role_size, set_user_size,
# set_text_size) require that the stamp is the current epoch. add_size goes through item(), which re-computes the address, and starts no epoch.
EPOCH = """
size_t ghost_epoch;        /* ghost: number of times the buffer memory may have moved */
size_t ghost_item_epoch;   /* ghost: epoch in which the item pointer held by the unit was obtained */
size_t ghost_field;        /* ghost: last size field written through the item pointer */
#define EPOCH_OK (verif_exc == 0)   /* epochs are compared for equality only; unsigned wrap-around after 2^64 moves is not a concern */
#define MAY_MOVE __CPROVER_assigns(ghost_epoch, verif_exc) __CPROVER_ensures(ghost_epoch == __CPROVER_old(ghost_epoch) + 1 && (verif_exc == 0 || verif_exc == EXC_buffer_is_full))
#define FRESH_ITEM (ghost_item_epoch == ghost_epoch)
struct Builder;
item_size_type E_append_with_zero(struct Builder* self, const char* data, item_size_type length) __CPROVER_requires(EPOCH_OK) MAY_MOVE __CPROVER_ensures(verif_exc != 0 || __CPROVER_return_value == length + 1);
void E_add_padding(struct Builder* self, bool self_flag) __CPROVER_requires(EPOCH_OK) MAY_MOVE;
void E_add_item(struct Builder* self, const void* item) __CPROVER_requires(EPOCH_OK) MAY_MOVE;
void* E_reserve_space_for(struct Builder* self, size_t size) __CPROVER_requires(EPOCH_OK) __CPROVER_assigns(ghost_epoch, ghost_item_epoch, verif_exc)
  __CPROVER_ensures(ghost_epoch == __CPROVER_old(ghost_epoch) + 1 && (verif_exc == 0 || verif_exc == EXC_buffer_is_full) && (verif_exc != 0 || (FRESH_ITEM && __CPROVER_is_fresh(__CPROVER_return_value, size))));
void E_add_size(struct Builder* self, item_size_type size) __CPROVER_requires(verif_exc == 0) __CPROVER_assigns();
/* writes through the item pointer: only in the epoch the pointer was obtained in */
void E_construct(void* item) __CPROVER_requires(verif_exc == 0 && FRESH_ITEM) __CPROVER_assigns();
void E_set_size_field(void* item, size_t size) __CPROVER_requires(verif_exc == 0 && FRESH_ITEM) __CPROVER_assigns(ghost_field) __CPROVER_ensures(ghost_field == size);
/* ChangesetDiscussionBuilder::current_comment(): address computed from the current buffer memory */
ChangesetComment* E_current_comment(struct Builder* self) __CPROVER_requires(verif_exc == 0) __CPROVER_assigns(ghost_item_epoch) __CPROVER_ensures(FRESH_ITEM && __CPROVER_is_fresh(__CPROVER_return_value, sizeof(ChangesetComment)));
"""
ESIB = {'add_size': 'E_add_size', 'append_with_zero': 'E_append_with_zero', 'add_padding': 'E_add_padding', 'add_item': 'E_add_item'}
E_EXC = '(verif_exc == 0 || verif_exc == EXC_length_error || verif_exc == EXC_buffer_is_full)'
E_FRAME = ('frame', 'assigns', 'verif_exc, ghost_epoch, ghost_item_epoch, ghost_field')


def e_prelude(derived):
    def f(repo):
        extra = ''
        if derived == 'ChangesetDiscussionBuilder':
            c = cx.extract_anon_enum_const(repo, OOB, 'no_comment')
            extra = c.replace('static_cast<std::size_t>(-1)', 'SIZE_MAX')
            if extra == c:
                raise cx.ExtractError('no_comment: the constant is no longer static_cast<std::size_t>(-1)')
        return bld_prelude(derived)(repo) + extra + EPOCH
    return f


def e_pipeline(name, units, contracts, enforce, replace, harness, note, maythrow=None, scenario='members', throws=True):
    PIPELINES.append(Pipeline(name, units=units, prelude=e_prelude('ChangesetDiscussionBuilder' if 'Discussion' in name else None), contracts=contracts, enforce=enforce,
                              replace=replace, maythrow=maythrow or {}, harness=harness + ' __CPROVER_assert(verif_exc != 0, "canary:normal"); ' + ('__CPROVER_assert(verif_exc == 0, "canary:throw"); }' if throws else '}'),
                              canaries=['canary:normal', 'canary:throw'] if throws else ['canary:normal'], replay=('c04_buffer', lambda cex, o: [scenario]), note=note))


def size_setter_contract(itemparam, limit, what):
    return [('pre:the item pointer was obtained in the current epoch', 'requires', 'EPOCH_OK && FRESH_ITEM && __CPROVER_is_fresh(self, sizeof(*self)) && __CPROVER_is_fresh(%s, 8)' % itemparam),
            ('post:exception class; %s that do not fit are rejected' % what, 'ensures', E_EXC + ' && (length <= %s || verif_exc == EXC_length_error)' % limit),
            ('post:the size field carries the length including the terminator', 'ensures', 'verif_exc != 0 || ghost_field == length + 1'),
            E_FRAME]


U_e_addrole = Unit(OOB, 'add_role', cls='RelationMemberListBuilder', cname='Builder_add_role', selftype=SB, objs={'member': 'RelationMember'}, stub_siblings=ESIB, scalar_types=['string_size_type', 'item_size_type'],
                   pre=[(r'member\.set_role_size\(', 'E_set_size_field(&member, ')])
U_e_addmember = Unit(OOB, 'add_member', cls='RelationMemberListBuilder', cname='Builder_add_member', selftype=SB, sig=r'const std::size_t role_length', stub_siblings=ESIB,
                     pre=[(r'auto\* member = reserve_space_for<osmium::RelationMember>\(\);', 'RelationMember* member = (RelationMember*)E_reserve_space_for(self, sizeof(RelationMember));'),
                          (r'new \(member\) osmium::RelationMember\{[^}]*\};', r'E_construct(member);'),
                          (r'add_item\(\*full_member\)', 'add_item(full_member)')],
                     params=['item_type type', 'object_id_type ref', 'const char* role', 'const size_t role_length', 'const void* full_member'])
ROLE_CONTRACT = size_setter_contract('member', 'max_osm_string_length', 'roles')
e_pipeline('U11_RelationMemberListBuilder_add_role', [U_e_addrole], {'Builder_add_role': ROLE_CONTRACT}, 'Builder_add_role',
           ['E_append_with_zero', 'E_add_padding', 'E_add_size', 'E_set_size_field'],
           'void harness(void) { struct Builder* b; RelationMember* m; const char* role; size_t n; Builder_add_role(b, m, role, n);',
           'the role size is written through the member pointer before the role is appended (the append may move the buffer)',
           maythrow={'E_append_with_zero': False, 'E_add_padding': True})
e_pipeline('U11_RelationMemberListBuilder_add_member', [U_e_addrole, U_e_addmember], {'Builder_add_role': ROLE_CONTRACT, 'Builder_add_member': [
    ('pre', 'requires', 'EPOCH_OK && __CPROVER_is_fresh(self, sizeof(*self))'),
    ('post:exception class; roles that do not fit are rejected', 'ensures', E_EXC + ' && (role_length <= max_osm_string_length || verif_exc != 0)'),
    ('post:the member carries the role length', 'ensures', 'verif_exc != 0 || ghost_field == role_length + 1'),
    E_FRAME]}, 'Builder_add_member', ['E_reserve_space_for', 'E_construct', 'E_add_size', 'E_add_item', 'Builder_add_role'],
    'void harness(void) { struct Builder* b; item_type t; object_id_type r; const char* role; size_t n; const void* fm; Builder_add_member(b, t, r, role, n, fm);',
    'the member is constructed and handed to add_role in the epoch its space was reserved in',
    maythrow={'E_reserve_space_for': False, 'Builder_add_role': True, 'E_add_item': True})


# ChangesetDiscussionBuilder: the comment under construction is addressed by its offset (F15 repair); a pointer is formed per call
CDSIB = dict(ESIB, current_comment='E_current_comment')
U_e_adduser = Unit(OOB, 'add_user', cls='ChangesetDiscussionBuilder', cname='Builder_add_user', selftype=SB, objs={'comment': 'ChangesetComment'}, stub_siblings=CDSIB, scalar_types=['string_size_type', 'item_size_type'],
                   pre=[(r'comment\.set_user_size\(', 'E_set_size_field(&comment, ')])
U_e_addtext = Unit(OOB, 'add_text', cls='ChangesetDiscussionBuilder', cname='Builder_add_text', selftype=SB, objs={'comment': 'ChangesetComment'}, stub_siblings=CDSIB,
                   scalar_types=['changeset_comment_size_type', 'item_size_type'], pre=[(r'comment\.set_text_size\(', 'E_set_size_field(&comment, ')])
U_e_addcomment = Unit(OOB, 'add_comment', cls='ChangesetDiscussionBuilder', cname='Builder_add_comment', selftype=SB, stub_siblings=CDSIB,
                      params=['Timestamp date', 'user_id_type uid', 'const char* user'],
                      pre=[(r'auto\* comment = reserve_space_for<osmium::ChangesetComment>\(\);', 'ChangesetComment* comment = (ChangesetComment*)E_reserve_space_for(self, sizeof(ChangesetComment));'),
                           (r'new \(comment\) osmium::ChangesetComment\{[^}]*\};', r'E_construct(comment);'),
                           (r'buffer\(\)\.written\(\)', 'self->m_buffer->m_written'), (r'buffer\(\)\.committed\(\)', 'self->m_buffer->m_committed', '?'),
                           (r'std::strlen\(', 'verif_strlen(')])
U_e_curcomment = Unit(OOB, 'current_comment', cls='ChangesetDiscussionBuilder', cname='Builder_current_comment', selftype=SB, ret='ChangesetComment*',
                      pre=[(r'return \*reinterpret_cast<osmium::ChangesetComment\*>\((.*)\);', r'return (ChangesetComment*)(\1);'),
                           (r'buffer\(\)\.data\(\)', 'self->m_buffer->m_data'), (r'buffer\(\)\.committed\(\)', 'self->m_buffer->m_committed', '?'), (r'buffer\(\)\.written\(\)', 'self->m_buffer->m_written', '?')])
U_e_addctext = Unit(OOB, 'add_comment_text', cls='ChangesetDiscussionBuilder', cname='Builder_add_comment_text', selftype=SB, sig=r'const char\* text', stub_siblings=CDSIB,
                    pre=[(r'osmium::ChangesetComment& comment = current_comment\(\);', 'ChangesetComment* comment_p = current_comment();'), (r'add_text\(comment, ', 'add_text(comment_p, '),
                         (r'std::strlen\(', 'verif_strlen(')])
USER_CONTRACT = size_setter_contract('comment', 'max_osm_string_length', 'user names')
TEXT_CONTRACT = size_setter_contract('comment', '4294967294u', 'comment texts')
e_pipeline('U11_ChangesetDiscussionBuilder_add_user', [U_e_adduser], {'Builder_add_user': USER_CONTRACT}, 'Builder_add_user', ['E_append_with_zero', 'E_add_size', 'E_set_size_field'],
           'void harness(void) { struct Builder* b; ChangesetComment* m; const char* t; size_t n; Builder_add_user(b, m, t, n);',
           'the user size is written through the comment pointer before the name is appended', maythrow={'E_append_with_zero': False}, scenario='discussion')
e_pipeline('U11_ChangesetDiscussionBuilder_add_text', [U_e_addtext], {'Builder_add_text': TEXT_CONTRACT}, 'Builder_add_text', ['E_append_with_zero', 'E_add_padding', 'E_add_size', 'E_set_size_field'],
           'void harness(void) { struct Builder* b; ChangesetComment* m; const char* t; size_t n; Builder_add_text(b, m, t, n);',
           'the text size is written through the comment pointer before the text is appended', maythrow={'E_append_with_zero': False, 'E_add_padding': True}, scenario='discussion')
NO_COMMENT = 'SIZE_MAX'
e_pipeline('U11_ChangesetDiscussionBuilder_add_comment', [U_e_adduser, U_e_addcomment], {'Builder_add_user': USER_CONTRACT, 'Builder_add_comment': [
    ('pre:no comment is open', 'requires', 'EPOCH_OK && __CPROVER_is_fresh(self, sizeof(*self)) && __CPROVER_is_fresh(self->m_buffer, sizeof(struct Buffer)) && self->m_buffer->m_committed <= self->m_buffer->m_written && '
     'self->m_comment_offset == ' + NO_COMMENT + ' && ghost_n <= 100000 && __CPROVER_is_fresh(user, ghost_n + 1) && user[ghost_n] == 0'),
    ('post:the open comment is remembered by its position relative to the committed data, not by address', 'ensures',
     'verif_exc != 0 || self->m_comment_offset == __CPROVER_old(self->m_buffer->m_written) - __CPROVER_old(self->m_buffer->m_committed)'),
    ('post:if the space or the user name is refused no comment is open (the destructor asserts that; F16)', 'ensures', 'verif_exc == 0 || self->m_comment_offset == SIZE_MAX'),
    ('post:exception class', 'ensures', E_EXC),
    ('frame', 'assigns', 'verif_exc, ghost_epoch, ghost_item_epoch, ghost_field, self->m_comment_offset')]}, 'Builder_add_comment',
    ['E_reserve_space_for', 'E_construct', 'E_add_size', 'Builder_add_user', 'verif_strlen'],
    'void harness(void) { struct Builder* b; Timestamp d; user_id_type u; const char* t; Builder_add_comment(b, d, u, t);',
    'the comment is constructed and handed to add_user in the epoch its space was reserved in', maythrow={'E_reserve_space_for': False, 'Builder_add_user': True}, scenario='discussion')
e_pipeline('U11_ChangesetDiscussionBuilder_current_comment', [U_e_curcomment], {'Builder_current_comment': [
    ('pre:a comment is open inside the uncommitted part of the buffer', 'requires', 'EPOCH_OK && __CPROVER_is_fresh(self, sizeof(*self)) && __CPROVER_is_fresh(self->m_buffer, sizeof(struct Buffer)) && '
     'self->m_buffer->m_capacity <= (1u << 28) && __CPROVER_is_fresh(self->m_buffer->m_data, self->m_buffer->m_capacity) && self->m_buffer->m_committed <= self->m_buffer->m_written && '
     'self->m_buffer->m_written <= self->m_buffer->m_capacity && self->m_comment_offset <= self->m_buffer->m_written - self->m_buffer->m_committed'),
    ('post:the address is the current buffer memory + the committed position + the remembered relative position (the counterpart of the add_comment postcondition)', 'ensures',
     '__CPROVER_pointer_equals(__CPROVER_return_value, (ChangesetComment*)(self->m_buffer->m_data + self->m_buffer->m_committed + self->m_comment_offset))'),
    ('frame', 'assigns', '')]}, 'Builder_current_comment', [],
    'void harness(void) { struct Builder* b; ChangesetComment* c = Builder_current_comment(b);',
    'the address of the open comment is formed from data(), committed() and the relative offset on every call', scenario='discussion', throws=False)
e_pipeline('U11_ChangesetDiscussionBuilder_add_comment_text', [U_e_addtext, U_e_addctext], {'Builder_add_text': TEXT_CONTRACT, 'Builder_add_comment_text': [
    ('pre:a comment is open; any number of buffer moves may lie between add_comment and this call', 'requires', 'EPOCH_OK && __CPROVER_is_fresh(self, sizeof(*self)) && self->m_comment_offset != ' + NO_COMMENT +
     ' && ghost_n <= 100000 && __CPROVER_is_fresh(text, ghost_n + 1) && text[ghost_n] == 0'),
    ('post:the comment is closed', 'ensures', 'self->m_comment_offset == ' + NO_COMMENT),
    ('post:exception class', 'ensures', E_EXC),
    ('frame', 'assigns', 'verif_exc, ghost_epoch, ghost_item_epoch, ghost_field, self->m_comment_offset')]}, 'Builder_add_comment_text',
    ['E_current_comment', 'Builder_add_text', 'verif_strlen'],
    'void harness(void) { struct Builder* b; const char* t; Builder_add_comment_text(b, t);',
    'the address of the open comment is computed from the current buffer memory in the call that uses it (F15: it used to be a pointer kept since add_comment)',
    maythrow={'Builder_add_text': True}, scenario='discussion')

TRUSTED = ['operator new[] succeeds', 'std::copy_n / std::fill_n (C++ standard)']
ASSUMPTIONS = ['buffer capacities up to 2^28 bytes (object-size bound of CBMC; no loop bound depends on it)']
NOT_DECIDED = ['CallbackBuffer', 'moved-from buffer states', 'purge_removed (see DESIGN)', 'whole builder histories as such (per-operation contracts only)']
LEVEL_TEXT = ('Proof for the buffer bookkeeping: padded_length and calculate_capacity (aligned, minimal), commit/rollback/clear (whole-state postconditions: rollback drops only '
              'uncommitted data, clear empties the buffer, nothing else changes), reserve_space for every capacity, fill state and growth mode against the contracts of grow/grow_internal '
              '(doubling loop closed by a loop contract; buffer_is_full exactly when the buffer may not grow; exactly the requested bytes are added to the uncommitted region; the returned pointer is the '
              'start of the reserved range in the current memory). grow and grow_internal are enforced on their own bodies: sizes and ownership as reserve_space relies on them, every byte of the buffer (grow) resp. '
              'every uncommitted byte (grow_internal, moved to the front of fresh memory) is preserved - observed at an arbitrary position -, the committed part stays untouched in the block handed to the nested buffer. Proof (ghost epochs) that RelationMemberListBuilder and ChangesetDiscussionBuilder write through a pointer into the buffer '
              'only in the epoch the pointer was obtained in - every operation that reserves space may move the memory and starts a new epoch - and that the size fields carry the '
              'length including the terminator, over-long roles, user names and texts being rejected with length_error.')
LEVEL_NOTE = ('Trusted: CBMC, extraction rules, operator new and std::copy_n (assumed contracts). Not decided: the byte content across a move (a memory-copy pipeline for it '
              'exceeded memory and time on this image; the epoch pipelines decide stale-pointer freedom instead, the native oracle c04_buffer sweeps every growth point and found defect F15), purge_removed, CallbackBuffer, moved-from buffers, whole builder histories.')
