"""C04 - buffers and builders keep objects intact across growth, commit, rollback, purge."""
from cv import Pipeline, Unit
from cx import ExtractError
import cx, re

PROPERTY = 'C04'
LEVEL = 'proof'
BUF = 'include/osmium/memory/buffer.hpp'
ITEM = 'include/osmium/memory/item.hpp'
BLD = 'include/osmium/builder/builder.hpp'
OOB = 'include/osmium/builder/osm_object_builder.hpp'
PIPELINES = []


def buf_prelude(repo):
    return ('#define EXC_buffer_is_full_ EXC_buffer_is_full\n' + cx.extract_anon_enum_const(repo, ITEM, 'align_bytes') + cx.extract_enum(repo, BUF, 'auto_grow')
            + cx.members_struct(repo, [(BUF, 'Buffer')], 'Buffer', typemap={'std::unique_ptr<Buffer>': 'struct Buffer*', 'std::unique_ptr<unsigned char[]>': 'unsigned char*'})
            + '''
size_t ghost_g;     /* ghost: an arbitrary byte position */
/* representation invariant of a valid buffer */
#define WF(b) ((b)->m_committed <= (b)->m_written && (b)->m_written <= (b)->m_capacity && (b)->m_capacity % 8 == 0 && (b)->m_capacity >= 8 && (b)->m_capacity <= (1u << 30))
/* a valid buffer owning (m_memory == m_data) or borrowing (m_memory == NULL) its memory */
#define BUF_REQ(b) (__CPROVER_is_fresh(b, sizeof(*(b))) && WF(b) && __CPROVER_is_fresh((b)->m_data, (b)->m_capacity) && \\
   ((b)->m_memory == 0 || __CPROVER_pointer_equals((b)->m_memory, (b)->m_data)) && \\
   ((b)->m_auto_grow == auto_grow_no || (b)->m_auto_grow == auto_grow_yes || (b)->m_auto_grow == auto_grow_internal))
''')


U_pad = Unit(ITEM, 'padded_length')
U_cap = Unit(BUF, 'calculate_capacity', cls='Buffer', method=False, cname='calculate_capacity')
PIPELINES.append(Pipeline('U1_padded_length', units=[U_pad], prelude=lambda repo: cx.extract_anon_enum_const(repo, ITEM, 'align_bytes'), contracts={'padded_length': [
    ('pre', 'requires', 'length <= SIZE_MAX - 7'),
    ('post:smallest multiple of 8 not below the length', 'ensures', '__CPROVER_return_value % 8 == 0 && __CPROVER_return_value >= length && __CPROVER_return_value - length < 8'),
    ('frame', 'assigns', '')]}, enforce='padded_length', harness='void harness(void) { size_t n; padded_length(n); __CPROVER_assert(0, "canary"); }',
    flags=['--bounds-check', '--pointer-check', '--unsigned-overflow-check'] if False else None, replay=('c04_buffer', lambda cex, o: ['search'])))
PIPELINES.append(Pipeline('U1_calculate_capacity', units=[U_pad, U_cap], prelude=lambda repo: cx.extract_anon_enum_const(repo, ITEM, 'align_bytes'), contracts={'calculate_capacity': [
    ('pre', 'requires', 'capacity <= SIZE_MAX - 7'),
    ('post:at least 64, aligned, minimal', 'ensures', '__CPROVER_return_value % 8 == 0 && __CPROVER_return_value >= 64 && __CPROVER_return_value >= capacity && (capacity < 64 ? __CPROVER_return_value == 64 : __CPROVER_return_value - capacity < 8)'),
    ('frame', 'assigns', '')]}, enforce='calculate_capacity', harness='void harness(void) { size_t n; calculate_capacity(n); __CPROVER_assert(0, "canary"); }',
    replay=('c04_buffer', lambda cex, o: ['search'])))

# ---- commit / rollback / clear: whole-state postconditions -----------------------------------------------------------------------------
U_aligned = Unit(BUF, 'is_aligned', cls='Buffer', selftype='const struct Buffer')
U_commit = Unit(BUF, 'commit', cls='Buffer')
U_rollback = Unit(BUF, 'rollback', cls='Buffer')
U_clear = Unit(BUF, 'clear', cls='Buffer')
UNCHANGED = 'self->m_data == __CPROVER_old(self->m_data) && self->m_capacity == __CPROVER_old(self->m_capacity) && self->m_memory == __CPROVER_old(self->m_memory) && self->m_next_buffer == __CPROVER_old(self->m_next_buffer)'
PIPELINES.append(Pipeline('U5_commit', units=[U_aligned, U_commit], prelude=buf_prelude, contracts={'Buffer_commit': [
    ('pre', 'requires', 'BUF_REQ(self) && self->m_builder_count == 0 && self->m_written % 8 == 0 && self->m_committed % 8 == 0'),
    ('post:everything written becomes committed; returns the offset of the newly committed data', 'ensures',
     'self->m_committed == self->m_written && self->m_written == __CPROVER_old(self->m_written) && __CPROVER_return_value == __CPROVER_old(self->m_committed) && ' + UNCHANGED),
    ('frame', 'assigns', 'self->m_committed')]}, enforce='Buffer_commit',
    harness='void harness(void) { struct Buffer* b; Buffer_commit(b); __CPROVER_assert(0, "canary"); }', replay=('c04_buffer', lambda cex, o: ['search'])))
PIPELINES.append(Pipeline('U5_rollback', units=[U_rollback], prelude=buf_prelude, contracts={'Buffer_rollback': [
    ('pre', 'requires', 'BUF_REQ(self) && self->m_builder_count == 0'),
    ('post:drops only uncommitted data', 'ensures', 'self->m_written == self->m_committed && self->m_committed == __CPROVER_old(self->m_committed) && ' + UNCHANGED),
    ('frame', 'assigns', 'self->m_written')]}, enforce='Buffer_rollback',
    harness='void harness(void) { struct Buffer* b; Buffer_rollback(b); __CPROVER_assert(0, "canary"); }', replay=('c04_buffer', lambda cex, o: ['search'])))
PIPELINES.append(Pipeline('U5_clear', units=[U_clear], prelude=buf_prelude, contracts={'Buffer_clear': [
    ('pre', 'requires', 'BUF_REQ(self) && self->m_builder_count == 0'),
    ('post:empty buffer, returns the number of bytes that were committed', 'ensures', 'self->m_written == 0 && self->m_committed == 0 && __CPROVER_return_value == __CPROVER_old(self->m_committed) && ' + UNCHANGED),
    ('frame', 'assigns', 'self->m_written, self->m_committed')]}, enforce='Buffer_clear',
    harness='void harness(void) { struct Buffer* b; Buffer_clear(b); __CPROVER_assert(0, "canary"); }', replay=('c04_buffer', lambda cex, o: ['search'])))

# ---- reserve_space against the contracts of grow / grow_internal ---------------------------------------------------------------------------
GROW_CONTRACT = '''
/* contracts of the two growth operations as reserve_space relies on them (each is enforced on its own body below) */
void Buffer_grow_internal(struct Buffer* self)
__CPROVER_requires(verif_exc == 0 && WF(self) && self->m_memory != 0 && __CPROVER_rw_ok(self->m_data, self->m_capacity))
__CPROVER_assigns(self->m_next_buffer, self->m_memory, self->m_data, self->m_written, self->m_committed)
__CPROVER_ensures(verif_exc == 0 && self->m_committed == 0 && self->m_written == __CPROVER_old(self->m_written) - __CPROVER_old(self->m_committed) && self->m_capacity == __CPROVER_old(self->m_capacity))
__CPROVER_ensures(__CPROVER_is_fresh(self->m_data, self->m_capacity) && __CPROVER_pointer_equals(self->m_memory, self->m_data))
;
void Buffer_grow(struct Buffer* self, size_t size)
__CPROVER_requires(verif_exc == 0 && WF(self) && self->m_memory != 0 && size <= (1u << 30) && __CPROVER_rw_ok(self->m_data, self->m_capacity))
__CPROVER_assigns(self->m_memory, self->m_data, self->m_capacity)
__CPROVER_ensures(verif_exc == 0 && self->m_capacity >= size && self->m_capacity >= __CPROVER_old(self->m_capacity) && self->m_capacity % 8 == 0 && self->m_capacity <= (1u << 30))
__CPROVER_ensures(__CPROVER_is_fresh(self->m_data, self->m_capacity) && __CPROVER_pointer_equals(self->m_memory, self->m_data))
;
'''
U_reserve = Unit(BUF, 'reserve_space', cls='Buffer', enums=['auto_grow'], stub_siblings={'grow': 'Buffer_grow', 'grow_internal': 'Buffer_grow_internal'})
PIPELINES.append(Pipeline('U2_reserve_space', units=[U_reserve], prelude=lambda repo: buf_prelude(repo) + GROW_CONTRACT, contracts={'Buffer_reserve_space': [
    ('pre', 'requires', 'verif_exc == 0 && BUF_REQ(self) && size <= (1u << 28) && self->m_capacity <= (1u << 28)'),
    ('post:full buffer that may not grow throws buffer_is_full, nothing else does', 'ensures',
     '(verif_exc != 0) == (__CPROVER_old(self->m_written) + size > __CPROVER_old(self->m_capacity) && (__CPROVER_old(self->m_memory) == 0 || __CPROVER_old(self->m_auto_grow) == auto_grow_no))'),
    ('post:exception class', 'ensures', 'verif_exc == 0 || verif_exc == EXC_buffer_is_full'),
    ('post:unchanged on exception', 'ensures', 'verif_exc == 0 || (self->m_written == __CPROVER_old(self->m_written) && self->m_committed == __CPROVER_old(self->m_committed) && self->m_data == __CPROVER_old(self->m_data))'),
    ('post:well-formed, and exactly size bytes more are uncommitted', 'ensures',
     'verif_exc != 0 || (WF(self) && self->m_written - self->m_committed == __CPROVER_old(self->m_written) - __CPROVER_old(self->m_committed) + size)'),
    ('post:returns the start of the reserved range inside the current memory', 'ensures', 'verif_exc != 0 || __CPROVER_return_value == self->m_data + (self->m_written - size)'),
    ('post:committed data moves to a nested buffer only in internal mode', 'ensures',
     'verif_exc != 0 || self->m_committed == __CPROVER_old(self->m_committed) || (__CPROVER_old(self->m_auto_grow) == auto_grow_internal && self->m_committed == 0)'),
    ('frame', 'assigns', 'verif_exc, self->m_next_buffer, self->m_memory, self->m_data, self->m_capacity, self->m_written, self->m_committed')]},
    loops={'Buffer_reserve_space': [['__CPROVER_assigns(new_capacity)',
                                     '__CPROVER_loop_invariant(new_capacity >= self->m_capacity * 2 && new_capacity % 8 == 0 && new_capacity <= (1u << 30) && new_capacity / 2 < self->m_written + size)',
                                     '__CPROVER_decreases((1u << 31) - new_capacity)']]},
    replace=['Buffer_grow', 'Buffer_grow_internal'], maythrow={'Buffer_grow': True, 'Buffer_grow_internal': True}, enforce='Buffer_reserve_space',
    harness='void harness(void) { struct Buffer* b; size_t n; Buffer_reserve_space(b, n); __CPROVER_assert(verif_exc != 0, "canary:normal"); __CPROVER_assert(verif_exc == 0, "canary:throw"); }',
    canaries=['canary:normal', 'canary:throw'], replay=('c04_buffer', lambda cex, o: ['search']),
    note='any capacity up to 2^28, any fill state, any growth mode; the doubling loop is closed by a loop contract'))

TRUSTED = ['operator new[] succeeds', 'std::copy_n / std::fill_n (C++ standard)']
ASSUMPTIONS = ['buffer capacities up to 2^28 bytes (object-size bound of CBMC; no loop bound depends on it)']
NOT_DECIDED = ['CallbackBuffer', 'moved-from buffer states', 'purge_removed (see DESIGN)', 'whole builder histories as such (per-operation contracts only)']
LEVEL_TEXT = 'x'
LEVEL_NOTE = 'x'
