"""C11 - relations managers: the counting / release kernel of MembersDatabase and RelationsDatabase under contract."""
import re
from cv import Pipeline, Unit
from specs.common import *
import cx
from cx import ExtractError

PROPERTY = 'C11'
LEVEL = 'proof'
MDB = 'include/osmium/relations/members_database.hpp'
RDB = 'include/osmium/relations/relations_database.hpp'
STASH = 'include/osmium/storage/item_stash.hpp'


def check_layout(repo):
    src = cx.preprocess(cx.strip_comments(open(repo + '/' + MDB).read()))
    for pat, what in ((r'osmium::object_id_type member_id;\s*std::size_t member_num;\s*std::size_t relation_pos;\s*osmium::ItemStash::handle_type object_handle;', 'MembersDatabaseCommon::element layout'),
                      (r'removed_value = std::numeric_limits<std::size_t>::max\(\)', 'element::removed_value'),
                      (r'std::vector<element> m_elements;', 'MembersDatabaseCommon::m_elements'),
                      (r'osmium::ItemStash& m_stash;\s*osmium::relations::RelationsDatabase& m_relations_db;', 'MembersDatabaseCommon members'),
                      (r'return make_range\(std::equal_range\(m_elements\.cbegin\(\), m_elements\.cend\(\), element\{id\}, compare_member_id\{\}\)\);', 'MembersDatabaseCommon::find() const'),
                      (r'return make_range\(std::equal_range\(m_elements\.begin\(\), m_elements\.end\(\), element\{id\}, compare_member_id\{\}\)\);', 'MembersDatabaseCommon::find()'),
                      (r'return a\.member_id < b\.member_id;', 'compare_member_id')):
        if not re.search(pat, src):
            raise ExtractError('%s changed: the assumed contract of find() / the struct layout in specs/C11.py is out of date' % what)
    src = cx.preprocess(cx.strip_comments(open(repo + '/' + RDB).read()))
    for pat, what in ((r'struct element \{\s*osmium::ItemStash::handle_type handle;\s*std::size_t members;\s*\};', 'RelationsDatabase::element layout'),
                      (r'osmium::ItemStash& m_stash;\s*std::vector<element> m_elements;', 'RelationsDatabase members'),
                      (r'RelationsDatabase\* m_relation_database;\s*std::size_t m_pos;', 'RelationHandle members')):
        if not re.search(pat, src):
            raise ExtractError('%s changed: the struct layout in specs/C11.py is out of date' % what)
    src = cx.preprocess(cx.strip_comments(open(repo + '/' + STASH).read()))
    if not re.search(r'class handle_type \{\s*friend class ItemStash;\s*std::size_t value;', src):
        raise ExtractError('ItemStash::handle_type layout changed')


def prelude(repo):
    check_layout(repo)
    return '''
typedef int64_t object_id_type;
struct handle_type { size_t value; };
typedef struct handle_type handle_type;
/* MembersDatabaseCommon::element (layout checked against the header on every run) */
typedef struct element { object_id_type member_id; size_t member_num; size_t relation_pos; handle_type object_handle; } element;
#define removed_value SIZE_MAX
#define REMOVED(e) ((e).member_num == SIZE_MAX)
typedef struct vvec_el { element* data; size_t size; } vvec_el;
/* iterator_range<std::vector<element>::iterator>: a pair of pointers into the vector */
typedef struct el_range { element* first; element* second; } el_range;
/* RelationsDatabase::element, RelationsDatabase, RelationHandle */
typedef struct rel_element { handle_type handle; size_t members; } rel_element;
typedef struct vvec_rel { rel_element* data; size_t size; } vvec_rel;
struct ItemStash;
struct RelationsDatabase { struct ItemStash* m_stash; vvec_rel m_elements; };
struct RelationHandle { struct RelationsDatabase* m_relation_database; size_t m_pos; };
typedef struct RelationHandle RelationHandle;
struct MembersDatabaseCommon { vvec_el m_elements; struct ItemStash* m_stash; struct RelationsDatabase* m_relations_db; bool m_init_phase; };

/* ---- ghost state -------------------------------------------------------------------------------------------------------------------------
   One member id is looked at: its elements are m_elements[ghost_lo .. ghost_hi) (the vector is sorted by member id after prepare_for_lookup()).
   All elements of one id carry the same stash handle (add_object() sets them together): ghost_hdl. ghost_live says whether the stash still holds
   that item. Representation invariant of the database for the elements of this id (released "only when the last non-removed reference goes"):
       every element e of the id:  e.object_handle == ghost_hdl,  and  (e is not removed and ghost_hdl is valid)  ==>  ghost_live
   The invariant is universally quantified over the elements; it is supplied at every place the code reads an element's handle (ELEM_INV below,
   woven in by the extraction rule for `.object_handle` reads) - the instantiation an SMT solver would do with a trigger on the read. */
size_t ghost_lo, ghost_hi;
size_t ghost_hdl; bool ghost_live;
size_t ghost_k;          /* ghost: an arbitrary element of the id, at which universally quantified postconditions are observed */
size_t ghost_got;        /* ghost: handle passed to ItemStash::get */
size_t ghost_released;   /* ghost: number of ItemStash::remove_item calls */ size_t ghost_released_hdl;
#define ELEM_INV(e) ((e).object_handle.value == ghost_hdl && (REMOVED(e) || ghost_hdl == 0 || ghost_live))
#define HANDLE_OF(e) (*({ __CPROVER_assume(ELEM_INV(e)); &(e).object_handle; }))

/* std::equal_range over the vector sorted by member id (C++ standard; trusted): exactly the elements with that id */
el_range MembersDatabaseCommon_find(const struct MembersDatabaseCommon* self, object_id_type id)
__CPROVER_requires(__CPROVER_r_ok(self, sizeof(*self)))
__CPROVER_assigns()
__CPROVER_ensures(__CPROVER_pointer_equals(__CPROVER_return_value.first, self->m_elements.data + ghost_lo) && __CPROVER_pointer_equals(__CPROVER_return_value.second, self->m_elements.data + ghost_hi))
;
/* ItemStash::get<T>(handle) (ItemStash itself: C15): the handle must be valid and its item must not have been released */
const void* ItemStash_get(struct ItemStash* stash, handle_type handle)
__CPROVER_requires(handle.value != 0 && handle.value == ghost_hdl && ghost_live)
__CPROVER_assigns(ghost_got)
__CPROVER_ensures(ghost_got == handle.value && __CPROVER_return_value != 0)
;
/* ItemStash::remove_item(handle): releases a live item (asserts that in the real code) */
void ItemStash_remove_item(struct ItemStash* stash, handle_type handle)
__CPROVER_requires(handle.value != 0 && handle.value == ghost_hdl && ghost_live)
__CPROVER_assigns(ghost_live, ghost_released, ghost_released_hdl)
__CPROVER_ensures(!ghost_live && ghost_released == __CPROVER_old(ghost_released) + 1 && ghost_released_hdl == handle.value)
;
'''


# the elements of the id under observation lie inside the vector; every element of the id has that id
DB_OK = ('__CPROVER_is_fresh(self, sizeof(*self)) && self->m_elements.size >= 1 && self->m_elements.size <= 1000000 && '
         '__CPROVER_is_fresh(self->m_elements.data, self->m_elements.size * sizeof(element)) && ghost_lo <= ghost_hi && ghost_hi <= self->m_elements.size && !self->m_init_phase')
OBJS = {'handle': 'handle_type', 'object_handle': 'handle_type'}
HANDLE_READ = [(r'(\w+(?:\.begin\(\))?)(->|\.)object_handle(?!\s*=[^=])', lambda m: 'HANDLE_OF(%s)' % (('*' + m.group(1)) if m.group(2) == '->' else m.group(1)), '?')]
RANGE_RULES = [(r'(?:const )?auto range = find\(', 'el_range range = find('),
               (r'range\.empty\(\)', '(range.first == range.second)', '?'),
               (r'range\.begin\(\)', 'range.first', '?'), (r'range\.end\(\)', 'range.second', '?')]
FOR_ELEM = [(r'for \((?:const )?auto& elem : range\) \{', 'for (element* elem_it = range.first; elem_it != range.second; ++elem_it) {', '?'),
            (r'(?<![\w.>])elem\.is_removed\(\)', 'element_is_removed(elem_it)', '?'), (r'(?<![\w.>])elem\.remove\(\)', 'element_remove(elem_it)', '?'),
            (r'HANDLE_OF\(elem\)', 'HANDLE_OF(*elem_it)', '?'), (r'(?<![\w.>])elem\.', '(*elem_it).', '?')]
U_hvalid = Unit(STASH, 'valid', cls='ItemStash::handle_type', cname='handle_type_valid', selftype='const struct handle_type', extra_members=['value'])
U_isrem = Unit(MDB, 'is_removed', cls='MembersDatabaseCommon::element', cname='element_is_removed', selftype='const struct element', extra_members=['member_num'])
U_elrem = Unit(MDB, 'remove', cls='MembersDatabaseCommon::element', cname='element_remove', selftype='struct element', ret='void', extra_members=['member_num'])

PIPELINES = []
# the iterator of a range-for over the elements of the id: an element boundary between the two ends of the range
IT_INV = ('__CPROVER_loop_invariant(__CPROVER_same_object(elem_it, range.first) && __CPROVER_POINTER_OFFSET(elem_it) % sizeof(element) == 0 && '
          '__CPROVER_POINTER_OFFSET(range.first) <= __CPROVER_POINTER_OFFSET(elem_it) && __CPROVER_POINTER_OFFSET(elem_it) <= __CPROVER_POINTER_OFFSET(range.second))')

# ---- get_object: a released object is reported as absent ------------------------------------------------------------------------------------
U_getobj = Unit(MDB, 'get_object', cls='MembersDatabaseCommon', selftype='const struct MembersDatabaseCommon', ret='const void*', objs=OBJS,
                stub_siblings={'find': 'MembersDatabaseCommon_find'},
                pre=HANDLE_READ + FOR_ELEM + RANGE_RULES[1:] + [(r'(?:const )?auto range = find\(', 'el_range range = find('),
                     (r'&m_stash\.get<osmium::OSMObject>\(', 'ItemStash_get(m_stash, ')],
                post=[(r'ItemStash_get\(self->m_stash, \(\*(\w+)\)\)', r'ItemStash_get(self->m_stash, \1)', '?'),
                      (r'(HANDLE_OF\((?:[^()]|\([^()]*\))*\))\.valid\(\)', r'handle_type_valid(&\1)', '?')])
PIPELINES.append(Pipeline('U1_MembersDatabase_get_object', units=[U_hvalid, U_isrem, U_getobj], prelude=prelude, contracts={'MembersDatabaseCommon_get_object': [
    ('pre:a prepared database; the elements of the id', 'requires', DB_OK + ' && ghost_lo <= ghost_k && ghost_k < ghost_hi'),
    ('post:an object that is still needed by a relation (an element of the id that is not removed, object seen) is found', 'ensures',
     '__CPROVER_return_value != 0 || REMOVED(self->m_elements.data[ghost_k]) || self->m_elements.data[ghost_k].object_handle.value == 0 || !ELEM_INV(self->m_elements.data[ghost_k])'),
    ('post:what is returned is the stash item of the handle the elements of the id carry', 'ensures', '__CPROVER_return_value == 0 || ghost_got == ghost_hdl'),
    ('frame', 'assigns', 'ghost_got')]},
    loops={'MembersDatabaseCommon_get_object': [['__CPROVER_assigns(elem_it)',
        IT_INV,
        '__CPROVER_loop_invariant(ghost_k * sizeof(element) >= __CPROVER_POINTER_OFFSET(elem_it) || REMOVED(self->m_elements.data[ghost_k]) || self->m_elements.data[ghost_k].object_handle.value == 0 || !ELEM_INV(self->m_elements.data[ghost_k]))',
        '__CPROVER_decreases(__CPROVER_POINTER_OFFSET(range.second) - __CPROVER_POINTER_OFFSET(elem_it))']]},
    replace=['MembersDatabaseCommon_find', 'ItemStash_get'], enforce='MembersDatabaseCommon_get_object',
    harness='void harness(void) { const struct MembersDatabaseCommon* db; object_id_type id; const void* r = MembersDatabaseCommon_get_object(db, id); __CPROVER_assert(r == 0, "canary:found"); __CPROVER_assert(r != 0, "canary:absent"); }',
    canaries=['canary:found', 'canary:absent'], replay=('c11_members', lambda cex, o: ['search']),
    note='the stash is only asked for the item of a handle that a non-removed element carries: after the last relation needing an object is completed (all elements removed, item released) the lookup reports it as absent'))

# ---- count_not_removed: std::count_if + lambda, instantiated by text -------------------------------------------------------------------------
# std::count_if(first, last, pred) (C++ standard: the number of elements for which pred is true) is written out as the loop it stands for, with the
# lambda body as the condition; the lambda body itself is the repo's text.
COUNT_IF = [(r'return std::count_if\(range\.begin\(\), range\.end\(\), \[\]\(const element& elem\) \{\s*return ([^;]*);\s*\}\);',
             r'ptrdiff_t cnt = 0; for (element* elem_it = range.first; elem_it != range.second; ++elem_it) { if (\1) { ++cnt; } } return cnt;')]
U_count = Unit(MDB, 'count_not_removed', cls='MembersDatabaseCommon', method=False, static=True, params=['el_range range'], ret='ptrdiff_t',
               pre=COUNT_IF + FOR_ELEM[1:])
GH2 = '''
size_t ghost_k1, ghost_k2;   /* ghost: two arbitrary elements of the range, at which the count is related to the removed flags */
element* ghost_base;         /* ghost: the array of the vector */
#define NRM(i) (!REMOVED(ghost_base[i]))
#define IN_RANGE(i) (ghost_lo <= (i) && (i) < ghost_hi)
#define IDX(p) (__CPROVER_POINTER_OFFSET(p) / sizeof(element))
/* bounds on a count of non-removed elements among [ghost_lo, upto): at least those of k1, k2 that are not removed, at most all but those that are removed */
#define CNT_LO(upto) ((size_t)((ghost_k1 < (upto) && NRM(ghost_k1)) ? 1 : 0) + (size_t)((ghost_k2 != ghost_k1 && ghost_k2 < (upto) && NRM(ghost_k2)) ? 1 : 0))
#define CNT_HI(upto) (((upto) - ghost_lo) - (size_t)((ghost_k1 < (upto) && !NRM(ghost_k1)) ? 1 : 0) - (size_t)((ghost_k2 != ghost_k1 && ghost_k2 < (upto) && !NRM(ghost_k2)) ? 1 : 0))
'''
RANGE_OK = ('ghost_lo <= ghost_hi && ghost_hi <= 1000000 && __CPROVER_is_fresh(ghost_base, (ghost_hi + 1) * sizeof(element)) && IN_RANGE(ghost_k1) && IN_RANGE(ghost_k2) && '
            '__CPROVER_pointer_equals(range.first, ghost_base + ghost_lo) && __CPROVER_pointer_equals(range.second, ghost_base + ghost_hi)')
COUNT_CONTRACT = [
    ('pre:a range of elements', 'requires', RANGE_OK),
    ('post:the result counts the elements that are not removed (observed at two arbitrary elements: each non-removed one is counted, each removed one is not)', 'ensures',
     '__CPROVER_return_value >= 0 && (size_t)__CPROVER_return_value >= CNT_LO(ghost_hi) && (size_t)__CPROVER_return_value <= CNT_HI(ghost_hi)'),
    ('frame', 'assigns', '')]
PIPELINES.append(Pipeline('U2_count_not_removed', units=[U_isrem, U_count], prelude=lambda repo: prelude(repo) + GH2, contracts={'MembersDatabaseCommon_count_not_removed': COUNT_CONTRACT},
    loops={'MembersDatabaseCommon_count_not_removed': [['__CPROVER_assigns(elem_it, cnt)', IT_INV,
        '__CPROVER_loop_invariant(cnt >= 0 && (size_t)cnt >= CNT_LO(IDX(elem_it)) && (size_t)cnt <= CNT_HI(IDX(elem_it)))',
        '__CPROVER_decreases(__CPROVER_POINTER_OFFSET(range.second) - __CPROVER_POINTER_OFFSET(elem_it))']]},
    enforce='MembersDatabaseCommon_count_not_removed',
    harness='void harness(void) { el_range r; ptrdiff_t c = MembersDatabaseCommon_count_not_removed(r); __CPROVER_assert(c != 1, "canary:one"); __CPROVER_assert(c == 1, "canary:other"); }',
    canaries=['canary:one', 'canary:other'], replay=('c11_members', lambda cex, o: ['search']),
    note='the count that decides "last non-removed reference": std::count_if written out by the extraction, the predicate is the repo text'))

# ---- remove(member_id, relation_id): the stash item goes exactly when the last non-removed reference goes -------------------------------------
GH3 = GH2 + '''
size_t ghost_w;            /* ghost: a non-removed element of the id that belongs to the relation being completed (the caller removes members of a completed relation) */
ptrdiff_t ghost_cnt;       /* ghost: what count_not_removed returned */
object_id_type* ghost_relid; size_t ghost_nrel;   /* ghost: the ids of the relations in the relations database, by position */
#define MATCH(i, rid) (ghost_base[i].relation_pos < ghost_nrel && ghost_relid[ghost_base[i].relation_pos] == (rid))
/* m_relations_db[pos]->id() */
object_id_type RelationsDatabase_id_at(struct RelationsDatabase* db, size_t pos)
__CPROVER_assigns()
__CPROVER_ensures(pos >= ghost_nrel || __CPROVER_return_value == ghost_relid[pos])
;
/* m_relations_db[pos]->positive_id(): the absolute value as an unsigned number (osm/object.hpp) */
uint64_t RelationsDatabase_positive_id_at(struct RelationsDatabase* db, size_t pos)
__CPROVER_assigns()
__CPROVER_ensures(pos >= ghost_nrel || __CPROVER_return_value == (ghost_relid[pos] < 0 ? (uint64_t)(-(ghost_relid[pos] + 1)) + 1 : (uint64_t)ghost_relid[pos]))
;
/* count_not_removed as seen by its caller: the contract proved in U2_count_not_removed, observed at (ghost_k1, ghost_k2) */
ptrdiff_t MembersDatabaseCommon_count_not_removed(el_range range)
__CPROVER_requires(IN_RANGE(ghost_k1) && IN_RANGE(ghost_k2) && __CPROVER_pointer_equals(range.first, ghost_base + ghost_lo) && __CPROVER_pointer_equals(range.second, ghost_base + ghost_hi))
__CPROVER_assigns(ghost_cnt)
__CPROVER_ensures(__CPROVER_return_value == ghost_cnt && ghost_cnt >= 0 && (size_t)ghost_cnt >= CNT_LO(ghost_hi) && (size_t)ghost_cnt <= CNT_HI(ghost_hi))
;
/* The contract of count_not_removed holds for every pair of elements. Its consequence "the count was 1 and w is not removed ==> every other element is
   removed" is supplied for the element the loop is looking at (instantiation of the universally quantified fact at the term that is read). */
#define CNT_INST(p) ({ __CPROVER_assume(!(ghost_cnt == 1 && NRM(ghost_w)) || (p) == ghost_base + ghost_w || REMOVED(*(p))); (p); })
#define CHANGED(i) (ghost_base[i].member_num != __CPROVER_old(ghost_base[i].member_num))
'''
U_remove = Unit(MDB, 'remove', cls='MembersDatabaseCommon', sig=r'osmium::object_id_type member_id', objs=OBJS, stub_siblings={'find': 'MembersDatabaseCommon_find'}, ret='void',
                pre=HANDLE_READ + [(r'(?<![\w_])count_not_removed\(range\)', 'MembersDatabaseCommon_count_not_removed(range)'),
                                   (r'm_stash\.remove_item\(', 'ItemStash_remove_item(m_stash, '),
                                   (r'm_relations_db\[elem\.relation_pos\]->(id|positive_id)\(\)', r'RelationsDatabase_\1_at(m_relations_db, elem.relation_pos)'),
                                   (r'!elem\.is_removed\(\) &&', '!element_is_removed(CNT_INST(elem_it)) &&')] + FOR_ELEM + RANGE_RULES,
                post=[(r'ItemStash_remove_item\(self->m_stash, \(\*(\w+)\)\)', r'ItemStash_remove_item(self->m_stash, \1)', '?')])
REMOVE_PRE = ('__CPROVER_is_fresh(self, sizeof(*self)) && ghost_k <= 5 && ghost_w <= 5 && ghost_hi - ghost_lo <= 3 && !self->m_init_phase && self->m_elements.size <= 5 && ghost_lo <= ghost_hi && ghost_hi <= self->m_elements.size && '
              '__CPROVER_is_fresh(self->m_elements.data, 6 * sizeof(element)) && __CPROVER_pointer_equals(ghost_base, self->m_elements.data) && '
              'ghost_nrel >= 1 && ghost_nrel <= 4 && __CPROVER_is_fresh(ghost_relid, 4 * sizeof(object_id_type)) && ghost_released < 1000000 && '
              '(ghost_lo == ghost_hi || (IN_RANGE(ghost_w) && IN_RANGE(ghost_k) && ghost_k1 == ghost_w && ghost_k2 == ghost_k && NRM(ghost_w) && MATCH(ghost_w, relation_id) && '
              'ghost_base[ghost_k].relation_pos < ghost_nrel && ghost_hdl != 0 && ELEM_INV(ghost_base[ghost_k]) && ELEM_INV(ghost_base[ghost_w])))')
PIPELINES.append(Pipeline('U3_MembersDatabase_remove_bounded', units=[U_isrem, U_elrem, U_remove], prelude=lambda repo: prelude(repo) + GH3, contracts={'MembersDatabaseCommon_remove': [
    ('pre:a prepared database; the object was seen; the elements of the id satisfy the representation invariant; the relation being completed still holds a reference', 'requires', REMOVE_PRE),
    ('post:the object is released from the stash exactly when this was its last non-removed reference ("stay available until the last relation needing them has been completed and are released afterwards")', 'ensures',
     'ghost_lo == ghost_hi ? ghost_released == __CPROVER_old(ghost_released) : (ghost_released == __CPROVER_old(ghost_released) + (ghost_cnt == 1 ? 1 : 0) && (ghost_cnt != 1 || ghost_released_hdl == ghost_hdl))'),
    ('post:the representation invariant holds again: an element that is still not removed means the object is still in the stash', 'ensures',
     'ghost_lo == ghost_hi || (ELEM_INV(ghost_base[ghost_k]) && ELEM_INV(ghost_base[ghost_w]))'),
    ('post:an element changes only by being marked removed, and only if it was a non-removed reference of that relation', 'ensures',
     'ghost_lo == ghost_hi || (ghost_base[ghost_k].member_id == __CPROVER_old(ghost_base[ghost_k].member_id) && ghost_base[ghost_k].relation_pos == __CPROVER_old(ghost_base[ghost_k].relation_pos) && '
     'ghost_base[ghost_k].object_handle.value == __CPROVER_old(ghost_base[ghost_k].object_handle.value) && '
     '(!CHANGED(ghost_k) || (__CPROVER_old(ghost_base[ghost_k].member_num) != SIZE_MAX && MATCH(ghost_k, relation_id) && !NRM(ghost_k))))'),
    ('post:one reference per call: two elements are never marked in the same call (a relation that lists a member twice removes it twice)', 'ensures',
     'ghost_lo == ghost_hi || ghost_k == ghost_w || !(CHANGED(ghost_k) && CHANGED(ghost_w))'),
    ('frame', 'assigns', 'ghost_live, ghost_released, ghost_released_hdl, ghost_cnt, __CPROVER_object_whole(self->m_elements.data)')]},
    loop_contracts=False, unwind=5, bounded='a members database of at most 5 elements, at most 3 of them for one member id, at most 4 relations (the loop over the elements of the id is unwound)',
    replace=['MembersDatabaseCommon_find', 'MembersDatabaseCommon_count_not_removed', 'ItemStash_remove_item', 'RelationsDatabase_id_at', 'RelationsDatabase_positive_id_at'], enforce='MembersDatabaseCommon_remove',
    harness='void harness(void) { struct MembersDatabaseCommon* db; object_id_type m, r; MembersDatabaseCommon_remove(db, m, r); __CPROVER_assert(ghost_live, "canary:released"); __CPROVER_assert(!ghost_live, "canary:kept"); }',
    canaries=['canary:released', 'canary:kept'], replay=('c11_members', lambda cex, o: ['search']), timeout=900,
    note='relative to the contracts of find() (assumed) and count_not_removed (U2)'))

# ---- RelationHandle: the counter of outstanding members ----------------------------------------------------------------------------------------
U_rmembers = Unit(RDB, 'members', cls='RelationsDatabase', post=[(r'self->m_elements\[', 'self->m_elements.data[')])
RH_PRE = [(r'm_relation_database->members\(m_pos\)', '(*RelationsDatabase_members(m_relation_database, m_pos))')]
U_rh_inc = Unit(RDB, 'increment_members', cls='RelationHandle', pre=RH_PRE, ret='void')
U_rh_dec = Unit(RDB, 'decrement_members', cls='RelationHandle', pre=RH_PRE, ret='void')
U_rh_all = Unit(RDB, 'has_all_members', cls='RelationHandle', selftype='const struct RelationHandle', pre=RH_PRE)
U_rh_set = Unit(RDB, 'set_members', cls='RelationHandle', pre=RH_PRE, ret='void')
GH4 = '''
#ifndef RH_MAX
#define RH_MAX 1000000
#endif
size_t ghost_g;    /* ghost: an arbitrary other relation, whose counter must not be touched */
#define RH_OK(h) (__CPROVER_is_fresh(h, sizeof(*(h))) && __CPROVER_is_fresh((h)->m_relation_database, sizeof(struct RelationsDatabase)) && (h)->m_relation_database->m_elements.size <= RH_MAX && \\
   (h)->m_pos < (h)->m_relation_database->m_elements.size && ghost_g < (h)->m_relation_database->m_elements.size && \\
   __CPROVER_is_fresh((h)->m_relation_database->m_elements.data, (h)->m_relation_database->m_elements.size * sizeof(rel_element)))
#define MEMBERS(h, i) ((h)->m_relation_database->m_elements.data[i].members)
#define OTHERS_SAME(h) (ghost_g == (h)->m_pos || MEMBERS(h, ghost_g) == __CPROVER_old(MEMBERS(h, ghost_g)))
#define RH_FRAME __CPROVER_object_whole(self->m_relation_database->m_elements.data)
'''
for nm, u, pre, post in (
        ('increment_members', U_rh_inc, 'MEMBERS(self, self->m_pos) < SIZE_MAX', 'MEMBERS(self, self->m_pos) == __CPROVER_old(MEMBERS(self, self->m_pos)) + 1'),
        ('decrement_members', U_rh_dec, 'MEMBERS(self, self->m_pos) > 0', 'MEMBERS(self, self->m_pos) == __CPROVER_old(MEMBERS(self, self->m_pos)) - 1'),
        ('set_members', U_rh_set, '1', 'MEMBERS(self, self->m_pos) == value')):
    PIPELINES.append(Pipeline('U4_RelationHandle_' + nm, units=[U_rmembers, u], prelude=lambda repo: prelude(repo) + GH4, contracts={'RelationHandle_' + nm: [
        ('pre:a handle into the relations database', 'requires', 'RH_OK(self) && ' + pre),
        ('post:the counter of this relation changes by exactly one step; the handle stays what it is', 'ensures', post + ' && self->m_pos == __CPROVER_old(self->m_pos)'),
        ('post:no other relation is touched', 'ensures', 'OTHERS_SAME(self) && self->m_relation_database->m_elements.data[ghost_g].handle.value == __CPROVER_old(self->m_relation_database->m_elements.data[ghost_g].handle.value)'),
        ('frame', 'assigns', 'RH_FRAME')]}, enforce='RelationHandle_' + nm,
        harness='void harness(void) { struct RelationHandle* h; %s __CPROVER_assert(0, "canary"); }' % ('size_t v; RelationHandle_set_members(h, v);' if nm == 'set_members' else 'RelationHandle_%s(h);' % nm),
        replay=('c11_members', lambda cex, o: ['search'])))
PIPELINES.append(Pipeline('U4_RelationHandle_has_all_members', units=[U_rmembers, U_rh_all], prelude=lambda repo: prelude(repo) + GH4, contracts={'RelationHandle_has_all_members': [
    ('pre:a handle into the relations database', 'requires', 'RH_OK(self)'),
    ('post:complete means: no outstanding member', 'ensures', '__CPROVER_return_value == (MEMBERS(self, self->m_pos) == 0)'),
    ('frame', 'assigns', '')]}, enforce='RelationHandle_has_all_members',
    harness='void harness(void) { const struct RelationHandle* h; bool b = RelationHandle_has_all_members(h); __CPROVER_assert(b, "canary:incomplete"); __CPROVER_assert(!b, "canary:complete"); }',
    canaries=['canary:incomplete', 'canary:complete'], replay=('c11_members', lambda cex, o: ['search'])))

# ---- add_object / add: every element of the id gets the handle; the completion callback fires exactly when a counter reaches zero ----------------
GH5 = GH2 + GH4 + '''
size_t ghost_cg;    /* ghost: number of elements of the arriving object that belong to relation ghost_g, as far as the loop has come */
size_t ghost_cb;    /* ghost: number of times the completion callback was called for relation ghost_g */
size_t ghost_cb_any; /* ghost: number of completion callbacks */
object_id_type ghost_oid;
object_id_type OSMObject_id(const void* object) __CPROVER_assigns() __CPROVER_ensures(__CPROVER_return_value == ghost_oid);
/* ItemStash::add_item (C15): a new, valid handle of an item that is in the stash */
handle_type ItemStash_add_item(struct ItemStash* stash, const void* item)
__CPROVER_assigns(ghost_hdl, ghost_live)
__CPROVER_ensures(__CPROVER_return_value.value != 0 && ghost_hdl == __CPROVER_return_value.value && ghost_live)
;
#define RDB_OK(db) (__CPROVER_rw_ok(db, sizeof(struct RelationsDatabase)) && (db)->m_elements.size <= 1000000 && ghost_g < (db)->m_elements.size && \\
   __CPROVER_rw_ok((db)->m_elements.data, (db)->m_elements.size * sizeof(rel_element)))
/* RelationsDatabase::operator[] (asserts pos < size; returns {this, pos}). Whole-history invariant of the two databases, assumed here and instantiated at the
   element that is read: the relation of an element of an object that arrives now exists and still has at least one outstanding member. */
RelationHandle RelationsDatabase_at(struct RelationsDatabase* db, size_t pos)
__CPROVER_requires(RDB_OK(db))
__CPROVER_assigns(ghost_cg)
__CPROVER_ensures(__CPROVER_pointer_equals(__CPROVER_return_value.m_relation_database, db) && __CPROVER_return_value.m_pos == pos && pos < db->m_elements.size && db->m_elements.data[pos].members >= 1 &&
                  ghost_cg == __CPROVER_old(ghost_cg) + (pos == ghost_g ? 1 : 0))
;
/* the contracts of RelationHandle proved in U4, as seen by a caller */
#define RH_OK_CALLEE(h) (__CPROVER_rw_ok(h, sizeof(*(h))) && RDB_OK((h)->m_relation_database) && (h)->m_pos < (h)->m_relation_database->m_elements.size)
void RelationHandle_decrement_members(struct RelationHandle* self)
__CPROVER_requires(RH_OK_CALLEE(self) && MEMBERS(self, self->m_pos) > 0)
__CPROVER_assigns(__CPROVER_object_whole(self->m_relation_database->m_elements.data))
__CPROVER_ensures(MEMBERS(self, self->m_pos) == __CPROVER_old(MEMBERS(self, self->m_pos)) - 1 && self->m_pos == __CPROVER_old(self->m_pos) && OTHERS_SAME(self))
;
bool RelationHandle_has_all_members(const struct RelationHandle* self)
__CPROVER_requires(RH_OK_CALLEE(self))
__CPROVER_assigns()
__CPROVER_ensures(__CPROVER_return_value == (MEMBERS(self, self->m_pos) == 0))
;
/* the completion callback (RelationsManager::handle_complete_relation): called for a relation without outstanding members; it may mark elements of the members
   database as removed (MembersDatabaseCommon::remove, U3) and does not change a counter */
void VERIF_COMPLETE(struct RelationHandle* h)
__CPROVER_requires(RH_OK_CALLEE(h) && MEMBERS(h, h->m_pos) == 0)
__CPROVER_assigns(ghost_cb, ghost_cb_any, __CPROVER_object_whole(ghost_base))
__CPROVER_ensures(ghost_cb == __CPROVER_old(ghost_cb) + (h->m_pos == ghost_g ? 1 : 0) && ghost_cb_any == __CPROVER_old(ghost_cb_any) + 1 &&
                  ghost_base[ghost_k].object_handle.value == __CPROVER_old(ghost_base[ghost_k].object_handle.value) && ghost_base[ghost_k].member_id == __CPROVER_old(ghost_base[ghost_k].member_id) &&
                  ghost_base[ghost_k].relation_pos == __CPROVER_old(ghost_base[ghost_k].relation_pos))
;
'''
U_addobj = Unit(MDB, 'add_object', cls='MembersDatabaseCommon', objs=OBJS, params=['const void* object', 'el_range range'], ret='void',
                pre=[(r'const auto handle = m_stash\.add_item\(object\);', 'const handle_type handle = ItemStash_add_item(m_stash, object);')] + FOR_ELEM)
ADDOBJ_PRE = ('__CPROVER_is_fresh(self, sizeof(*self)) && ghost_lo < ghost_hi && ghost_hi <= 1000000 && __CPROVER_is_fresh(ghost_base, (ghost_hi + 1) * sizeof(element)) && IN_RANGE(ghost_k) && '
              '__CPROVER_pointer_equals(range.first, ghost_base + ghost_lo) && __CPROVER_pointer_equals(range.second, ghost_base + ghost_hi)')
ADDOBJ_POST = ('ghost_hdl != 0 && ghost_live && ghost_base[ghost_k].object_handle.value == ghost_hdl && ghost_base[ghost_k].member_id == __CPROVER_old(ghost_base[ghost_k].member_id) && '
               'ghost_base[ghost_k].member_num == __CPROVER_old(ghost_base[ghost_k].member_num) && ghost_base[ghost_k].relation_pos == __CPROVER_old(ghost_base[ghost_k].relation_pos)')
PIPELINES.append(Pipeline('U5_MembersDatabase_add_object', units=[U_addobj], prelude=lambda repo: prelude(repo) + GH5, contracts={'MembersDatabaseCommon_add_object': [
    ('pre:the elements of the id of the arriving object', 'requires', ADDOBJ_PRE),
    ('post:the object is in the stash and every element of its id carries its handle (observed at an arbitrary element); nothing else of an element changes', 'ensures', ADDOBJ_POST),
    ('frame', 'assigns', 'ghost_hdl, ghost_live, __CPROVER_object_whole(ghost_base)')]},
    loops={'MembersDatabaseCommon_add_object': [['__CPROVER_assigns(elem_it, __CPROVER_object_whole(ghost_base))', IT_INV,
        '__CPROVER_loop_invariant((ghost_k >= IDX(elem_it) ? ghost_base[ghost_k].object_handle.value == __CPROVER_loop_entry(ghost_base[ghost_k].object_handle.value) : ghost_base[ghost_k].object_handle.value == handle.value) && '
        'ghost_base[ghost_k].member_id == __CPROVER_loop_entry(ghost_base[ghost_k].member_id) && ghost_base[ghost_k].member_num == __CPROVER_loop_entry(ghost_base[ghost_k].member_num) && '
        'ghost_base[ghost_k].relation_pos == __CPROVER_loop_entry(ghost_base[ghost_k].relation_pos))',
        '__CPROVER_decreases(__CPROVER_POINTER_OFFSET(range.second) - __CPROVER_POINTER_OFFSET(elem_it))']]},
    replace=['ItemStash_add_item'], enforce='MembersDatabaseCommon_add_object',
    harness='void harness(void) { struct MembersDatabaseCommon* db; const void* o; el_range r; MembersDatabaseCommon_add_object(db, o, r); __CPROVER_assert(0, "canary"); }',
    replay=('c11_members', lambda cex, o: ['search'])))

ADDOBJ_CALLEE = '''
void MembersDatabaseCommon_add_object(struct MembersDatabaseCommon* self, const void* object, el_range range)
__CPROVER_requires(ghost_lo < ghost_hi && IN_RANGE(ghost_k) && __CPROVER_pointer_equals(range.first, ghost_base + ghost_lo) && __CPROVER_pointer_equals(range.second, ghost_base + ghost_hi))
__CPROVER_assigns(ghost_hdl, ghost_live, __CPROVER_object_whole(ghost_base))
__CPROVER_ensures(%s)
;
/* whole-history invariant, assumed and instantiated at the element the loop looks at: an object arrives once, and before it has arrived none of its elements is removed */
#define ARRIVE_INST(p) ({ __CPROVER_assume(!REMOVED(*(p))); (p); })
/* the contract of find() (std::equal_range: every element of the range has the id that was looked up), instantiated at the element the loop looks at */
#define FIND_INST(p) ({ __CPROVER_assume((p)->member_id == ghost_oid); (p); })
''' % ADDOBJ_POST
U_add = Unit(MDB, 'add', cls='MembersDatabase', cname='MembersDatabase_add', selftype='struct MembersDatabaseCommon', objs=dict(OBJS, rel_handle='RelationHandle'),
             params=['const void* object'], ret='bool', stub_siblings={'find': 'MembersDatabaseCommon_find', 'add_object': 'MembersDatabaseCommon_add_object'},
             pre=[(r'assert\(elem\.member_id == object\.id\(\)\);', 'assert(FIND_INST(elem_it)->member_id == object.id());'),
                  (r'object\.id\(\)', 'OSMObject_id(object)'),
                  (r'assert\(!elem\.is_removed\(\)\);', 'assert(!element_is_removed(ARRIVE_INST(elem_it)));'),
                  (r'assert\(elem\.member_num < rel_handle->members\(\)\.size\(\)\);', '/* dropped by the extraction: assert(elem.member_num < rel_handle->members().size()) needs the Relation object */'),
                  (r'auto rel_handle = m_relations_db\[elem\.relation_pos\];', 'RelationHandle rel_handle = RelationsDatabase_at(m_relations_db, elem.relation_pos);'),
                  (r'std::forward<TFunc>\(func\)\(rel_handle\);', 'VERIF_COMPLETE(&rel_handle);')] + FOR_ELEM + RANGE_RULES)
MG = 'self->m_relations_db->m_elements.data[ghost_g].members'
ADD_PRE = ('__CPROVER_is_fresh(self, sizeof(*self)) && ghost_k <= 5 && ghost_hi - ghost_lo <= 3 && !self->m_init_phase && self->m_elements.size <= 5 && ghost_lo <= ghost_hi && ghost_hi <= self->m_elements.size && '
           '__CPROVER_is_fresh(self->m_elements.data, 6 * sizeof(element)) && __CPROVER_pointer_equals(ghost_base, self->m_elements.data) && '
           '__CPROVER_is_fresh(self->m_relations_db, sizeof(struct RelationsDatabase)) && self->m_relations_db->m_elements.size <= 4 && ghost_g < self->m_relations_db->m_elements.size && '
           '__CPROVER_is_fresh(self->m_relations_db->m_elements.data, 4 * sizeof(rel_element)) && '
           '(ghost_lo == ghost_hi || (IN_RANGE(ghost_k) && ghost_base[ghost_k].member_id == ghost_oid)) && ghost_cg == 0 && ghost_cb == 0 && ghost_cb_any == 0')
PIPELINES.append(Pipeline('U5_MembersDatabase_add_bounded', units=[U_isrem, U_add], prelude=lambda repo: prelude(repo) + GH5 + ADDOBJ_CALLEE, contracts={'MembersDatabase_add': [
    ('pre:a prepared database, the relations database, the elements of the id of the arriving object', 'requires', ADD_PRE),
    ('post:the result says whether a relation needs the object', 'ensures', '__CPROVER_return_value == (ghost_lo != ghost_hi)'),
    ('post:an object that is needed is stored and every element of its id carries its handle', 'ensures',
     'ghost_lo == ghost_hi || (ghost_hdl != 0 && ghost_base[ghost_k].object_handle.value == ghost_hdl)'),
    ('post:the counter of outstanding members of a relation goes down by the number of references it holds to the object (observed at an arbitrary relation)', 'ensures',
     MG + ' + ghost_cg == __CPROVER_old(' + MG + ')'),
    ('post:the relation is handed to the completion callback exactly once, at the moment its last outstanding member arrives - and not otherwise', 'ensures',
     'ghost_cb == ((ghost_cg > 0 && ' + MG + ' == 0) ? 1 : 0) && (ghost_lo != ghost_hi || ghost_cb_any == 0)'),
    ('frame', 'assigns', 'ghost_hdl, ghost_live, ghost_cg, ghost_cb, ghost_cb_any, __CPROVER_object_whole(self->m_elements.data), __CPROVER_object_whole(self->m_relations_db->m_elements.data)')]},
    loop_contracts=False, unwind=5, bounded='a members database of at most 5 elements, at most 3 of them for one member id, at most 4 relations (the loop over the elements of the id is unwound)',
    replace=['MembersDatabaseCommon_find', 'MembersDatabaseCommon_add_object', 'OSMObject_id', 'RelationsDatabase_at', 'RelationHandle_decrement_members', 'RelationHandle_has_all_members', 'VERIF_COMPLETE'],
    enforce='MembersDatabase_add',
    harness='void harness(void) { struct MembersDatabaseCommon* db; const void* o; bool r = MembersDatabase_add(db, o); __CPROVER_assert(ghost_cb == 0, "canary:completes"); __CPROVER_assert(ghost_cb != 0 || !r, "canary:incomplete"); }',
    canaries=['canary:completes', 'canary:incomplete'], replay=('c11_members', lambda cex, o: ['search']), timeout=900, object_bits=10,
    note='template MembersDatabase<TObject>::add<TFunc>: TObject enters only through object.id(), TFunc is the completion callback (assumed contract); relative to the contracts of add_object (U5) and RelationHandle (U4)'))

# the same contract for any way of writing the count (std::count_if, std::find_if + std::distance, a hand-written loop): bounded, loop unwound
FIND_IF_DIST = [(r'return std::distance\(range\.begin\(\), std::find_if\(range\.begin\(\), range\.end\(\), \[\]\(const element& elem\) \{\s*return ([^;]*);\s*\}\)\);',
                 r'element* elem_it = range.first; for (; elem_it != range.second; ++elem_it) { if (\1) { break; } } return elem_it - range.first;', '?')]
U_count_any = Unit(MDB, 'count_not_removed', cls='MembersDatabaseCommon', method=False, static=True, params=['el_range range'], ret='ptrdiff_t',
                   pre=[(COUNT_IF[0][0], COUNT_IF[0][1], '?')] + FIND_IF_DIST + FOR_ELEM + RANGE_RULES[1:])
PIPELINES.append(Pipeline('U2_count_not_removed_bounded', units=[U_isrem, U_count_any], prelude=lambda repo: prelude(repo) + GH2, contracts={'MembersDatabaseCommon_count_not_removed': [
    ('pre:a range of at most 5 elements', 'requires', 'ghost_lo <= ghost_hi && ghost_hi <= 5 && __CPROVER_is_fresh(ghost_base, 6 * sizeof(element)) && IN_RANGE(ghost_k1) && IN_RANGE(ghost_k2) && '
     '__CPROVER_pointer_equals(range.first, ghost_base + ghost_lo) && __CPROVER_pointer_equals(range.second, ghost_base + ghost_hi)')] + COUNT_CONTRACT[1:]},
    loop_contracts=False, unwind=7, bounded='ranges of at most 5 elements (loop unwound)', enforce='MembersDatabaseCommon_count_not_removed',
    harness='void harness(void) { el_range r; ptrdiff_t c = MembersDatabaseCommon_count_not_removed(r); __CPROVER_assert(c != 1, "canary:one"); __CPROVER_assert(c == 1, "canary:other"); }',
    canaries=['canary:one', 'canary:other'], replay=('c11_members', lambda cex, o: ['search']),
    note='stand-in that does not depend on how the count is written (the proof U2_count_not_removed follows the std::count_if form)'))

TRUSTED = ['std::equal_range on the vector sorted by member id (C++ standard): MembersDatabaseCommon::find() is replaced by its assumed contract',
           'std::sort in prepare_for_lookup()', 'ItemStash (under contract in C15; here its operations are assumed contracts)']
ASSUMPTIONS = ['HANDLE_OF: the representation invariant of the elements of one member id (same handle; a non-removed element with a valid handle implies the item is in the stash) is assumed at every read of an element handle and proved, at an arbitrary element, to be re-established by remove() and add_object()',
               'CNT_INST (remove): the consequence of the contract of count_not_removed "count 1 and w not removed ==> every other element removed", assumed at the element the loop looks at',
               'ARRIVE_INST / ensures of the operator[] stub (add): whole-history facts - an object arrives once; before it has arrived none of its elements is removed; the relation of such an element exists and has at least one outstanding member',
               'FIND_INST (add): the contract of find() (every element of the range has the id looked up), assumed at the element the loop looks at',
               'the completion callback changes no counter and alters elements only by marking them removed',
               'bounded units: at most 5 elements in the members database, at most 3 for one id, at most 4 relations']
NOT_DECIDED = ['MembersDatabaseCommon::track and prepare_for_lookup (std::sort), RelationsDatabase::add/remove/for_each_relation, the dropped assert(elem.member_num < rel_handle->members().size()) in add()', 'the whole-history statement (every complete relation is handed over exactly once, incomplete ones are listed): only the per-operation contracts that history rests on',
               'RelationsManager / MultipolygonManager templates, the callback-driven flush of the output buffer', 'SecondPassHandler ordering']
LEVEL_TEXT = ('Proof, per operation, for the counting and release kernel of the relations manager: MembersDatabaseCommon::get_object (a released object is reported as absent), count_not_removed, '
              'add_object, the RelationHandle counters. Bounded stand-ins (at most 3 elements per member id, loop unwound, never counted as proved): MembersDatabaseCommon::remove (released exactly with the '
              'last non-removed reference) and MembersDatabase::add (completion callback exactly when the counter of outstanding members reaches zero). The whole-history statement of C11 '
              '(exactly-once completion over a member stream, incomplete relations listed) is not decided; track/prepare_for_lookup, RelationsDatabase::add/remove and the manager templates are not under contract.')
LEVEL_NOTE = 'per-operation contracts over the real functions with a ghost view of the elements of one member id; std::equal_range/std::sort and ItemStash are assumed contracts'
