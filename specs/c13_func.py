"""C13: functional contract of string_to_location_coordinate against an exact decimal specification given as ghost digit tables
(DESIGN section 9, C13/U1b).  The string is not arbitrary here: the precondition lays it out as  -? DI{ni} ( . DF{nf} )? ( [eE] -? DE{ne} )? T
from ghost digits; the tables PRE / MUL / GE are the Horner values of digit prefixes, defined by the precondition (multiplications by the constant 10 only)."""

LIM = 2147483648          # the parser gives up scaling beyond this value
SAT = 1000000000000       # saturation value of the MUL table (> LIM)

GHOSTS = '''
unsigned g_neg, g_ni, g_dot, g_nf, g_exp, g_eneg, g_ne, g_upper;
unsigned char DI[10], DF[27], DE[5];
int64_t PRE[19];      /* PRE[k]: value of the first k digits of A8 = integer digits ++ first min(nf,8) fraction digits */
int64_t MUL[33];      /* MUL[t]: PRE[NA8] scaled up t times by ten, taking in the fraction digits beyond the 8th; saturates once it has exceeded LIM */
int64_t GE[6];        /* GE[k]: value of the first k exponent digits */
#define LIM %dLL
#define SAT %dLL
#define M8 (g_nf < 8 ? g_nf : 8u)
#define NA8 (g_ni + M8)
#define A8(k) ((k) < g_ni ? DI[(k)] : DF[(k) - g_ni])
#define EX(t) ((8u + (t)) < g_nf ? (int64_t)DF[8u + (t)] : (int64_t)0)
#define NEX (g_nf > 8 ? g_nf - 8u : 0u)
#define P_INT (g_neg)
#define P_DOT (g_neg + g_ni)
#define P_FRAC (P_DOT + 1u)
#define P_E (P_DOT + (g_dot ? 1u + g_nf : 0u))
#define P_EDIG (P_E + 1u + g_eneg)
#define P_END (g_exp ? P_EDIG + g_ne : P_E)
#define EVAL (g_exp ? (g_eneg ? -GE[g_ne] : GE[g_ne]) : (int64_t)0)
#define SFIN ((int64_t)8 - (int64_t)M8 + EVAL)
/* specification: the decimal number times 10^8, truncated (digit string with the decimal point moved) */
#define XSPEC (SFIN < 0 ? PRE[((int64_t)NA8 + SFIN > 0) ? (int64_t)NA8 + SFIN : 0] : (SFIN <= 32 ? MUL[SFIN] : (MUL[19] == 0 ? (int64_t)0 : SAT)))
#define GAVEUP (SFIN >= 1 && (SFIN <= 32 ? MUL[SFIN - 1] > LIM : MUL[19] != 0))
#define MAG ((XSPEC + 5) / 10)
#define VSPEC (g_neg ? -MAG : MAG)
#define ACCEPT (!GAVEUP && VSPEC >= INT32_MIN && VSPEC <= INT32_MAX)
''' % (LIM, SAT)


def requires():
    r = []
    r.append('g_neg <= 1 && g_dot <= 1 && g_exp <= 1 && g_eneg <= 1 && g_upper <= 1 && g_ni <= 10 && g_nf <= 27 && g_ne >= 1 && g_ne <= 5')
    r.append('(g_dot || g_nf == 0) && (g_ni >= 1 || (g_dot && g_nf >= 1)) && (g_exp || (g_eneg == 0))')
    S = '(*data)'
    r.append('(g_neg ? %s[0] == \'-\' : 1)' % S)
    for k in range(10):
        r.append('(DI[%d] <= 9 && (%d >= g_ni || %s[P_INT + %d] == \'0\' + DI[%d]))' % (k, k, S, k, k))
    r.append('(!g_dot || %s[P_DOT] == \'.\')' % S)
    for k in range(27):
        r.append('(DF[%d] <= 9 && (!g_dot || %d >= g_nf || %s[P_FRAC + %d] == \'0\' + DF[%d]))' % (k, k, S, k, k))
    r.append('(!g_exp || (%s[P_E] == (g_upper ? \'E\' : \'e\') && (!g_eneg || %s[P_E + 1] == \'-\')))' % (S, S))
    for k in range(5):
        r.append('(DE[%d] <= 9 && (!g_exp || %d >= g_ne || %s[P_EDIG + %d] == \'0\' + DE[%d]))' % (k, k, S, k, k))
    # terminator: whatever follows does not continue the token
    T = '%s[P_END]' % S
    r.append('P_END <= ghost_n && !(%s >= \'0\' && %s <= \'9\') && (g_dot || g_exp || %s != \'.\') && (g_exp || (%s != \'e\' && %s != \'E\'))' % (T, T, T, T, T))
    # tables
    r.append('PRE[0] == 0')
    for k in range(18):
        r.append('(%d >= NA8 || PRE[%d] == PRE[%d] * 10 + A8(%d))' % (k, k + 1, k, k))
    r.append('GE[0] == 0')
    for k in range(5):
        r.append('(%d >= g_ne || GE[%d] == GE[%d] * 10 + DE[%d])' % (k, k + 1, k, k))
    r.append('MUL[0] == PRE[NA8]')
    for t in range(32):
        r.append('MUL[%d] == (MUL[%d] > LIM ? SAT : MUL[%d] * 10 + EX(%du))' % (t + 1, t, t, t))
    return r


OFF = '__CPROVER_POINTER_OFFSET(str)'
SAME = '__CPROVER_same_object(str, full) && %s <= ghost_n' % OFF
EXTRA_UNSET = '__CPROVER_same_object(extra_digits, full) && extra_digits == extra_digits_end'
# extra digit pointers once the fraction has been scanned
EXTRA_SET = ('__CPROVER_same_object(extra_digits, full) && __CPROVER_same_object(extra_digits_end, full) && '
             '__CPROVER_POINTER_OFFSET(extra_digits_end) == (g_dot && g_nf > 8 ? P_FRAC + g_nf : __CPROVER_POINTER_OFFSET(extra_digits_end)) && '
             '(g_dot && g_nf > 8 ? 1 : extra_digits == extra_digits_end)')

LOOPS = [
    # 1: further integer digits. ki = digits consumed so far
    ['__CPROVER_assigns(str, max_digits, result)',
     '__CPROVER_loop_invariant(%s && %s >= P_INT + 1 && %s <= P_INT + g_ni && max_digits == 11 - (int)(%s - P_INT) && result == PRE[%s - P_INT])' % (SAME, OFF, OFF, OFF, OFF),
     '__CPROVER_decreases(max_digits)'],
    # 2: significant fraction digits. kf = 8 - scale
    ['__CPROVER_assigns(str, scale, result)',
     '__CPROVER_loop_invariant(%s && scale >= 0 && scale <= 8 && (uint64_t)(8 - scale) <= M8 && %s == P_FRAC + (uint64_t)(8 - scale) && result == PRE[g_ni + (uint64_t)(8 - scale)])' % (SAME, OFF),
     '__CPROVER_decreases(scale)'],
    # 3: fraction digits beyond the 8th
    ['__CPROVER_assigns(str, max_digits)',
     '__CPROVER_loop_invariant(%s && max_digits >= 0 && max_digits <= 20 && g_nf >= 8 && %s == P_FRAC + 8 + (uint64_t)(20 - max_digits) && %s <= P_FRAC + g_nf)' % (SAME, OFF, OFF),
     '__CPROVER_decreases(max_digits)'],
    # 4: exponent digits. ke = digits consumed
    ['__CPROVER_assigns(str, max_digits, eresult)',
     '__CPROVER_loop_invariant(%s && %s >= P_EDIG + 1 && %s <= P_EDIG + g_ne && max_digits == 6 - (int)(%s - P_EDIG) && eresult == GE[%s - P_EDIG])' % (SAME, OFF, OFF, OFF, OFF),
     '__CPROVER_decreases(max_digits)'],
    # 5: scale < 0: drop digits. it = scale - entry scale
    ['__CPROVER_assigns(scale, result)',
     '__CPROVER_loop_invariant(scale <= 0 && scale >= __CPROVER_loop_entry(scale) && scale - __CPROVER_loop_entry(scale) <= (int64_t)NA8 && result == PRE[(int64_t)NA8 - (scale - __CPROVER_loop_entry(scale))])',
     '__CPROVER_decreases(-scale)'],
    # 6: scale > 0: scale up, taking in the extra digits. it = entry scale - scale
    ['__CPROVER_assigns(scale, result, extra_digits, verif_exc)',
     '__CPROVER_loop_invariant(scale >= 0 && scale <= __CPROVER_loop_entry(scale) && verif_exc == 0 && __CPROVER_same_object(extra_digits, full) && '
     '((__CPROVER_loop_entry(scale) - scale) <= 32 ? (result == MUL[__CPROVER_loop_entry(scale) - scale] && ((__CPROVER_loop_entry(scale) - scale) == 0 || MUL[__CPROVER_loop_entry(scale) - scale - 1] <= LIM)) : (result == 0 && MUL[19] == 0)) && '
     '(g_dot && g_nf > 8 ? __CPROVER_POINTER_OFFSET(extra_digits) == P_FRAC + 8 + ((uint64_t)(__CPROVER_loop_entry(scale) - scale) < NEX ? (uint64_t)(__CPROVER_loop_entry(scale) - scale) : NEX) : extra_digits == extra_digits_end))',
     '__CPROVER_decreases(scale)'],
]


def contract(base_requires):
    c = [('pre:nul-terminated-string', 'requires', base_requires)]
    for i, r in enumerate(requires()):
        c.append(('pre:layout-and-tables-%d' % i, 'requires', r))
    c += [
        ('post:accepted exactly when the value, rounded half up to seven decimal places, fits a coordinate', 'ensures', '(verif_exc == 0) == (ACCEPT)'),
        ('post:rejected with invalid_location', 'ensures', 'verif_exc == 0 || verif_exc == EXC_invalid_location'),
        ('post:the value is the decimal number rounded half up to seven places, exactly', 'ensures', 'verif_exc != 0 || __CPROVER_return_value == VSPEC'),
        ('post:exactly the token is consumed', 'ensures', 'verif_exc != 0 || __CPROVER_POINTER_OFFSET(*data) == P_END'),
        ('frame', 'assigns', '*data, verif_exc'),
    ]
    return c
