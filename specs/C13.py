"""C13 - coordinate, timestamp and number text conversions are exact and strict."""
from cv import Pipeline, Unit
from specs.common import *
import cx

PROPERTY = 'C13'
LEVEL = 'proof'

LOC = 'include/osmium/osm/location.hpp'
OPL = 'include/osmium/io/detail/opl_parser_functions.hpp'
OUT = 'include/osmium/io/detail/output_format.hpp'
TFS = 'include/osmium/osm/types_from_string.hpp'

GHOST = 'size_t ghost_n;   /* ghost: length of the NUL-terminated input string */\n'
FRAME0 = ('frame', 'assigns', '')

# ------------------------------------------------------------------ U1: string_to_location_coordinate, safety
U_s2c = Unit(LOC, 'string_to_location_coordinate', witness=[('(*data)', 'ghost_n + 1', 56)])

INSTR = IN_STR1 % dict(p='str', base='full')
U1_LOOPS = [
    # 1: additional integer digits
    ['__CPROVER_assigns(str, max_digits, result)',
     '__CPROVER_loop_invariant(%s && 0 <= max_digits && max_digits <= 10 && result >= 0 && %s)'
     % (INSTR, pow10_table('max_digits', 'result', lambda c: 11 - c, range(0, 11))),
     '__CPROVER_decreases(max_digits)'],
    # 2: significant fraction digits
    ['__CPROVER_assigns(str, scale, result)',
     '__CPROVER_loop_invariant(%s && 0 <= scale && scale <= 8 && result >= 0 && %s)'
     % (INSTR, pow10_table('scale', 'result', lambda c: 18 - c, range(0, 9))),
     '__CPROVER_decreases(scale)'],
    # 3: ignored fraction digits
    # (the characters skipped here are all digits: at most 20, so the fact is a finite conjunction, no quantifier; the multiply loop reads them again)
    ['__CPROVER_assigns(str, max_digits)',
     '__CPROVER_loop_invariant(%s && 0 <= max_digits && max_digits <= 20 && __CPROVER_POINTER_OFFSET(str) == __CPROVER_POINTER_OFFSET(__CPROVER_loop_entry(str)) + (20 - max_digits) && %s)'
     % (INSTR, ' && '.join('(%d >= 20 - max_digits || (__CPROVER_loop_entry(str)[%d] >= \'0\' && __CPROVER_loop_entry(str)[%d] <= \'9\'))' % (k, k, k) for k in range(20))),
     '__CPROVER_decreases(max_digits)'],
    # 4: exponent digits
    ['__CPROVER_assigns(str, max_digits, eresult)',
     '__CPROVER_loop_invariant(%s && 0 <= max_digits && max_digits <= 5 && eresult >= 0 && %s)'
     % (INSTR, pow10_table('max_digits', 'eresult', lambda c: 6 - c, range(0, 6))),
     '__CPROVER_decreases(max_digits)'],
    # 5: negative scale: divide
    ['__CPROVER_assigns(scale, result)',
     '__CPROVER_loop_invariant(scale <= 0 && scale >= -1000000 && result >= 0 && result <= __CPROVER_loop_entry(result))',
     '__CPROVER_decreases(-scale)'],
    # 6: positive scale: multiply
    ['__CPROVER_assigns(scale, result, extra_digits, verif_exc)',
     '__CPROVER_loop_invariant(scale >= 0 && result >= 0 && result < 1000000000000000000LL && verif_exc == 0 && __CPROVER_same_object(extra_digits, extra_digits_end) && '
     '__CPROVER_POINTER_OFFSET(__CPROVER_loop_entry(extra_digits)) <= __CPROVER_POINTER_OFFSET(extra_digits) && __CPROVER_POINTER_OFFSET(extra_digits) <= __CPROVER_POINTER_OFFSET(extra_digits_end))',
     '__CPROVER_decreases(scale)'],
]
U1_CONTRACT = [
    ('pre:nul-terminated-string', 'requires', STR_PP_REQUIRES % dict(pp='data')),
    ('post:exception-class', 'ensures', 'verif_exc == 0 || verif_exc == EXC_invalid_location'),
    ('post:rejected-input-not-consumed', 'ensures', 'verif_exc == 0 || *data == __CPROVER_old(*data)'),
    ('post:consumed-same-string', 'ensures', 'verif_exc != 0 || __CPROVER_same_object(*data, __CPROVER_old(*data))'),
    ('post:consumed-at-least-one', 'ensures', 'verif_exc != 0 || __CPROVER_POINTER_OFFSET(*data) >= 1'),
    ('post:consumed-within-string', 'ensures', 'verif_exc != 0 || __CPROVER_POINTER_OFFSET(*data) <= ghost_n'),
    ('frame', 'assigns', '*data, verif_exc'),
]
H_U1 = '''
void harness(void) { const char** d; int32_t r = string_to_location_coordinate(d); __CPROVER_assert(verif_exc != 0, "canary:normal-return-reachable"); __CPROVER_assert(verif_exc == 0, "canary:throw-reachable"); }
'''


def cex_coord(cex, o):
    b = cex.witness('string_to_location_coordinate')
    return ['coord', hexs(b.split(b'\0')[0])]


PIPELINES = [
    Pipeline('U1_coordinate_parser_safety', units=[U_s2c], prelude=GHOST, contracts={'string_to_location_coordinate': U1_CONTRACT},
             loops={'string_to_location_coordinate': U1_LOOPS}, harness=H_U1, enforce='string_to_location_coordinate',
             canaries=['canary:normal-return-reachable', 'canary:throw-reachable'], timeout=1200, split=14,
             replay=('c13_text', cex_coord),
             note='arbitrary NUL-terminated string of any length: no read past the NUL, no signed overflow, exception class, consumption'),
]


# ------------------------------------------------------------------ U2: append_location_coordinate_to_string<char*> and L1 round trip
U_fmt = Unit(LOC, 'append_location_coordinate_to_string', bind={'T': 'char*'}, ret='char*')
ENUMS = 'enum { coordinate_precision = 10000000 };\n'
H_FMT = '''
void harness(void) {
  int32_t x; char buf[13]; verif_exc = 0;
  char* e = append_location_coordinate_to_string(buf, x);
  __CPROVER_assert(__CPROVER_same_object(e, buf) && e - buf >= 1 && e - buf <= 12, "U2 writes between 1 and 12 characters (documented maximum)");
  __CPROVER_assert(buf[0] == '-' || (buf[0] >= '0' && buf[0] <= '9'), "U2 starts with sign or digit");
  __CPROVER_assert(e[-1] != '.' && (e[-1] != '0' || e - buf == 1 || (e - buf == 2 && buf[0] == '-') || e[-2] != '.' ), "U2 no trailing decimal point");
  *e = 0;
  const char* p = buf; const char** d = &p;
  ghost_n = e - buf;
  int32_t r = string_to_location_coordinate(d);
  __CPROVER_assert(verif_exc == 0, "L1 the written text is accepted by the parser");
  __CPROVER_assert(r == x, "L1 parse(format(x)) == x");
  __CPROVER_assert(p == e, "L1 the parser consumes exactly the written text");
  __CPROVER_assert(0, "canary");
}
'''
L1_UNWINDSET = {'string_to_location_coordinate.0': 11, 'string_to_location_coordinate.1': 9, 'string_to_location_coordinate.2': 21,
                'string_to_location_coordinate.3': 6, 'string_to_location_coordinate.4': 20, 'string_to_location_coordinate.5': 10,
                'append_location_coordinate_to_string.0': 11, 'append_location_coordinate_to_string.1': 8,
                'append_location_coordinate_to_string.2': 11, 'append_location_coordinate_to_string.3': 11, 'copy_n.0': 13}
PIPELINES.append(Pipeline('L1_roundtrip_direct', units=[U_fmt, U_s2c], prelude=GHOST + ENUMS, defines=['VERIF_STUB_BODIES'],
                          harness=H_FMT, unwind=24, unwindset=L1_UNWINDSET, loop_contracts=False, solver='kissat', timeout=1500, tier='thorough',
                          replay=('c13_text', lambda cex, o: ['fmt', cex.first('x', 0)]),
                          note='both real bodies inlined; every loop is bounded by a constant (digits of an int32, the parser\'s own digit limits), so unwinding with unwinding assertions is complete: all 2^32 coordinates'))


# ------------------------------------------------------------------ U1 functional, bounded stand-in
import os
REF = open(os.path.join(os.path.dirname(os.path.abspath(__file__)), '..', 'stubs', 'c13_ref.h')).read()
BN = 9
H_FUNC = '''
void harness(void) {
  char buf[%(N1)d]; size_t n; __CPROVER_assume(n <= %(N)d); buf[n] = 0;
  for (size_t k = 0; k < %(N)d; ++k) if (k < n) __CPROVER_assume(buf[k] != 0);
  verif_exc = 0; ghost_n = n;
  const char* p = buf; const char** d = &p;
  int32_t r = string_to_location_coordinate(d);
  struct ref_result want = ref_coord(buf, n);
  __CPROVER_assume(want.E >= -30 && want.E <= 30);   /* bound of this stand-in: small exponents */
  __CPROVER_assert((verif_exc == 0) == (want.ok != 0), "F accepted exactly when the grammar accepts and the value is representable");
  __CPROVER_assert(verif_exc == 0 || verif_exc == EXC_invalid_location, "F rejected with invalid_location");
  __CPROVER_assert(verif_exc != 0 || r == want.value, "F value is the decimal value rounded half up to 7 places");
  __CPROVER_assert(verif_exc != 0 || (size_t)(p - buf) == want.consumed, "F consumes exactly the token");
  __CPROVER_assert(0, "canary");
}
''' % dict(N=BN, N1=BN + 1)
# the bounded stand-in U1_coordinate_parser_value_bounded (strings <= 0 characters, complete unwinding) never finished within 50 minutes and is superseded by the
# unbounded pipeline U1_coordinate_parser_value below; H_FUNC is kept for probes only


# ------------------------------------------------------------------ U6: opl_parse_int<T>
EXC_OPL = ''
INT_BINDS = [('i64', 'int64_t', 'INT64_MIN', 'INT64_MAX', 'id'), ('u32', 'uint32_t', '0', 'UINT32_MAX', 'version, uid, changeset'), ('i32', 'int32_t', 'INT32_MIN', 'INT32_MAX', 'signed uid')]
for tag, T, tmin, tmax, use in INT_BINDS:
    u = Unit(OPL, 'opl_parse_int', cname='opl_parse_int_' + tag, bind={'T': T, '#VERIF_T_MIN': tmin, '#VERIF_T_MAX': tmax},
             witness=[('(*s)', 'ghost_n + 1', 32)])
    contract = [
        ('pre:nul-terminated-string', 'requires', STR_PP_REQUIRES % dict(pp='s')),
        ('post:exception-class', 'ensures', 'verif_exc == 0 || verif_exc == EXC_opl_error'),
        ('post:consumed-within-string', 'ensures', '__CPROVER_same_object(*s, __CPROVER_old(*s)) && __CPROVER_POINTER_OFFSET(*s) <= ghost_n'),
        ('post:consumed-at-least-one-digit', 'ensures', 'verif_exc != 0 || (__CPROVER_POINTER_OFFSET(*s) >= 1 && (*s)[-1] >= \'0\' && (*s)[-1] <= \'9\')'),
        ('post:greedy', 'ensures', 'verif_exc != 0 || **s < \'0\' || **s > \'9\''),
        ('post:in-range-of-T', 'ensures', 'verif_exc != 0 || (__CPROVER_return_value >= (%s) && __CPROVER_return_value <= (%s))' % (tmin, tmax)),
        ('frame', 'assigns', '*s, verif_exc'),
    ]
    loops = [['__CPROVER_assigns(*s, value, verif_exc)',
              '__CPROVER_loop_invariant(__CPROVER_same_object(*s, __CPROVER_loop_entry(*s)) && __CPROVER_POINTER_OFFSET(*s) <= ghost_n && '
              '__CPROVER_POINTER_OFFSET(*s) >= __CPROVER_POINTER_OFFSET(__CPROVER_loop_entry(*s)) && value <= 0 && verif_exc == 0 && '
              '(__CPROVER_POINTER_OFFSET(*s) == __CPROVER_POINTER_OFFSET(__CPROVER_loop_entry(*s)) || ((*s)[-1] >= \'0\' && (*s)[-1] <= \'9\')))',
              '__CPROVER_decreases(ghost_n - __CPROVER_POINTER_OFFSET(*s))']]
    PIPELINES.append(Pipeline('U6_opl_parse_int_' + tag, units=[u], prelude=GHOST, contracts={u.cname: contract}, loops={u.cname: loops},
                              harness='void harness(void) { const char** d; %s r = %s(d); __CPROVER_assert(verif_exc != 0, "canary:normal-return-reachable"); __CPROVER_assert(verif_exc == 0, "canary:throw-reachable"); }' % (T, u.cname),
                              enforce=u.cname, canaries=['canary:normal-return-reachable', 'canary:throw-reachable'], timeout=300,
                              replay=('c13_text', (lambda T, cn: (lambda cex, o: ['int', T, hexs(cex.witness(cn).split(b'\\0')[0])]))(T, u.cname)),
                              note='opl_parse_int<%s> (%s): any NUL-terminated string: no overflow, no read past the NUL, greedy, result within the type' % (T, use)))
    # bounded functional stand-in: value equals the decimal value of the digits
    IN = 21
    PIPELINES.append(Pipeline('U6_opl_parse_int_%s_value_bounded' % tag, units=[u], prelude=GHOST, unwind=IN + 2, loop_contracts=False, solver='kissat', timeout=(3600 if tag == 'i64' else 2400), tier='thorough',
                              harness='''
void harness(void) {
  char buf[%(N1)d]; size_t n; __CPROVER_assume(n <= %(N)d); buf[n] = 0; verif_exc = 0; ghost_n = n;
  const char* p = buf; const char** d = &p;
  %(T)s r = %(fn)s(d);
  /* reference: -?D+ greedy, exact value in 128 bit, must lie in the type */
  size_t i = 0; int neg = 0; if (buf[0] == '-') { neg = 1; i = 1; }
  int ok = buf[i] >= '0' && buf[i] <= '9';
  __int128 v = 0;
  for (size_t k = 0; k < %(N)d; ++k) { if (ok && i < n && buf[i] >= '0' && buf[i] <= '9') { v = v * 10 + (buf[i] - '0'); ++i; } }
  if (neg) v = -v;
  if (v < (__int128)(%(tmin)s) || v > (__int128)(%(tmax)s)) ok = 0;
  __CPROVER_assert((verif_exc == 0) == (ok != 0), "F accepted exactly when it is an integer within the range of the type");
  __CPROVER_assert(verif_exc != 0 || (__int128)r == v, "F value equals the decimal value");
  __CPROVER_assert(verif_exc != 0 || (size_t)(p - buf) == i, "F consumes exactly the digits");
  __CPROVER_assert(0, "canary");
}''' % dict(N=IN, N1=IN + 1, T=T, fn=u.cname, tmin=tmin, tmax=tmax),
                              bounded='input strings of at most %d characters' % IN,
                              replay=('c13_text', (lambda T: (lambda cex, o: ['int', T, hexs(bytes((cex.first('buf[%dl]' % k, 0) or 0) & 255 for k in range(21)).split(b'\\0')[0])]))(T)),
                              note='functional correctness against an exact 128-bit reference, bounded stand-in'))


# ------------------------------------------------------------------ U1 functional: exact decimal value for every string of the grammar (unbounded)
import specs.c13_func as FUNC
U_s2c_f = Unit(LOC, 'string_to_location_coordinate')
PIPELINES.append(Pipeline('U1_coordinate_parser_value', units=[U_s2c_f], prelude=GHOST + FUNC.GHOSTS,
                          contracts={'string_to_location_coordinate': FUNC.contract(STR_PP_REQUIRES % dict(pp='data'))}, loops={'string_to_location_coordinate': FUNC.LOOPS},
                          harness='void harness(void) { const char** d; int32_t r = string_to_location_coordinate(d); __CPROVER_assert(verif_exc != 0, "canary:normal-return-reachable"); __CPROVER_assert(verif_exc == 0, "canary:throw-reachable"); }',
                          enforce='string_to_location_coordinate', canaries=['canary:normal-return-reachable', 'canary:throw-reachable'], timeout=2400, solver='kissat', split=14, tier='thorough',
                          replay=('c13_text', lambda cex, o: ['search']),
                          note='every string of the grammar (sign, up to 10 integer digits, up to 27 fraction digits, exponent of up to 5 digits, any terminator): value and acceptance against the exact decimal specification'))


# ------------------------------------------------------------------ U4: timestamps
TSH = 'include/osmium/osm/timestamp.hpp'
TS_PRELUDE = GHOST + '''
#include <time.h>
/* timegm: assumed contract (libc calendar arithmetic is trusted). Its precondition records what the parser must have validated before calling it */
struct tm ghost_tm; long ghost_timegm_result;
time_t verif_timegm(struct tm* t)
__CPROVER_requires(__CPROVER_r_ok(t, sizeof(*t)) && t->tm_year >= 0 && t->tm_year <= 8099 && t->tm_mon >= 0 && t->tm_mon <= 11 && t->tm_mday >= 1 && t->tm_mday <= 31 &&
                   t->tm_hour >= 0 && t->tm_hour <= 23 && t->tm_min >= 0 && t->tm_min <= 59 && t->tm_sec >= 0 && t->tm_sec <= 60)
__CPROVER_assigns(ghost_tm)
__CPROVER_ensures(__CPROVER_return_value == ghost_timegm_result && ghost_tm.tm_year == t->tm_year && ghost_tm.tm_mon == t->tm_mon && ghost_tm.tm_mday == t->tm_mday &&
                  ghost_tm.tm_hour == t->tm_hour && ghost_tm.tm_min == t->tm_min && ghost_tm.tm_sec == t->tm_sec)
;
#define DG(p, k) ((p)[k] - '0')
'''
U_frac = Unit(TSH, 'fractional_seconds')
U_pts = Unit(TSH, 'parse_timestamp', sig=r'const char\*\* s', ret='time_t',
             pre=[(r'static const std::array<int, 12> mon_lengths = \{\{', 'static const int mon_lengths[12] = {'), (r'\}\};', '};'), (r'std::tm tm;', 'struct tm tm;'), (r'return timegm\(&tm\);', 'return verif_timegm(&tm);')],
             witness=[('(*s)', 'ghost_n + 1', 32)])
FRAC_CONTRACT = [
    ('pre', 'requires', '__CPROVER_r_ok(s, sizeof(*s)) && __CPROVER_r_ok(*s - __CPROVER_POINTER_OFFSET(*s), ghost_n + 1) && __CPROVER_POINTER_OFFSET(*s) <= ghost_n && (*s - __CPROVER_POINTER_OFFSET(*s))[ghost_n] == 0'),
    ('post:stays inside the string; true only at a Z after .digits or ,digits', 'ensures',
     '__CPROVER_same_object(*s, __CPROVER_old(*s)) && __CPROVER_POINTER_OFFSET(*s) <= ghost_n && __CPROVER_POINTER_OFFSET(*s) >= __CPROVER_POINTER_OFFSET(__CPROVER_old(*s)) && '
     '(!__CPROVER_return_value || (**s == \'Z\' && __CPROVER_POINTER_OFFSET(*s) >= __CPROVER_POINTER_OFFSET(__CPROVER_old(*s)) + 2))'),
    ('frame', 'assigns', '*s')]
FRAC_LOOP = [['__CPROVER_assigns(str)', '__CPROVER_loop_invariant(__CPROVER_same_object(str, *s) && __CPROVER_POINTER_OFFSET(str) < ghost_n && __CPROVER_POINTER_OFFSET(str) > __CPROVER_POINTER_OFFSET(*s) && *str >= \'0\' && *str <= \'9\')',
              '__CPROVER_decreases(ghost_n - __CPROVER_POINTER_OFFSET(str))']]
PIPELINES.append(Pipeline('U4_fractional_seconds', units=[U_frac], prelude=GHOST, contracts={'fractional_seconds': [
    ('pre:pointer into a NUL-terminated string', 'requires', 'ghost_n < VERIF_MAXLEN && __CPROVER_is_fresh(s, sizeof(*s)) && __CPROVER_is_fresh(*s, ghost_n + 1) && (*s)[ghost_n] == 0')] + FRAC_CONTRACT[1:]},
    loops={'fractional_seconds': FRAC_LOOP}, enforce='fractional_seconds',
    harness='void harness(void) { const char** d; fractional_seconds(d); __CPROVER_assert(0, "canary"); }', replay=('c13_text', lambda cex, o: ['ts-search'])))
PTS_CONTRACT = [
    ('pre:nul-terminated-string', 'requires', STR_PP_REQUIRES % dict(pp='s')),
    ('post:only invalid_argument is thrown', 'ensures', 'verif_exc == 0 || verif_exc == EXC_invalid_argument'),
    ('post:accepted timestamps have the form yyyy-mm-ddThh:mm:ss[.,digits]Z and are consumed exactly', 'ensures',
     'verif_exc != 0 || (__CPROVER_same_object(*s, __CPROVER_old(*s)) && __CPROVER_POINTER_OFFSET(*s) >= 20 && __CPROVER_POINTER_OFFSET(*s) <= ghost_n && (*s)[-1] == \'Z\' && '
     '__CPROVER_old(*s)[4] == \'-\' && __CPROVER_old(*s)[7] == \'-\' && __CPROVER_old(*s)[10] == \'T\' && __CPROVER_old(*s)[13] == \':\' && __CPROVER_old(*s)[16] == \':\')'),
    ('post:exactly the validated calendar fields reach the calendar function, whose result is returned', 'ensures',
     'verif_exc != 0 || (__CPROVER_return_value == ghost_timegm_result && ghost_tm.tm_year == DG(__CPROVER_old(*s), 0) * 1000 + DG(__CPROVER_old(*s), 1) * 100 + DG(__CPROVER_old(*s), 2) * 10 + DG(__CPROVER_old(*s), 3) - 1900 && '
     'ghost_tm.tm_mon == DG(__CPROVER_old(*s), 5) * 10 + DG(__CPROVER_old(*s), 6) - 1 && ghost_tm.tm_mday == DG(__CPROVER_old(*s), 8) * 10 + DG(__CPROVER_old(*s), 9) && '
     'ghost_tm.tm_hour == DG(__CPROVER_old(*s), 11) * 10 + DG(__CPROVER_old(*s), 12) && ghost_tm.tm_min == DG(__CPROVER_old(*s), 14) * 10 + DG(__CPROVER_old(*s), 15) && ghost_tm.tm_sec == DG(__CPROVER_old(*s), 17) * 10 + DG(__CPROVER_old(*s), 18))'),
    ('post:days beyond the length of the month, month 0 or 13, hour 24, minute 60, second 61 and years before 1900 are rejected', 'ensures',
     'verif_exc != 0 || (ghost_tm.tm_year >= 0 && ghost_tm.tm_mon >= 0 && ghost_tm.tm_mon <= 11 && ghost_tm.tm_mday >= 1 && '
     'ghost_tm.tm_mday <= (ghost_tm.tm_mon == 1 ? 29 : (ghost_tm.tm_mon == 3 || ghost_tm.tm_mon == 5 || ghost_tm.tm_mon == 8 || ghost_tm.tm_mon == 10) ? 30 : 31) && ghost_tm.tm_hour <= 23 && ghost_tm.tm_min <= 59 && ghost_tm.tm_sec <= 60)'),
    ('frame', 'assigns', '*s, verif_exc, ghost_tm'),
]
PIPELINES.append(Pipeline('U4_parse_timestamp', units=[U_frac, U_pts], prelude=TS_PRELUDE, contracts={'parse_timestamp': PTS_CONTRACT, 'fractional_seconds': FRAC_CONTRACT},
                          replace=['fractional_seconds', 'verif_timegm'], enforce='parse_timestamp', noflags=['--pointer-overflow-check'],
                          harness='void harness(void) { const char** d; parse_timestamp(d); __CPROVER_assert(verif_exc != 0, "canary:normal"); __CPROVER_assert(verif_exc == 0, "canary:throw"); }',
                          canaries=['canary:normal', 'canary:throw'], timeout=900, split=12,
                          replay=('c13_text', lambda cex, o: ['ts', hexs(cex.witness('parse_timestamp').split(b'\\0')[0])]),
                          note='arbitrary NUL-terminated string of any length: character k is only read after characters < k were non-NUL; *s += 19 is formed before validation (pointer arithmetic check off for this unit: forming, not using, a pointer past a short string)'))

# ---- U4b: Timestamp::to_iso_str - the text written for a timestamp (relative to gmtime_r) ---------------------------------------------------------------
ISO_PRELUDE = '''
#include <time.h>
struct tm ghost_tm;   /* ghost: what gmtime_r returns for the timestamp */
/* gmtime_r (libc, trusted): calendar fields of a time between 1970 and 2106 (the 32-bit range of Timestamp) */
struct tm* verif_gmtime_r(const time_t* t, struct tm* out) { *out = ghost_tm; return out; }
struct Timestamp { uint32_t m_timestamp; };
time_t Timestamp_seconds_since_epoch(const struct Timestamp* self) { return (time_t)self->m_timestamp; }
#define TM_OK(t) ((t).tm_year >= 70 && (t).tm_year <= 206 && (t).tm_mon >= 0 && (t).tm_mon <= 11 && (t).tm_mday >= 1 && (t).tm_mday <= 31 && (t).tm_hour >= 0 && (t).tm_hour <= 23 && \\
                  (t).tm_min >= 0 && (t).tm_min <= 59 && (t).tm_sec >= 0 && (t).tm_sec <= 60)
#define D(c) ((c) - '0')
'''
U_a2 = Unit(TSH, 'add_2digit_int_to_string', strs=['out'])
U_a4 = Unit(TSH, 'add_4digit_int_to_string', strs=['out'])
U_iso = Unit(TSH, 'to_iso_str', cls='Timestamp', selftype='const struct Timestamp', strs=['s'], stub_siblings={'seconds_since_epoch': 'Timestamp_seconds_since_epoch'},
             pre=[(r'std::tm tm;', 'struct tm tm;'), (r'auto result =\s*gmtime_r\(&sse, &tm\);', 'struct tm* result = verif_gmtime_r(&sse, &tm);'), (r'detail::add_(\d)digit_int_to_string', r'add_\1digit_int_to_string')])
PIPELINES.append(Pipeline('U4_to_iso_str', units=[U_a2, U_a4, U_iso], stubs=['vstr_exec.h'], prelude=ISO_PRELUDE, loop_contracts=False, unwind=4, harness='''
void harness(void) {
  struct Timestamp ts; vstr s; s.size = 0; struct tm g; ghost_tm = g; __CPROVER_assume(TM_OK(ghost_tm));
  Timestamp_to_iso_str(&ts, &s);
  __CPROVER_assert(s.size == 20, "U4b the text has the fixed length of yyyy-mm-ddThh:mm:ssZ");
  __CPROVER_assert(s.data[4] == '-' && s.data[7] == '-' && s.data[10] == 'T' && s.data[13] == ':' && s.data[16] == ':' && s.data[19] == 'Z', "U4b separators are where parse_timestamp expects them");
  __CPROVER_assert(D(s.data[0]) * 1000 + D(s.data[1]) * 100 + D(s.data[2]) * 10 + D(s.data[3]) == ghost_tm.tm_year + 1900 && D(s.data[5]) * 10 + D(s.data[6]) == ghost_tm.tm_mon + 1 &&
                   D(s.data[8]) * 10 + D(s.data[9]) == ghost_tm.tm_mday && D(s.data[11]) * 10 + D(s.data[12]) == ghost_tm.tm_hour && D(s.data[14]) * 10 + D(s.data[15]) == ghost_tm.tm_min &&
                   D(s.data[17]) * 10 + D(s.data[18]) == ghost_tm.tm_sec, "U4b the digits are the calendar fields, so parse_timestamp hands exactly these fields back to timegm");
  __CPROVER_assert(s.data[0] >= '1' && s.data[0] <= '2' && s.data[1] >= '0' && s.data[1] <= '9' && s.data[5] >= '0' && s.data[5] <= '1' && s.data[18] >= '0' && s.data[18] <= '9', "U4b every position is a decimal digit");
  __CPROVER_assert(0, "canary"); }''', replay=('c13_text', lambda cex, o: ['--search', '1', 'timestamp']), noflags=['--conversion-check'],
                          note='all calendar fields gmtime_r can return for a 32-bit timestamp; loop-free, complete; executable string model; asserts of the digit helpers are obligations'))

# ---- U9: output_int - the decimal text of an int64 (ids, versions, ... in the OPL and XML writers) --------------------------------------------------
OUTF = 'include/osmium/io/detail/output_format.hpp'
U_oint = Unit(OUTF, 'output_int', cls='OutputBlock', selftype='struct OutputBlock',
              pre=[(r"\*m_out \+= '-';", "vstr_push_char(m_out, '-');"), (r'm_out->size\(\)', 'm_out->size'), (r'm_out->resize\(', 'vstr_resize(m_out, '), (r'&\(\*m_out\)\[old_size\]', 'vstr_at(m_out, old_size)')])
PIPELINES.append(Pipeline('U9_output_int', units=[U_oint], stubs=['vstr_exec.h'], prelude='struct OutputBlock { vstr* m_out; };\n', loop_contracts=False, unwind=21, solver='kissat', timeout=900, harness='''
void harness(void) {
  vstr s; s.size = 0; struct OutputBlock b; b.m_out = &s; int64_t v;
  OutputBlock_output_int(&b, v);
  const size_t first = (v < 0) ? 1 : 0;
  __CPROVER_assert(s.size >= first + 1 && s.size <= first + 19 + (v == INT64_MIN ? 0 : 0), "U9 a sign for negative values and 1 to 19 digits");
  __CPROVER_assert((v < 0) == (s.data[0] == '-'), "U9 minus sign exactly for negative values");
  size_t k; __CPROVER_assume(k >= first && k < s.size);
  __CPROVER_assert(s.data[k] >= '0' && s.data[k] <= '9', "U9 every other character is a decimal digit");
  __CPROVER_assert(s.size == first + 1 || s.data[first] != '0', "U9 no leading zero");
  /* the last digit is the value modulo ten (the full read-back needs 64-bit division reasoning that no back end finished: bounded stand-in below) */
  __CPROVER_assert((uint64_t)(s.data[s.size - 1] - '0') == (v < 0 ? (uint64_t)0 - (uint64_t)v : (uint64_t)v) % 10, "U9 the last digit is the magnitude modulo ten");
  __CPROVER_assert(0, "canary"); }''', replay=('c13_text', lambda cex, o: ['outint', cex.first('v', 0)]), noflags=['--conversion-check', '--unsigned-overflow-check'],
                          note='all 2^64 values; complete unwinding (at most 20 digits); executable string model'))

PIPELINES.append(Pipeline('U9_output_int_value_bounded', units=[U_oint], stubs=['vstr_exec.h'], prelude='struct OutputBlock { vstr* m_out; };\n', loop_contracts=False, unwind=21, solver='kissat', timeout=2400, tier='thorough', harness='''
void harness(void) {
  vstr s; s.size = 0; struct OutputBlock b; b.m_out = &s; int64_t v; __CPROVER_assume(v >= -9999999 && v <= 9999999);
  OutputBlock_output_int(&b, v);
  const size_t first = (v < 0) ? 1 : 0;
  uint64_t acc = 0; for (size_t i = first; i < s.size; ++i) { acc = acc * 10 + (uint64_t)(s.data[i] - '0'); }
  __CPROVER_assert(acc == (v < 0 ? (uint64_t)0 - (uint64_t)v : (uint64_t)v), "U9 bounded: the digits read back give the magnitude of the value");
  __CPROVER_assert(0, "canary"); }''', replay=('c13_text', lambda cex, o: ['outint', cex.first('v', 0)]), noflags=['--conversion-check', '--unsigned-overflow-check'],
                          bounded='values between -9999999 and 9999999 (the read-back for all 2^64 values did not finish on any back end)',
                          note='bounded stand-in for the value of output_int; the native oracle c13_text checks the extreme values'))

# ------------------------------------------------------------------ U8: strtoul/strtoll based attribute parsers
TFS_PRELUDE = GHOST + '''
#include <limits.h>
typedef int64_t object_id_type;
unsigned long ghost_ul; long long ghost_ll; size_t ghost_endoff;
/* strtoul / strtoll: assumed contracts (C standard): *end points into the string behind the consumed prefix; saturation values on overflow */
unsigned long verif_strtoul(const char* s, char** end, int base)
__CPROVER_requires(__CPROVER_r_ok(s, ghost_n + 1) && s[ghost_n] == 0 && __CPROVER_rw_ok(end, sizeof(*end)) && base == 10)
__CPROVER_assigns(*end) __CPROVER_ensures(__CPROVER_return_value == ghost_ul && ghost_endoff <= ghost_n && __CPROVER_pointer_equals(*end, (char*)s + ghost_endoff));
long long verif_strtoll(const char* s, char** end, int base)
__CPROVER_requires(__CPROVER_r_ok(s, ghost_n + 1) && s[ghost_n] == 0 && __CPROVER_rw_ok(end, sizeof(*end)) && base == 10)
__CPROVER_assigns(*end) __CPROVER_ensures(__CPROVER_return_value == ghost_ll && ghost_endoff <= ghost_n && __CPROVER_pointer_equals(*end, (char*)s + ghost_endoff));
int verif_isspace(int c) { return c == ' ' || (c >= 9 && c <= 13); }
'''
U_s2ul = Unit(TFS, 'string_to_ulong', pre=[(r'std::strtoul\(', 'verif_strtoul('), (r'std::isspace\(', 'verif_isspace(')])
U_s2id = Unit(TFS, 'string_to_object_id', sig=r'string_to_object_id\(const char\* input\)', pre=[(r'std::strtoll\(', 'verif_strtoll('), (r'std::isspace\(', 'verif_isspace(')])
PIPELINES.append(Pipeline('U8_string_to_ulong', units=[U_s2ul], prelude=TFS_PRELUDE, contracts={'string_to_ulong': [
    ('pre', 'requires', 'verif_exc == 0 && ghost_n < VERIF_MAXLEN && __CPROVER_is_fresh(input, ghost_n + 1) && input[ghost_n] == 0'),
    ('post:strict: "-1" means 0; otherwise no leading blank or minus, the number spans the whole string, and exactly the values below 2^32-1 are accepted (2^32-1 is what strtoul saturates to on 32-bit platforms; the test suite pins its rejection)', 'ensures',
     '(verif_exc == 0) == ((input[0] == \'-\' && input[1] == \'1\' && input[2] == 0) || (input[0] != 0 && input[0] != \'-\' && !verif_isspace(input[0]) && input[ghost_endoff] == 0 && ghost_ul < 4294967295UL))'),
    ('post:value', 'ensures', 'verif_exc != 0 || __CPROVER_return_value == ((input[0] == \'-\') ? 0u : (uint32_t)ghost_ul)'),
    ('post:range_error otherwise', 'ensures', 'verif_exc == 0 || verif_exc == EXC_range_error'),
    ('frame', 'assigns', 'verif_exc')]}, replace=['verif_strtoul'], enforce='string_to_ulong',
    harness='void harness(void) { const char* a; const char* b; string_to_ulong(a, b); __CPROVER_assert(verif_exc != 0, "canary:normal"); __CPROVER_assert(verif_exc == 0, "canary:throw"); }',
    canaries=['canary:normal', 'canary:throw'], replay=('c13_text', lambda cex, o: ['ulong', cex.first('ghost_ul', 0)]),
    note='versions, changeset ids and uids in XML attributes; relative to the strtoul contract'))
PIPELINES.append(Pipeline('U8_string_to_object_id', units=[U_s2id], prelude=TFS_PRELUDE, contracts={'string_to_object_id': [
    ('pre', 'requires', 'verif_exc == 0 && ghost_n < VERIF_MAXLEN && __CPROVER_is_fresh(input, ghost_n + 1) && input[ghost_n] == 0'),
    ('post:strict: no leading blank, the number spans the whole string, the saturation values of strtoll are rejected', 'ensures',
     '(verif_exc == 0) == (input[0] != 0 && !verif_isspace(input[0]) && input[ghost_endoff] == 0 && ghost_ll != LLONG_MIN && ghost_ll != LLONG_MAX)'),
    ('post:value', 'ensures', 'verif_exc != 0 || __CPROVER_return_value == ghost_ll'),
    ('post:range_error otherwise', 'ensures', 'verif_exc == 0 || verif_exc == EXC_range_error'),
    ('frame', 'assigns', 'verif_exc')]}, replace=['verif_strtoll'], enforce='string_to_object_id',
    harness='void harness(void) { const char* a; string_to_object_id(a); __CPROVER_assert(verif_exc != 0, "canary:normal"); __CPROVER_assert(verif_exc == 0, "canary:throw"); }',
    canaries=['canary:normal', 'canary:throw'], replay=('c13_text', lambda cex, o: ['search'])))

TRUSTED = ['std::copy_n on char ranges (C++ standard; stub body in stubs/base.h)']
ASSUMPTIONS = ['input strings are NUL-terminated and shorter than 100000 bytes (object-size bound of the CBMC memory model; loop contracts make the proof independent of the length)']
NOT_DECIDED = ['Location::set_lon(double) rounding (std::round)', 'calendar arithmetic of timegm/gmtime_r (libc)']
LEVEL_TEXT = ('Proof (unbounded, loop contracts) that string_to_location_coordinate and opl_parse_int<int64/uint32/int32> are memory-safe on every '
              'NUL-terminated string of any length, free of signed overflow, throw only the documented exception, consume greedily within the string and '
              'return a value within the target type; proof (unbounded in the string length, ghost digit tables, formula-sliced parallel discharge) that '
              'string_to_location_coordinate returns exactly the decimal value rounded half up to seven places for every string of the accepted grammar and '
              'rejects everything else with invalid_location; proof that parse_timestamp accepts exactly the strict ISO form, validates every calendar field '
              'and passes exactly the validated fields to timegm (assumed contract); proof that Timestamp::to_iso_str writes exactly the calendar fields gmtime_r returns, two resp. four digits each, '
              'with the separators where parse_timestamp expects them - so parsing the text of a timestamp hands the same fields back to timegm (the round trip is then libc\'s timegm(gmtime_r(t)) == t); proof that string_to_ulong/string_to_object_id are strict relative to an '
              'assumed strtoul/strtoll contract; complete proof (thorough tier, all 2^32 values, real formatter and parser bodies inlined with complete '
              'unwinding) that parsing the text written for a coordinate returns the identical value. Functional correctness of the OPL integer parser '
              'against an exact 128-bit reference is a bounded stand-in (strings up to 21 characters).')
LEVEL_NOTE = ('Trusted: CBMC, extraction rules, std::copy_n stub, assumed contracts of timegm, strtoul, strtoll, isspace. Bounded stand-ins are labelled in the '
              'evidence and not counted as proof. Not decided: timegm/gmtime_r themselves, Location::set_lon(double), '
              'output_int.')
