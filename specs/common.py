"""helpers shared by the spec modules"""


def pow10_table(counter, var, exp_of, values, op='<'):
    """case-table invariant (DESIGN 5.4 rule 6): for each value c of the loop counter,
    `counter == c ==> var < 10^exp_of(c)` - only comparisons with constants"""
    parts = []
    for c in values:
        parts.append('(%s != %d || %s %s %dLL)' % (counter, c, var, op, 10 ** exp_of(c)))
    return ' && '.join(parts)


# NUL-terminated input string of ghost length ghost_n, handed over through `const char** data`
STR_PP_REQUIRES = ('verif_exc == 0 && ghost_n < VERIF_MAXLEN && __CPROVER_is_fresh(%(pp)s, sizeof(*%(pp)s)) && '
                   '__CPROVER_is_fresh(*%(pp)s, ghost_n + 1) && (*%(pp)s)[ghost_n] == 0')
# NUL-terminated input string handed over directly
STR_P_REQUIRES = 'verif_exc == 0 && ghost_n < VERIF_MAXLEN && __CPROVER_is_fresh(%(p)s, ghost_n + 1) && %(p)s[ghost_n] == 0'

IN_STR = '__CPROVER_same_object(%(p)s, %(base)s) && __CPROVER_POINTER_OFFSET(%(p)s) <= ghost_n'
IN_STR1 = IN_STR + ' && __CPROVER_POINTER_OFFSET(%(p)s) >= 1'


def cex_string(cex, ptrname, via_pp=True, nname='ghost_n'):
    """reconstruct the NUL-terminated input string from a trace"""
    n = cex.first(nname, 0) or 0
    obj = cex.pointer_target(ptrname)
    if via_pp:
        # ptrname points to a cell holding the string pointer
        tgt = None
        for lhs, v, fn, _ in cex.assign:
            if obj and (lhs == obj or lhs == obj + '[0]' or lhs == '*' + ptrname):
                import re
                m = re.search(r'(dynamic_object(?:\$\d+)?)', v.get('data', '') or '')
                if m and m.group(1) != obj:
                    tgt = m.group(1)
                    break
        obj = tgt
    if obj is None:
        raise ValueError('string object not found in trace')
    data, cells = cex.object_bytes(obj, n, fill=0x30)
    return data


def hexs(b):
    return b.hex() if b else '-'
