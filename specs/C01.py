"""C01 - write/read round trip: the encoder/decoder pairs the formats are built from."""
from cv import Pipeline, Unit
from cx import ExtractError
import cx, re

PROPERTY = 'C01'
LEVEL = 'proof'
DELTA = 'include/osmium/util/delta.hpp'
POUT = 'include/osmium/io/detail/pbf_output_format.hpp'
MDO = 'include/osmium/osm/metadata_options.hpp'
PBF = 'include/osmium/io/detail/pbf.hpp'
LOC = 'include/osmium/osm/location.hpp'
PIPELINES = []

# ---- delta coding: decoder undoes encoder for every step, for the instantiations the PBF writer/reader and o5m use --------------------------------
def delta_units(tag, TV_enc, TD_enc, TV_dec, TD_dec):
    enc = Unit(DELTA, 'update', cls='DeltaEncode', cname='DeltaEncode_update_' + tag, selftype='struct DeltaEncode_' + tag,
               bind={'TValue': TV_enc, 'TDelta': TD_enc}, pre=[(r'using std::swap;\s*swap\(m_value, new_value\);', '{ TValue verif_tmp = m_value; m_value = new_value; new_value = verif_tmp; }')])
    dec = Unit(DELTA, 'update', cls='DeltaDecode', cname='DeltaDecode_update_' + tag, selftype='struct DeltaDecode_' + tag, bind={'TValue': TV_dec + ' /*dec*/', 'TDelta': TD_dec + ' /*dec*/'})
    return enc, dec


DELTA_CASES = [('id', 'int64_t', 'int64_t', 'int64_t', 'int64_t', 'object ids, dense node ids/lat/lon, refs', 'INT64_MIN', 'INT64_MAX'),
               ('uid', 'uint32_t', 'int32_t', 'int64_t', 'int64_t', 'dense uid (writer: uint32 values with int32 deltas; reader: int64)', '0', '2147483647'),
               ('ts', 'uint32_t', 'int64_t', 'int64_t', 'int64_t', 'dense timestamp / changeset', '0', 'UINT32_MAX')]
for tag, tve, tde, tvd, tdd, what, lo, hi in DELTA_CASES:
    prel = ('struct DeltaEncode_%s { %s m_value; }; struct DeltaDecode_%s { %s m_value; };\n' % (tag, tve, tag, tvd))
    # two separate translation units would be cleaner; the bindings differ, so each unit is emitted with its own typedef block
    enc = Unit(DELTA, 'update', cls='DeltaEncode', cname='DeltaEncode_update', selftype='struct DeltaEncode_' + tag,
               rename={'TValue': 'TValueE', 'TDelta': 'TDeltaE'},
               pre=[(r'using std::swap;\s*swap\(m_value, new_value\);', '{ TValueE verif_tmp = m_value; m_value = new_value; new_value = verif_tmp; }')], params=['TValueE new_value'], ret='TDeltaE')
    dec = Unit(DELTA, 'update', cls='DeltaDecode', cname='DeltaDecode_update', selftype='struct DeltaDecode_' + tag,
               rename={'TValue': 'TValueD', 'TDelta': 'TDeltaD'}, params=['TDeltaD delta'], ret='TValueD')
    PIPELINES.append(Pipeline('L_delta_roundtrip_' + tag, units=[enc, dec],
                              prelude='typedef %s TValueE; typedef %s TDeltaE; typedef %s TValueD; typedef %s TDeltaD;\n' % (tve, tde, tvd, tdd) + prel, harness='''
void harness(void) {
  struct DeltaEncode_%(t)s e; struct DeltaDecode_%(t)s d; TValueE v;
  /* both sides hold the same previous value (both start at 0 in every block; induction step) */
  __CPROVER_assume(e.m_value >= (%(lo)s) && e.m_value <= (%(hi)s) && v >= (%(lo)s) && v <= (%(hi)s)); d.m_value = (TValueD)e.m_value;
  TDeltaE delta = DeltaEncode_update(&e, v);
  TValueD back = DeltaDecode_update(&d, (TDeltaD)delta);
  __CPROVER_assert(back == (TValueD)v, "L decode(encode(v)) == v for one step from equal states");
  __CPROVER_assert(e.m_value == v && d.m_value == (TValueD)v, "L both sides hold the new value afterwards (states stay equal)");
  __CPROVER_assert(0, "canary"); }''' % dict(t=tag, lo=lo, hi=hi), noflags=['--signed-overflow-check', '--conversion-check'],
                              replay=('c01_codec', (lambda t: lambda cex, o: ['delta', t, cex.first('e.m_value', 0) or 0, cex.first('v', 0)])(tag)),
                              note=what + '; machine arithmetic wraps (signed-overflow obligations are off for this pair: the subtraction may overflow for ids more than 2^63 apart - stated assumption)'))

# ---- PBF dense nodes: exactly the enabled metadata fields are serialised -------------------------------------------------------------------------------
def dn_prelude(repo):
    en = cx.preprocess(cx.strip_comments(open(repo + '/' + MDO).read()))
    m = re.search(r'enum options : unsigned int \{(.*?)\}\s*m_options', en, re.S)
    if not m:
        raise ExtractError('metadata_options::options not found')
    enums = 'enum { ' + ', '.join(' '.join(x.split()) for x in m.group(1).split(',') if x.strip()) + ' };\n'
    return enums + '''
struct metadata_options { unsigned int m_options; };
struct pbf_output_options { struct metadata_options add_metadata; bool add_visible_flag; };
struct DenseNodes { const struct pbf_output_options* m_options; };
/* ghost: which protobuf fields the serialiser wrote */
unsigned ghost_fields;
enum { F_id = 1, F_DenseInfo = 2, F_version = 4, F_timestamp = 8, F_changeset = 16, F_uid = 32, F_user_sid = 64, F_visible = 128, F_lat = 256, F_lon = 512, F_keys_vals = 1024 };
#define VERIF_FIELD(f) ghost_fields |= (f)
'''


MDUNITS = [Unit(MDO, nm, cls='metadata_options', selftype='const struct metadata_options', post=([] if nm == 'any' else [(r'options::', '')])) for nm in ('any', 'version', 'timestamp', 'changeset', 'uid', 'user')]
U_ser = Unit(POUT, 'serialize', cls='DenseNodes', ret='void', selftype='const struct DenseNodes',
             pre=[(r'std::string data;\s*protozero::pbf_builder<OSMFormat::DenseNodes> pbf_dense_nodes\{data\};', ''),
                  (r'protozero::pbf_builder<OSMFormat::DenseInfo> pbf_dense_info\{pbf_dense_nodes, OSMFormat::DenseNodes::optional_DenseInfo_denseinfo\};', 'VERIF_FIELD(F_DenseInfo);'),
                  (r'pbf_dense_(?:nodes|info)\.add_packed_\w+\(OSMFormat::Dense(?:Nodes|Info)::packed_\w+?_(id|version|timestamp|changeset|uid|user_sid|visible|lat|lon|keys_vals), [^;]*\);', r'VERIF_FIELD(F_\1);'),
                  (r'm_options->add_metadata\.(\w+)\(\)', r'metadata_options_\1(&m_options->add_metadata)'),
                  (r'return data;', 'return;')])
PIPELINES.append(Pipeline('U_DenseNodes_serialize_field_selection', units=MDUNITS + [U_ser], prelude=dn_prelude, contracts={'DenseNodes_serialize': [
    ('pre', 'requires', '__CPROVER_is_fresh(self, sizeof(*self)) && __CPROVER_is_fresh(self->m_options, sizeof(struct pbf_output_options)) && ghost_fields == 0 && self->m_options->add_metadata.m_options <= md_all'),
    ('post:ids, coordinates and tags are always written', 'ensures', '(ghost_fields & (F_id | F_lat | F_lon | F_keys_vals)) == (F_id | F_lat | F_lon | F_keys_vals)'),
    ('post:each metadata column is written exactly when it is enabled', 'ensures',
     '((ghost_fields & F_version) != 0) == ((self->m_options->add_metadata.m_options & md_version) != 0) && ((ghost_fields & F_timestamp) != 0) == ((self->m_options->add_metadata.m_options & md_timestamp) != 0) && '
     '((ghost_fields & F_changeset) != 0) == ((self->m_options->add_metadata.m_options & md_changeset) != 0) && ((ghost_fields & F_uid) != 0) == ((self->m_options->add_metadata.m_options & md_uid) != 0) && '
     '((ghost_fields & F_user_sid) != 0) == ((self->m_options->add_metadata.m_options & md_user) != 0)'),
    ('post:the visible flags of a history file are written whatever the metadata subset is', 'ensures', '((ghost_fields & F_visible) != 0) == (self->m_options->add_visible_flag != 0)'),
    ('frame', 'assigns', 'ghost_fields')]}, enforce='DenseNodes_serialize',
    harness='void harness(void) { const struct DenseNodes* d; DenseNodes_serialize(d); __CPROVER_assert(0, "canary"); }',
    replay=('c01_codec', lambda cex, o: ['dense', cex.field(cex.pointer_target('m_options') or cex.pointer_target('self'), 'add_metadata.m_options', 0), 1]),
    note='all 32 metadata subsets x history flag; protobuf builder calls are replaced by a ghost set of written fields'))

# ---- PBF non-dense objects: the Info message carries exactly the enabled metadata with the object's values ---------------------------------
OBJ = 'include/osmium/osm/object.hpp'
ITEM = 'include/osmium/memory/item.hpp'
TS = 'include/osmium/osm/timestamp.hpp'


def info_prelude(repo):
    return (dn_prelude(repo).replace('#define VERIF_FIELD(f) ghost_fields |= (f)', '#define VERIF_FIELD(f) ghost_fields |= (f)\n#define VERIF_FIELDV(f, v) { ghost_fields |= (f); ghost_val_##f = (int64_t)(v); }')
            + 'typedef int64_t object_id_type; typedef uint64_t unsigned_object_id_type; typedef uint32_t object_version_type; typedef uint32_t user_id_type; typedef uint32_t changeset_id_type; typedef uint32_t item_size_type; typedef uint16_t item_type;\n'
            + cx.members_struct(repo, [(TS, 'Timestamp')], 'Timestamp') + 'typedef struct Timestamp Timestamp;\n'
            + cx.members_struct(repo, [(ITEM, 'Item'), (OBJ, 'OSMObject')], 'OSMObject') + 'typedef struct OSMObject OSMObject;\n'
            + 'int64_t ghost_val_F_version, ghost_val_F_timestamp, ghost_val_F_changeset, ghost_val_F_uid, ghost_val_F_user_sid, ghost_val_F_visible; uint32_t ghost_user_sid;\n'
            + 'struct PBFOutputFormat { struct pbf_output_options m_options; };\n')


ACC = [Unit(OBJ, nm, cls='OSMObject', selftype='const struct OSMObject', sig=sg) for nm, sg in (('version', r'version\(\) const'), ('changeset', r'changeset\(\) const'), ('uid', r'uid\(\) const'), ('deleted', None), ('visible', None))]
U_meta = Unit(POUT, 'add_meta', cls='PBFOutputFormat', cname='blk_add_meta_info', selftype='struct PBFOutputFormat', ret='void', params=['const OSMObject* object_p'],
              block=(r'if \(m_options\.add_metadata\.any\(\) \|\| m_options\.add_visible_flag\) \{', r'\n                \}\s*$'),
              objs={'object_p': 'OSMObject'},
              pre=[(r'protozero::pbf_builder<OSMFormat::Info> pbf_info\{pbf_object, T::enum_type::optional_Info_info\};', 'VERIF_FIELD(F_DenseInfo);'),
                   (r'static_cast<uint32_t>\(object\.timestamp\(\)\)', 'object_p->m_timestamp.m_timestamp'),
                   (r'm_primitive_block->store_in_stringtable_unsigned\(object\.user\(\)\)', 'ghost_user_sid'),
                   (r'object\.', 'object_p->'),
                   (r'pbf_info\.add_\w+\(OSMFormat::Info::optional_\w+?_(version|timestamp|changeset|uid|user_sid|visible), ([^;]*)\);', r'VERIF_FIELDV(F_\1, \2)'),
                   (r'm_options\.add_metadata\.(\w+)\(\)', r'metadata_options_\1(&m_options.add_metadata)')])
MDBIT = lambda f, b: '((ghost_fields & %s) != 0) == ((self->m_options.add_metadata.m_options & %s) != 0)' % (f, b)
PIPELINES.append(Pipeline('U_add_meta_info_fields', units=MDUNITS + ACC + [U_meta], prelude=info_prelude, contracts={'blk_add_meta_info': [
    ('pre:an object within the value domain of the format (version and uid below 2^31)', 'requires',
     '__CPROVER_is_fresh(self, sizeof(*self)) && __CPROVER_is_fresh(object_p, sizeof(*object_p)) && ghost_fields == 0 && self->m_options.add_metadata.m_options <= md_all && object_p->m_uid <= 2147483647u'),
    ('post:each metadata field is written exactly when it is enabled', 'ensures', ' && '.join(MDBIT(f, b) for f, b in (('F_version', 'md_version'), ('F_timestamp', 'md_timestamp'), ('F_changeset', 'md_changeset'), ('F_uid', 'md_uid'), ('F_user_sid', 'md_user')))),
    ('post:the visible flag is written exactly for history files, whatever the metadata subset', 'ensures', '((ghost_fields & F_visible) != 0) == (self->m_options.add_visible_flag != 0)'),
    ('post:the values written are the attributes of the object', 'ensures',
     '(!(ghost_fields & F_version) || ghost_val_F_version == object_p->m_version) && (!(ghost_fields & F_timestamp) || ghost_val_F_timestamp == object_p->m_timestamp.m_timestamp) && '
     '(!(ghost_fields & F_changeset) || ghost_val_F_changeset == object_p->m_changeset) && (!(ghost_fields & F_uid) || ghost_val_F_uid == object_p->m_uid) && '
     '(!(ghost_fields & F_user_sid) || ghost_val_F_user_sid == ghost_user_sid) && (!(ghost_fields & F_visible) || ghost_val_F_visible == !object_p->m_deleted)'),
    ('frame', 'assigns', 'ghost_fields, ghost_val_F_version, ghost_val_F_timestamp, ghost_val_F_changeset, ghost_val_F_uid, ghost_val_F_user_sid, ghost_val_F_visible')]},
    enforce='blk_add_meta_info', harness='void harness(void) { struct PBFOutputFormat* f; const OSMObject* o; blk_add_meta_info(f, o); __CPROVER_assert(0, "canary"); }',
    replay=('c01_codec', lambda cex, o: ['dense', 'none', 1, 0]), noflags=['--conversion-check'],
    note='statement block of PBFOutputFormat::add_meta (ways, relations, non-dense nodes); protobuf builder calls replaced by a ghost record of field and value'))

# ---- PBF header bounding box: the writer's conversion against the reader's ---------------------------------------------------------------------------
def box_prelude(repo):
    return '#include <math.h>\n' + cx.extract_const(repo, PBF, 'lonlat_resolution') + 'enum { coordinate_precision = 10000000 };\n' + cx.extract_const(repo, PBF, 'resolution_convert')


U_hdr = Unit(POUT, 'write_header', cls='PBFOutputFormat', cname='blk_header_box_left', method=False, ret='int64_t', params=['int32_t x'],
             block=(r'pbf_header_bbox\.add_sint64\(OSMFormat::HeaderBBox::required_sint64_left,', r'pbf_header_bbox\.add_sint64\(OSMFormat::HeaderBBox::required_sint64_right'),
             pre=[(r'pbf_header_bbox\.add_sint64\(OSMFormat::HeaderBBox::required_sint64_left,\s*(.*)\);', r'return \1;'),
                  (r'box\.bottom_left\(\)\.x\(\)', 'x')])
U_f2d = Unit(LOC, 'fix_to_double', cls='Location', method=False, cname='Location_fix_to_double', post=[(r'precision\(\)', '((double)coordinate_precision)')])
PIPELINES.append(Pipeline('L_header_box_roundtrip', units=[U_hdr], prelude=box_prelude, harness='''
void harness(void) { int32_t x; __CPROVER_assume(x >= -1800000000 && x <= 1800000000);
  int64_t written = blk_header_box_left(x);            /* what PBFOutputFormat::write_header stores for a corner coordinate */
  int64_t read = written / resolution_convert;         /* what decode_header_bbox makes of it */
  __CPROVER_assert(read == x, "L header bounding box corner comes back identical");
  __CPROVER_assert(0, "canary"); }''', solver='kissat', timeout=900, flags=['--bounds-check', '--conversion-check', '--div-by-zero-check'],
                              replay=('c01_codec', lambda cex, o: ['box', cex.first('x', 0)]),
                              note='every valid fixed-point coordinate'))

TRUSTED = ['protozero builders write the field they are asked to write', 'zlib/lz4', 'expat']
ASSUMPTIONS = ['machine arithmetic wraps in the delta coders (C++ calls the overflow undefined; stated)']
NOT_DECIDED = ['whole-file round trip through Writer/Reader (threads, compression, protobuf assembly)', 'option matrix as executions', 'block size accounting (recorded finding F9)', 'XML attribute formatting']
LEVEL_TEXT = ('Proof for codec pairs: one step of delta encoding followed by delta decoding returns the value and keeps both states equal, for every instantiation pair the PBF writer and reader use '
              '(including the mixed-width uid pair), under wrap-around arithmetic; the dense-node serialiser writes exactly the enabled metadata columns and the visible flags exactly when the history '
              'flag is set, for all 64 option combinations; the Info message of ways, relations and non-dense nodes carries exactly the enabled fields with the attribute values of the object; the PBF header bounding box conversion (integer arithmetic since the F22 repair) is checked against the reader for every valid coordinate. Other pairs are decided under C13 '
              '(numbers, coordinates), C14 (strings) and C02 (PBF metadata ranges, lat/lon with block parameters).')
LEVEL_NOTE = ('Trusted: CBMC, extraction rules, protozero, compression libraries, expat. The statement is about whole files; only leaf codec pairs are decided. Not decided: Writer/Reader pipeline, option matrix as executions, '
              'block size accounting, XML formatting.')
