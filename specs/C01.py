"""C01 - write/read round trip: the encoder/decoder pairs the formats are built from."""
from cv import Pipeline, Unit
from cx import ExtractError
import cx, re

PROPERTY = 'C01'
LEVEL = 'proof'
DELTA = 'include/osmium/util/delta.hpp'
POUT = 'include/osmium/io/detail/pbf_output_format.hpp'
MDO = 'include/osmium/osm/metadata_options.hpp'
PBF = 'include/osmium/io/detail/pbf.hpp'
LOC = 'include/osmium/osm/location.hpp'
PIPELINES = []

# ---- delta coding: decoder undoes encoder for every step, for the instantiations the PBF writer/reader and o5m use --------------------------------
def delta_units(tag, TV_enc, TD_enc, TV_dec, TD_dec):
    enc = Unit(DELTA, 'update', cls='DeltaEncode', cname='DeltaEncode_update_' + tag, selftype='struct DeltaEncode_' + tag,
               bind={'TValue': TV_enc, 'TDelta': TD_enc}, pre=[(r'using std::swap;\s*swap\(m_value, new_value\);', '{ TValue verif_tmp = m_value; m_value = new_value; new_value = verif_tmp; }')])
    dec = Unit(DELTA, 'update', cls='DeltaDecode', cname='DeltaDecode_update_' + tag, selftype='struct DeltaDecode_' + tag, bind={'TValue': TV_dec + ' /*dec*/', 'TDelta': TD_dec + ' /*dec*/'})
    return enc, dec


DELTA_CASES = [('id', 'int64_t', 'int64_t', 'int64_t', 'int64_t', 'object ids, dense node ids/lat/lon, refs', 'INT64_MIN', 'INT64_MAX'),
               ('uid', 'uint32_t', 'int32_t', 'int64_t', 'int64_t', 'dense uid (writer: uint32 values with int32 deltas; reader: int64)', '0', '2147483647'),
               ('ts', 'uint32_t', 'int64_t', 'int64_t', 'int64_t', 'dense timestamp / changeset', '0', 'UINT32_MAX')]
for tag, tve, tde, tvd, tdd, what, lo, hi in DELTA_CASES:
    prel = ('struct DeltaEncode_%s { %s m_value; }; struct DeltaDecode_%s { %s m_value; };\n' % (tag, tve, tag, tvd))
    # two separate translation units would be cleaner; the bindings differ, so each unit is emitted with its own typedef block
    enc = Unit(DELTA, 'update', cls='DeltaEncode', cname='DeltaEncode_update', selftype='struct DeltaEncode_' + tag,
               rename={'TValue': 'TValueE', 'TDelta': 'TDeltaE'},
               pre=[(r'using std::swap;\s*swap\(m_value, new_value\);', '{ TValueE verif_tmp = m_value; m_value = new_value; new_value = verif_tmp; }')], params=['TValueE new_value'], ret='TDeltaE')
    dec = Unit(DELTA, 'update', cls='DeltaDecode', cname='DeltaDecode_update', selftype='struct DeltaDecode_' + tag,
               rename={'TValue': 'TValueD', 'TDelta': 'TDeltaD'}, params=['TDeltaD delta'], ret='TValueD')
    PIPELINES.append(Pipeline('L_delta_roundtrip_' + tag, units=[enc, dec],
                              prelude='typedef %s TValueE; typedef %s TDeltaE; typedef %s TValueD; typedef %s TDeltaD;\n' % (tve, tde, tvd, tdd) + prel, harness='''
void harness(void) {
  struct DeltaEncode_%(t)s e; struct DeltaDecode_%(t)s d; TValueE v;
  /* both sides hold the same previous value (both start at 0 in every block; induction step) */
  __CPROVER_assume(e.m_value >= (%(lo)s) && e.m_value <= (%(hi)s) && v >= (%(lo)s) && v <= (%(hi)s)); d.m_value = (TValueD)e.m_value;
  TDeltaE delta = DeltaEncode_update(&e, v);
  TValueD back = DeltaDecode_update(&d, (TDeltaD)delta);
  __CPROVER_assert(back == (TValueD)v, "L decode(encode(v)) == v for one step from equal states");
  __CPROVER_assert(e.m_value == v && d.m_value == (TValueD)v, "L both sides hold the new value afterwards (states stay equal)");
  __CPROVER_assert(0, "canary"); }''' % dict(t=tag, lo=lo, hi=hi), noflags=['--signed-overflow-check', '--conversion-check'],
                              replay=('c01_codec', (lambda t: lambda cex, o: ['delta', t, cex.first('e.m_value', 0) or 0, cex.first('v', 0)])(tag)),
                              note=what + '; machine arithmetic wraps (signed-overflow obligations are off for this pair: the subtraction may overflow for ids more than 2^63 apart - stated assumption)'))

# ---- PBF dense nodes: exactly the enabled metadata fields are serialised -------------------------------------------------------------------------------
def dn_prelude(repo):
    en = cx.preprocess(cx.strip_comments(open(repo + '/' + MDO).read()))
    m = re.search(r'enum options : unsigned int \{(.*?)\}\s*m_options', en, re.S)
    if not m:
        raise ExtractError('metadata_options::options not found')
    enums = 'enum { ' + ', '.join(' '.join(x.split()) for x in m.group(1).split(',') if x.strip()) + ' };\n'
    return enums + '''
struct metadata_options { unsigned int m_options; };
struct pbf_output_options { struct metadata_options add_metadata; bool add_visible_flag; };
struct DenseNodes { const struct pbf_output_options* m_options; };
/* ghost: which protobuf fields the serialiser wrote */
unsigned ghost_fields;
enum { F_id = 1, F_DenseInfo = 2, F_version = 4, F_timestamp = 8, F_changeset = 16, F_uid = 32, F_user_sid = 64, F_visible = 128, F_lat = 256, F_lon = 512, F_keys_vals = 1024 };
#define VERIF_FIELD(f) ghost_fields |= (f)
'''


MDUNITS = [Unit(MDO, nm, cls='metadata_options', selftype='const struct metadata_options', post=([] if nm == 'any' else [(r'options::', '')])) for nm in ('any', 'version', 'timestamp', 'changeset', 'uid', 'user')]
U_ser = Unit(POUT, 'serialize', cls='DenseNodes', ret='void', selftype='const struct DenseNodes',
             pre=[(r'std::string data;\s*protozero::pbf_builder<OSMFormat::DenseNodes> pbf_dense_nodes\{data\};', ''),
                  (r'protozero::pbf_builder<OSMFormat::DenseInfo> pbf_dense_info\{pbf_dense_nodes, OSMFormat::DenseNodes::optional_DenseInfo_denseinfo\};', 'VERIF_FIELD(F_DenseInfo);'),
                  (r'pbf_dense_(?:nodes|info)\.add_packed_\w+\(OSMFormat::Dense(?:Nodes|Info)::packed_\w+?_(id|version|timestamp|changeset|uid|user_sid|visible|lat|lon|keys_vals), [^;]*\);', r'VERIF_FIELD(F_\1);'),
                  (r'm_options->add_metadata\.(\w+)\(\)', r'metadata_options_\1(&m_options->add_metadata)'),
                  (r'return data;', 'return;')])
PIPELINES.append(Pipeline('U_DenseNodes_serialize_field_selection', units=MDUNITS + [U_ser], prelude=dn_prelude, contracts={'DenseNodes_serialize': [
    ('pre', 'requires', '__CPROVER_is_fresh(self, sizeof(*self)) && __CPROVER_is_fresh(self->m_options, sizeof(struct pbf_output_options)) && ghost_fields == 0 && self->m_options->add_metadata.m_options <= md_all'),
    ('post:ids, coordinates and tags are always written', 'ensures', '(ghost_fields & (F_id | F_lat | F_lon | F_keys_vals)) == (F_id | F_lat | F_lon | F_keys_vals)'),
    ('post:each metadata column is written exactly when it is enabled', 'ensures',
     '((ghost_fields & F_version) != 0) == ((self->m_options->add_metadata.m_options & md_version) != 0) && ((ghost_fields & F_timestamp) != 0) == ((self->m_options->add_metadata.m_options & md_timestamp) != 0) && '
     '((ghost_fields & F_changeset) != 0) == ((self->m_options->add_metadata.m_options & md_changeset) != 0) && ((ghost_fields & F_uid) != 0) == ((self->m_options->add_metadata.m_options & md_uid) != 0) && '
     '((ghost_fields & F_user_sid) != 0) == ((self->m_options->add_metadata.m_options & md_user) != 0)'),
    ('post:the visible flags of a history file are written whatever the metadata subset is', 'ensures', '((ghost_fields & F_visible) != 0) == (self->m_options->add_visible_flag != 0)'),
    ('frame', 'assigns', 'ghost_fields')]}, enforce='DenseNodes_serialize',
    harness='void harness(void) { const struct DenseNodes* d; DenseNodes_serialize(d); __CPROVER_assert(0, "canary"); }',
    replay=('c01_codec', lambda cex, o: ['dense', cex.field(cex.pointer_target('m_options') or cex.pointer_target('self'), 'add_metadata.m_options', 0), 1]),
    note='all 32 metadata subsets x history flag; protobuf builder calls are replaced by a ghost set of written fields'))

# ---- DenseNodes::add_node: one entry per enabled column, and the node's run in keys_vals has the wire form k v k v ... 0 ------------------------
def addnode_prelude(repo):
    src = cx.preprocess(cx.strip_comments(open(repo + '/' + POUT).read()))
    cols = [m[1] for m in cx.extract_members(src, 'DenseNodes')]
    need = ['m_ids', 'm_versions', 'm_timestamps', 'm_changesets', 'm_uids', 'm_user_sids', 'm_visibles', 'm_lats', 'm_lons', 'm_tags']
    for c in need:
        if c not in cols:
            raise ExtractError('DenseNodes::%s missing' % c)
    return dn_prelude(repo).replace('struct DenseNodes { const struct pbf_output_options* m_options; };', '''
/* std::vector<...> columns: only the length is kept; what is appended to m_tags is observed at the ghost position ghost_k */
typedef struct vlog { size_t size; } vlog;
struct DenseNodes { ''' + ' '.join('vlog %s;' % c for c in need) + ''' int m_stringtable; const struct pbf_output_options* m_options; };
size_t ghost_k; int32_t ghost_at_k; _Bool ghost_k_seen;
void vlog_push(vlog* v) { __CPROVER_assert(v->size < SIZE_MAX, "model: column length"); ++v->size; }
void vlog_push_tag(vlog* v, int32_t x) { if (v->size == ghost_k) { ghost_at_k = x; ghost_k_seen = 1; } vlog_push(v); }
/* StringTable::add: index of the string in the table; never 0 - entry 0 is reserved, 0 is the delimiter of keys_vals (the test suite pins add("") == 1) */
int32_t ghost_sid;
int32_t StringTable_add(int table, const char* s) __CPROVER_requires(1) __CPROVER_assigns(ghost_sid) __CPROVER_ensures(__CPROVER_return_value == ghost_sid && ghost_sid >= 1);
size_t ghost_ntags;   /* number of tags of the node */
/* user(), key(), value(): some NUL-terminated string (the empty one included) */
const char* verif_any_string(void) __CPROVER_requires(1) __CPROVER_assigns() __CPROVER_ensures(__CPROVER_is_fresh(__CPROVER_return_value, 2) && __CPROVER_return_value[1] == 0);
''') + 'typedef struct Node Node;\n'


def addnode_rewrite(body, R):
    rules = [(r'for \(const auto& tag : node\.tags\(\)\)', 'for (size_t verif_t = 0; verif_t < ghost_ntags; ++verif_t)'),
             (r'm_tags\.push_back\(', 'vlog_push_tag(&m_tags, '),
             (r'm_stringtable->add\(', 'StringTable_add(m_stringtable, ', '?')]
    body = cx.apply_mustfire(body, rules, R, 'add_node')
    # every other column: the value is not observed here (delta coding: see the lemmas above), only that one entry is appended
    body, n = re.subn(r'\b(m_(?:ids|versions|timestamps|changesets|uids|user_sids|visibles|lats|lons))\.push_back\((.*)\);', lambda m: 'vlog_push(&%s); (void)(%s);' % (m.group(1), m.group(2)), body)
    if n < 9:
        raise ExtractError('add_node: expected a push_back for each of the nine columns, found %d' % n)
    R.hit('unit_rewrite:column push_back', n)
    return body


HELPER_OPT = [(r'm_stringtable->add\(', 'StringTable_add(m_stringtable, ')]
U_addnode = Unit(POUT, 'add_node', cls='DenseNodes', selftype='struct DenseNodes', params=['const Node* node_p'], helpers=True,
                 pre=[addnode_rewrite, (r'm_stringtable->add\(', 'StringTable_add(m_stringtable, ', '?'),
                      (r'm_delta_\w+\.update\(', '('), (r'static_cast<uint32_t>\(node\.timestamp\(\)\)', '0'), (r'node\.location\(\)\.[xy]\(\)', '0'),
                      (r'\b(?:node|tag)\.(?:user|key|value)\(\)', 'verif_any_string()'), (r'\b(?:node|tag)\.(\w+)\(\)', r'0 /* \1 */'),
                      (r'm_options->add_metadata\.(\w+)\(\)', r'metadata_options_\1(&m_options->add_metadata)'),
                      (r'assert\(0 /\* version \*/ <= static_cast<std::size_t>\(std::numeric_limits<int32_t>::max\(\)\)\);', '/* version range: see U_add_meta_info_fields */;')])
COL = lambda c, cond: 'self->%s.size == __CPROVER_old(self->%s.size) + ((%s) ? 1 : 0)' % (c, c, cond)
MD = lambda b: '(self->m_options->add_metadata.m_options & %s) != 0' % b
PIPELINES.append(Pipeline('U_DenseNodes_add_node', units=MDUNITS + [U_addnode], prelude=addnode_prelude, contracts={'DenseNodes_add_node': [
    ('pre', 'requires', '__CPROVER_is_fresh(self, sizeof(*self)) && __CPROVER_is_fresh(self->m_options, sizeof(struct pbf_output_options)) && self->m_options->add_metadata.m_options <= md_all && '
     'ghost_ntags <= 100000 && !ghost_k_seen && ' + ' && '.join('self->%s.size <= 100000000' % c for c in ('m_ids', 'm_versions', 'm_timestamps', 'm_changesets', 'm_uids', 'm_user_sids', 'm_visibles', 'm_lats', 'm_lons', 'm_tags'))),
    ('post:exactly one entry is appended to each column that is enabled and none to the others (the columns stay aligned)', 'ensures',
     ' && '.join([COL('m_ids', '1'), COL('m_lats', '1'), COL('m_lons', '1'), COL('m_versions', MD('md_version')), COL('m_timestamps', MD('md_timestamp')), COL('m_changesets', MD('md_changeset')),
                  COL('m_uids', MD('md_uid')), COL('m_user_sids', MD('md_user')), COL('m_visibles', 'self->m_options->add_visible_flag')])),
    ('post:the run of the node in keys_vals is two string ids per tag followed by one delimiter', 'ensures', 'self->m_tags.size == __CPROVER_old(self->m_tags.size) + 2 * ghost_ntags + 1'),
    ('post:inside the run no entry is 0 (a 0 would end the node\'s tags for the reader and shift everything after it); the last entry is the 0 delimiter', 'ensures',
     '!(ghost_k >= __CPROVER_old(self->m_tags.size) && ghost_k < self->m_tags.size) || (ghost_k_seen && (ghost_k == self->m_tags.size - 1 ? ghost_at_k == 0 : ghost_at_k >= 1))'),
    ('frame', 'assigns', 'ghost_sid, ghost_at_k, ghost_k_seen, ' + ', '.join('self->%s.size' % c for c in ('m_ids', 'm_versions', 'm_timestamps', 'm_changesets', 'm_uids', 'm_user_sids', 'm_visibles', 'm_lats', 'm_lons', 'm_tags')))]},
    loops={'DenseNodes_add_node': [['__CPROVER_assigns(verif_t, self->m_tags.size, ghost_sid, ghost_at_k, ghost_k_seen)',
                                    '__CPROVER_loop_invariant(verif_t <= ghost_ntags && self->m_tags.size == __CPROVER_loop_entry(self->m_tags.size) + 2 * verif_t)',
                                    '__CPROVER_loop_invariant((ghost_k_seen == 0 || ghost_k_seen == 1) && (!(ghost_k >= __CPROVER_loop_entry(self->m_tags.size) && ghost_k < self->m_tags.size) || (ghost_k_seen && ghost_at_k >= 1)))',
                                    '__CPROVER_loop_invariant(ghost_k >= __CPROVER_loop_entry(self->m_tags.size) || ghost_k_seen == __CPROVER_loop_entry(ghost_k_seen))',
                                    '__CPROVER_decreases(ghost_ntags - verif_t)']]},
    replace=['StringTable_add', 'verif_any_string'], enforce='DenseNodes_add_node',
    harness='void harness(void) { struct DenseNodes* d; const Node* n; DenseNodes_add_node(d, n); __CPROVER_assert(0, "canary"); }', noflags=['--conversion-check'],
    replay=('c01_codec', lambda cex, o: ['densetags']),
    note='any node with any number of tags, all option combinations; attribute values are not observed here (their coding is decided by the delta lemmas and the Info unit)'))

# ---- the can_add() gate: the size estimate of a block accounts for every part of it that is not bounded by max_entities_per_block -----------------
def pb_prelude(repo):
    src = cx.preprocess(cx.strip_comments(open(repo + '/' + POUT).read()))
    got = [m[1] for m in cx.extract_members(src, 'PrimitiveBlock')]
    for need in ('m_pbf_primitive_group_data', 'm_stringtable', 'm_dense_nodes', 'm_type', 'm_count'):
        if need not in got:
            raise ExtractError('PrimitiveBlock::%s missing' % need)
    return (cx.extract_const(repo, 'include/osmium/io/detail/pbf.hpp', 'max_uncompressed_blob_size') + cx.extract_anon_enum_const(repo, POUT, 'max_entities_per_block')
            + cx.extract_anon_enum_const(repo, POUT, 'max_used_blob_size') + '''
typedef struct vlog { size_t size; } vlog;
struct DenseNodes { vlog m_ids; vlog m_tags; };
typedef int PrimitiveGroup;
struct PrimitiveBlock { size_t m_pbf_primitive_group_data; int m_stringtable; struct DenseNodes* m_dense_nodes; PrimitiveGroup m_type; int m_count; };
/* ghost: the string table as it will be written: number of entries, and number of bytes (every entry needs at least one byte) */
size_t ghost_st_entries, ghost_st_bytes;
/* StringTable::size(): the number of entries */
int32_t StringTable_size(const int* t) __CPROVER_requires(ghost_st_entries <= ghost_st_bytes && ghost_st_entries <= INT32_MAX) __CPROVER_assigns() __CPROVER_ensures(__CPROVER_return_value == (int32_t)ghost_st_entries);
/* StringTable::byte_size(): at least the bytes of the serialised table (decided for StringTable::add in U_StringTable_add) */
size_t StringTable_byte_size(const int* t) __CPROVER_requires(1) __CPROVER_assigns() __CPROVER_ensures(__CPROVER_return_value >= ghost_st_bytes && __CPROVER_return_value <= ((size_t)1 << 40));   /* an estimate, but not an absurd one (no wrap-around in the sum) */
''')


U_dsize = Unit(POUT, 'size', cls='DenseNodes', selftype='const struct DenseNodes', pre=[(r'm_ids\.size\(\)', 'm_ids.size'), (r'm_tags\.size\(\)', 'm_tags.size', '?')])
U_pbsize = Unit(POUT, 'size', cls='PrimitiveBlock', selftype='const struct PrimitiveBlock',
                pre=[(r'm_pbf_primitive_group_data\.size\(\)', 'm_pbf_primitive_group_data'), (r'm_stringtable\.(size|byte_size)\(\)', r'StringTable_\1(&m_stringtable)'),
                     (r'm_dense_nodes->size\(\)', 'DenseNodes_size(m_dense_nodes)')])
U_pbcount = Unit(POUT, 'count', cls='PrimitiveBlock', selftype='const struct PrimitiveBlock')
U_canadd = Unit(POUT, 'can_add', cls='PrimitiveBlock', selftype='const struct PrimitiveBlock', params=['PrimitiveGroup type'])
DSIZE_CONTRACT = [('pre', 'requires', '__CPROVER_rw_ok(self, sizeof(*self)) && self->m_ids.size <= 100000000 && self->m_tags.size <= 1000000000'),
                  ('post:the tags of dense nodes (not bounded by the number of entities in a block) are accounted for, at one byte per id at least', 'ensures', '__CPROVER_return_value >= self->m_tags.size'),
                  ('post:ids and coordinates are accounted for', 'ensures', '__CPROVER_return_value >= 3 * self->m_ids.size'),
                  ('post:it is an estimate of the right order (callers add it up: no wrap-around)', 'ensures', '__CPROVER_return_value <= 32 * self->m_ids.size + 8 * self->m_tags.size'),
                  ('frame', 'assigns', '')]
PBSIZE_CONTRACT = [('pre', 'requires', '__CPROVER_rw_ok(self, sizeof(*self)) && self->m_pbf_primitive_group_data <= (1u << 30) && ghost_st_entries <= ghost_st_bytes && ghost_st_bytes <= (1u << 30) && '
                    '(self->m_dense_nodes == 0 || (__CPROVER_rw_ok(self->m_dense_nodes, sizeof(struct DenseNodes)) && self->m_dense_nodes->m_ids.size <= 100000000 && self->m_dense_nodes->m_tags.size <= 1000000000))'),
                   ('post:the estimate covers the group data, the BYTES of the string table and the tags of the dense nodes - the parts of a block whose size is not bounded by the entity count', 'ensures',
                    '__CPROVER_return_value >= self->m_pbf_primitive_group_data + ghost_st_bytes + (self->m_dense_nodes ? self->m_dense_nodes->m_tags.size : 0)'),
                   ('frame', 'assigns', '')]
tail1 = ' __CPROVER_assert(0, "canary"); }'
PIPELINES.append(Pipeline('U_DenseNodes_size', units=[U_dsize], prelude=pb_prelude, contracts={'DenseNodes_size': [(l, k, t.replace('__CPROVER_rw_ok(self', '__CPROVER_is_fresh(self')) for l, k, t in DSIZE_CONTRACT]},
                          enforce='DenseNodes_size', harness='void harness(void) { const struct DenseNodes* d; DenseNodes_size(d);' + tail1, replay=('c01_codec', lambda cex, o: ['blocksize'])))
PIPELINES.append(Pipeline('U_PrimitiveBlock_size', units=[U_dsize, U_pbsize], prelude=pb_prelude, contracts={'DenseNodes_size': DSIZE_CONTRACT, 'PrimitiveBlock_size': [
    (l, k, t.replace('__CPROVER_rw_ok(self,', '__CPROVER_is_fresh(self,').replace('__CPROVER_rw_ok(self->m_dense_nodes,', '__CPROVER_is_fresh(self->m_dense_nodes,')) for l, k, t in PBSIZE_CONTRACT]},
    replace=['DenseNodes_size', 'StringTable_size', 'StringTable_byte_size'], enforce='PrimitiveBlock_size',
    harness='void harness(void) { const struct PrimitiveBlock* b; PrimitiveBlock_size(b);' + tail1, replay=('c01_codec', lambda cex, o: ['blocksize']),
    note='finding F9: the estimate used the NUMBER of string table entries; 8000 ways with six distinct 1000-byte tag values gave a 48 MB block that the reader rejects'))
PIPELINES.append(Pipeline('U_PrimitiveBlock_can_add', units=[U_dsize, U_pbsize, U_pbcount, U_canadd], prelude=pb_prelude, contracts={'PrimitiveBlock_size': PBSIZE_CONTRACT, 'PrimitiveBlock_can_add': [
    ('pre', 'requires', PBSIZE_CONTRACT[0][2].replace('__CPROVER_rw_ok(self,', '__CPROVER_is_fresh(self,').replace('__CPROVER_rw_ok(self->m_dense_nodes,', '__CPROVER_is_fresh(self->m_dense_nodes,')),
    ('post:another object is admitted only to a block of its own type that has room for an entity and whose unbounded parts are below 95 per cent of the blob limit', 'ensures',
     '!__CPROVER_return_value || (type == self->m_type && self->m_count < max_entities_per_block && '
     'self->m_pbf_primitive_group_data + ghost_st_bytes + (self->m_dense_nodes ? self->m_dense_nodes->m_tags.size : 0) < max_used_blob_size)'),
    ('frame', 'assigns', '')]}, replace=['PrimitiveBlock_size'], enforce='PrimitiveBlock_can_add',
    harness='void harness(void) { const struct PrimitiveBlock* b; PrimitiveGroup t; PrimitiveBlock_can_add(b, t); __CPROVER_assert(0, "canary"); }', replay=('c01_codec', lambda cex, o: ['blocksize']),
    note='what the gate cannot promise: a single object larger than the remaining 5 per cent still overflows the block (not decided)'))

# ---- StringTable::add: index == position in the store, never 0 for a new string, bytes accounted ----------------------------------------------
ST = 'include/osmium/io/detail/string_table.hpp'


def st_prelude(repo):
    src = cx.preprocess(cx.strip_comments(open(repo + '/' + ST).read()))
    got = [m[1] for m in cx.extract_members(src, 'StringTable')]
    if got != ['m_strings', 'm_index', 'm_size', 'm_byte_size']:
        raise ExtractError('StringTable data members changed: %s' % got)
    return (cx.extract_const(repo, 'include/osmium/io/detail/pbf.hpp', 'max_uncompressed_blob_size') + cx.extract_anon_enum_const(repo, ST, 'max_entries').replace('static_cast<int32_t>(max_uncompressed_blob_size)', '((int32_t)max_uncompressed_blob_size)')
            + cx.extract_anon_enum_const(repo, ST, 'entry_overhead') + '''
struct StringTable { int m_strings; int m_index; int32_t m_size; size_t m_byte_size; };
size_t ghost_n;              /* ghost: length of the string */
int32_t ghost_found;         /* ghost: index under which the string is in the hash index already, 0 if it is not */
size_t ghost_store_count;    /* ghost: number of strings in the StringStore (the writer emits them in this order: position k gets index k) */
size_t ghost_store_bytes;    /* ghost: bytes of the serialised table: every string plus at most entry_overhead bytes of tag and length */
/* m_index.find(s): the index stored for an equal string, or nothing */
int32_t verif_index_find(const int* index, const char* s) __CPROVER_requires(1) __CPROVER_assigns() __CPROVER_ensures(__CPROVER_return_value == ghost_found);
/* StringStore::add(s): appends a copy of the string and returns it */
const char* StringStore_add(int* store, const char* s) __CPROVER_requires(__CPROVER_r_ok(s, ghost_n + 1) && s[ghost_n] == 0) __CPROVER_assigns(ghost_store_count, ghost_store_bytes)
  __CPROVER_ensures(ghost_store_count == __CPROVER_old(ghost_store_count) + 1 && ghost_store_bytes == __CPROVER_old(ghost_store_bytes) + ghost_n + entry_overhead &&
                    __CPROVER_is_fresh(__CPROVER_return_value, ghost_n + 1) && __CPROVER_return_value[ghost_n] == 0);
int32_t ghost_put;           /* ghost: index entered into the hash index for the new string */
void verif_index_put(int* index, const char* s, int32_t v) __CPROVER_requires(1) __CPROVER_assigns(ghost_put) __CPROVER_ensures(ghost_put == v);
/* ghost_n is DEFINED as the length of the string (of s and of its copy in the store) */
size_t verif_strlen(const char* s) __CPROVER_requires(__CPROVER_r_ok(s, ghost_n + 1) && s[ghost_n] == 0) __CPROVER_assigns() __CPROVER_ensures(__CPROVER_return_value == ghost_n);
''')


U_stadd = Unit(ST, 'add', cls='StringTable',
               pre=[(r'const auto f = m_index\.find\(s\);', 'const int32_t f = verif_index_find(&m_index, s);'), (r'if \(f != m_index\.end\(\)\) \{\s*return f->second;', 'if (f != 0) { return f;'),
                    (r'm_strings\.add\(s\)', 'StringStore_add(&m_strings, s)'), (r'm_index\[cs\] = \+\+m_size;', 'verif_index_put(&m_index, cs, ++m_size);'), (r'std::strlen\(', 'verif_strlen(')])
PIPELINES.append(Pipeline('U_StringTable_add', units=[U_stadd], prelude=st_prelude, contracts={'StringTable_add': [
    ('pre:the table invariant: entry k of the store has index k, index 0 is the reserved empty string, the byte count covers the serialised table', 'requires',
     'verif_exc == 0 && __CPROVER_is_fresh(self, sizeof(*self)) && ghost_n <= 100000 && __CPROVER_is_fresh(s, ghost_n + 1) && s[ghost_n] == 0 && self->m_size >= 0 && self->m_size <= max_entries && '
     'ghost_store_count == (size_t)self->m_size + 1 && ghost_found >= 0 && ghost_found <= self->m_size && self->m_byte_size >= ghost_store_bytes && self->m_byte_size <= ((size_t)1 << 40) && ghost_store_bytes <= ((size_t)1 << 40) && '
     '(ghost_n > 0 || 1)'),
    ('post:a string that is in the table already gets its old index and nothing changes', 'ensures', 'ghost_found == 0 || (verif_exc == 0 && __CPROVER_return_value == ghost_found && self->m_size == __CPROVER_old(self->m_size) && ghost_store_count == __CPROVER_old(ghost_store_count))'),
    ('post:a new string is appended to the store and gets the index of its position there, which is never 0 (0 is the delimiter of keys_vals)', 'ensures',
     'ghost_found != 0 || (ghost_store_count == __CPROVER_old(ghost_store_count) + 1 && ghost_put == self->m_size && (size_t)self->m_size == ghost_store_count - 1 && self->m_size >= 1 && (verif_exc != 0 || __CPROVER_return_value == self->m_size))'),
    ('post:the invariant holds again: the byte count the block size estimate uses covers the serialised table', 'ensures', 'ghost_store_count == (size_t)self->m_size + 1 && self->m_byte_size >= ghost_store_bytes'),
    ('post:only a table with too many entries is refused', 'ensures', 'verif_exc == 0 || (verif_exc == EXC_pbf_error && self->m_size > max_entries)'),
    ('frame', 'assigns', 'verif_exc, self->m_size, self->m_byte_size, ghost_store_count, ghost_store_bytes, ghost_put')]},
    replace=['verif_index_find', 'StringStore_add', 'verif_index_put', 'verif_strlen'], enforce='StringTable_add',
    harness='void harness(void) { struct StringTable* t; const char* s; StringTable_add(t, s); __CPROVER_assert(verif_exc != 0, "canary:normal"); __CPROVER_assert(verif_exc == 0, "canary:throw"); }',
    canaries=['canary:normal', 'canary:throw'], replay=('c01_codec', lambda cex, o: ['densetags']),
    note='relative to contracts for the hash index and the string store; the index written by the encoders is the position the reader resolves'))

# ---- XML writer: a changeset element carries its tags and its discussion exactly when they exist ------------------------------------------------
XOUT = 'include/osmium/io/detail/xml_output_format.hpp'
XOUT_PRELUDE = '''
struct XMLOutputBlock { int m_out; };
/* ghost: what the changeset has, and which parts of the element were written */
_Bool ghost_tags_empty, ghost_discussion_empty;
_Bool ghost_selfclosed, ghost_opened, ghost_closed, ghost_wrote_tags, ghost_wrote_discussion;
int verif_nondet_int(void) { int verif_any; return verif_any; }   /* any attribute value */
'''


def xml_out_ops(body, R):
    """`*m_out += X;` -> an event for the three literals that structure the element, nothing for attribute text"""
    ev = {r'"/>\n"': 'ghost_selfclosed = 1;', r'">\n"': 'ghost_opened = 1;', r'" </changeset>\n"': 'ghost_closed = 1;'}
    n = [0]
    def rep(m):
        n[0] += 1
        return ev.get(m.group(1).strip(), '/* text */;')
    body = re.sub(r'\*m_out \+= ([^;]*);', rep, body)
    for lit in ev:
        pass
    if n[0] == 0 or 'ghost_selfclosed' not in body or 'ghost_opened' not in body or 'ghost_closed' not in body:
        raise cx.ExtractError('XML changeset writer: the literals "/>", ">" and "</changeset>" were not all found')
    R.hit('unit_rewrite:*m_out += ...', n[0])
    return body


U_xcs = Unit(XOUT, 'changeset', cls='XMLOutputBlock', selftype='struct XMLOutputBlock', params=['const int* changeset_p'],
             pre=[xml_out_ops, (r'(?:write_attribute|append_xml_encoded_string|detail::append_lat_lon_attributes)\([^;]*\);', '/* attribute */;'),
                  (r'write_tags\(changeset\.tags\(\), 0\);', 'ghost_wrote_tags = 1;'), (r'write_discussion\(changeset\.discussion\(\)\);', 'ghost_wrote_discussion = 1;'),
                  (r'changeset\.tags\(\)\.empty\(\)', 'ghost_tags_empty', '?'), (r'changeset\.discussion\(\)\.empty\(\)', 'ghost_discussion_empty', '?'),
                  (r'changeset\.\w+\(\)(?:\.\w+\(\))*', 'verif_nondet_int()')])
PIPELINES.append(Pipeline('U_xml_changeset_element', units=[U_xcs], prelude=XOUT_PRELUDE, contracts={'XMLOutputBlock_changeset': [
    ('pre', 'requires', '__CPROVER_is_fresh(self, sizeof(*self)) && !ghost_selfclosed && !ghost_opened && !ghost_closed && !ghost_wrote_tags && !ghost_wrote_discussion && ghost_tags_empty <= 1 && ghost_discussion_empty <= 1'),
    ('post:the discussion is written exactly when the changeset has one, whatever its attributes (comments_count included) say', 'ensures', 'ghost_wrote_discussion == !ghost_discussion_empty'),
    ('post:the tags are written when there are any', 'ensures', 'ghost_tags_empty || ghost_wrote_tags'),
    ('post:the element is either self-closed or opened and closed, and self-closed only when it has no content', 'ensures',
     'ghost_selfclosed != (ghost_opened && ghost_closed) && ghost_opened == ghost_closed && (!ghost_selfclosed || (ghost_tags_empty && ghost_discussion_empty && !ghost_wrote_tags && !ghost_wrote_discussion))'),
    ('frame', 'assigns', 'ghost_selfclosed, ghost_opened, ghost_closed, ghost_wrote_tags, ghost_wrote_discussion')]},
    enforce='XMLOutputBlock_changeset', harness='void harness(void) { struct XMLOutputBlock* b; const int* c; XMLOutputBlock_changeset(b, c); __CPROVER_assert(0, "canary"); }',
    noflags=['--conversion-check'], replay=('c01_codec', lambda cex, o: ['xmlchangeset']),
    note='the output string is replaced by a ghost record of the structural literals; attribute values are arbitrary'))

# ---- PBF non-dense objects: the Info message carries exactly the enabled metadata with the object's values ---------------------------------
OBJ = 'include/osmium/osm/object.hpp'
ITEM = 'include/osmium/memory/item.hpp'
TS = 'include/osmium/osm/timestamp.hpp'


def info_prelude(repo):
    return (dn_prelude(repo).replace('#define VERIF_FIELD(f) ghost_fields |= (f)', '#define VERIF_FIELD(f) ghost_fields |= (f)\n#define VERIF_FIELDV(f, v) { ghost_fields |= (f); ghost_val_##f = (int64_t)(v); }')
            + 'typedef int64_t object_id_type; typedef uint64_t unsigned_object_id_type; typedef uint32_t object_version_type; typedef uint32_t user_id_type; typedef uint32_t changeset_id_type; typedef uint32_t item_size_type; typedef uint16_t item_type;\n'
            + cx.members_struct(repo, [(TS, 'Timestamp')], 'Timestamp') + 'typedef struct Timestamp Timestamp;\n'
            + cx.members_struct(repo, [(ITEM, 'Item'), (OBJ, 'OSMObject')], 'OSMObject') + 'typedef struct OSMObject OSMObject;\n'
            + 'int64_t ghost_val_F_version, ghost_val_F_timestamp, ghost_val_F_changeset, ghost_val_F_uid, ghost_val_F_user_sid, ghost_val_F_visible; uint32_t ghost_user_sid;\n'
            + 'struct PBFOutputFormat { struct pbf_output_options m_options; };\n')


ACC = [Unit(OBJ, nm, cls='OSMObject', selftype='const struct OSMObject', sig=sg) for nm, sg in (('version', r'version\(\) const'), ('changeset', r'changeset\(\) const'), ('uid', r'uid\(\) const'), ('deleted', None), ('visible', None))]
U_meta = Unit(POUT, 'add_meta', cls='PBFOutputFormat', cname='blk_add_meta_info', selftype='struct PBFOutputFormat', ret='void', params=['const OSMObject* object_p'],
              block=(r'if \(m_options\.add_metadata\.any\(\) \|\| m_options\.add_visible_flag\) \{', r'\n                \}\s*$'),
              objs={'object_p': 'OSMObject'},
              pre=[(r'protozero::pbf_builder<OSMFormat::Info> pbf_info\{pbf_object, T::enum_type::optional_Info_info\};', 'VERIF_FIELD(F_DenseInfo);'),
                   (r'static_cast<uint32_t>\(object\.timestamp\(\)\)', 'object_p->m_timestamp.m_timestamp'),
                   (r'm_primitive_block->store_in_stringtable_unsigned\(object\.user\(\)\)', 'ghost_user_sid'),
                   (r'object\.', 'object_p->'),
                   (r'pbf_info\.add_\w+\(OSMFormat::Info::optional_\w+?_(version|timestamp|changeset|uid|user_sid|visible), ([^;]*)\);', r'VERIF_FIELDV(F_\1, \2)'),
                   (r'm_options\.add_metadata\.(\w+)\(\)', r'metadata_options_\1(&m_options.add_metadata)')])
MDBIT = lambda f, b: '((ghost_fields & %s) != 0) == ((self->m_options.add_metadata.m_options & %s) != 0)' % (f, b)
PIPELINES.append(Pipeline('U_add_meta_info_fields', units=MDUNITS + ACC + [U_meta], prelude=info_prelude, contracts={'blk_add_meta_info': [
    ('pre:an object within the value domain of the format (version and uid below 2^31)', 'requires',
     '__CPROVER_is_fresh(self, sizeof(*self)) && __CPROVER_is_fresh(object_p, sizeof(*object_p)) && ghost_fields == 0 && self->m_options.add_metadata.m_options <= md_all && object_p->m_uid <= 2147483647u'),
    ('post:each metadata field is written exactly when it is enabled', 'ensures', ' && '.join(MDBIT(f, b) for f, b in (('F_version', 'md_version'), ('F_timestamp', 'md_timestamp'), ('F_changeset', 'md_changeset'), ('F_uid', 'md_uid'), ('F_user_sid', 'md_user')))),
    ('post:the visible flag is written exactly for history files, whatever the metadata subset', 'ensures', '((ghost_fields & F_visible) != 0) == (self->m_options.add_visible_flag != 0)'),
    ('post:the values written are the attributes of the object', 'ensures',
     '(!(ghost_fields & F_version) || ghost_val_F_version == object_p->m_version) && (!(ghost_fields & F_timestamp) || ghost_val_F_timestamp == object_p->m_timestamp.m_timestamp) && '
     '(!(ghost_fields & F_changeset) || ghost_val_F_changeset == object_p->m_changeset) && (!(ghost_fields & F_uid) || ghost_val_F_uid == object_p->m_uid) && '
     '(!(ghost_fields & F_user_sid) || ghost_val_F_user_sid == ghost_user_sid) && (!(ghost_fields & F_visible) || ghost_val_F_visible == !object_p->m_deleted)'),
    ('frame', 'assigns', 'ghost_fields, ghost_val_F_version, ghost_val_F_timestamp, ghost_val_F_changeset, ghost_val_F_uid, ghost_val_F_user_sid, ghost_val_F_visible')]},
    enforce='blk_add_meta_info', harness='void harness(void) { struct PBFOutputFormat* f; const OSMObject* o; blk_add_meta_info(f, o); __CPROVER_assert(0, "canary"); }',
    replay=('c01_codec', lambda cex, o: ['dense', 'none', 1, 0]), noflags=['--conversion-check'],
    note='statement block of PBFOutputFormat::add_meta (ways, relations, non-dense nodes); protobuf builder calls replaced by a ghost record of field and value'))

# ---- PBF header bounding box: the writer's conversion against the reader's ---------------------------------------------------------------------------
def box_prelude(repo):
    return '#include <math.h>\n' + cx.extract_const(repo, PBF, 'lonlat_resolution') + 'enum { coordinate_precision = 10000000 };\n' + cx.extract_const(repo, PBF, 'resolution_convert')


U_hdr = Unit(POUT, 'write_header', cls='PBFOutputFormat', cname='blk_header_box_left', method=False, ret='int64_t', params=['int32_t x'],
             block=(r'pbf_header_bbox\.add_sint64\(OSMFormat::HeaderBBox::required_sint64_left,', r'pbf_header_bbox\.add_sint64\(OSMFormat::HeaderBBox::required_sint64_right'),
             pre=[(r'pbf_header_bbox\.add_sint64\(OSMFormat::HeaderBBox::required_sint64_left,\s*(.*)\);', r'return \1;'),
                  (r'box\.bottom_left\(\)\.x\(\)', 'x')])
U_f2d = Unit(LOC, 'fix_to_double', cls='Location', method=False, cname='Location_fix_to_double', post=[(r'precision\(\)', '((double)coordinate_precision)')])
PIPELINES.append(Pipeline('L_header_box_roundtrip', units=[U_hdr], prelude=box_prelude, harness='''
void harness(void) { int32_t x; __CPROVER_assume(x >= -1800000000 && x <= 1800000000);
  int64_t written = blk_header_box_left(x);            /* what PBFOutputFormat::write_header stores for a corner coordinate */
  int64_t read = written / resolution_convert;         /* what decode_header_bbox makes of it */
  __CPROVER_assert(read == x, "L header bounding box corner comes back identical");
  __CPROVER_assert(0, "canary"); }''', solver='kissat', timeout=900, flags=['--bounds-check', '--conversion-check', '--div-by-zero-check'],
                              replay=('c01_codec', lambda cex, o: ['box', cex.first('x', 0)]),
                              note='every valid fixed-point coordinate'))

TRUSTED = ['protozero builders write the field they are asked to write', 'zlib/lz4', 'expat']
ASSUMPTIONS = ['machine arithmetic wraps in the delta coders (C++ calls the overflow undefined; stated)']
NOT_DECIDED = ['whole-file round trip through Writer/Reader (threads, compression, protobuf assembly)', 'option matrix as executions', 'block size accounting (recorded finding F9)', 'XML attribute formatting']
LEVEL_TEXT = ('Proof for codec pairs: one step of delta encoding followed by delta decoding returns the value and keeps both states equal, for every instantiation pair the PBF writer and reader use '
              '(including the mixed-width uid pair), under wrap-around arithmetic; the dense-node serialiser writes exactly the enabled metadata columns and the visible flags exactly when the history '
              'flag is set, for all 64 option combinations; the Info message of ways, relations and non-dense nodes carries exactly the enabled fields with the attribute values of the object; the PBF header bounding box conversion (integer arithmetic since the F22 repair) is checked against the reader for every valid coordinate; '
              'DenseNodes::add_node (with any helper it is split into) appends exactly one entry to every enabled column and, for any number of tags, a run of two non-zero string ids per tag closed by one 0 to keys_vals; '
              'StringTable::add returns for a new string the index of its position in the store (never 0), for a known string its old index, and keeps the byte count of the serialised table; '
              'the block size estimate behind can_add() covers every part of a block that is not bounded by the entity count (group data, bytes of the string table, dense node tags), and can_add() admits an object only below 95 per cent of the blob limit; the XML writer puts the discussion and the tags of a changeset into the element exactly when they exist and self-closes the element only without content. '
              'Other pairs are decided under C13 '
              '(numbers, coordinates), C14 (strings) and C02 (PBF metadata ranges, lat/lon with block parameters).')
LEVEL_NOTE = ('Trusted: CBMC, extraction rules, protozero, compression libraries, expat. The statement is about whole files; only leaf codec pairs are decided. Assumed: contracts of the hash index and string store inside StringTable. Not decided: Writer/Reader pipeline, option matrix as executions, '
              'a single object larger than the 5 per cent reserve of a block, the rest of the XML and OPL writers (attribute text).')
