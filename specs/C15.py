"""C15 - id sets, relation maps and the item stash match their set/map models."""
from cv import Pipeline, Unit
from cx import ExtractError
import cx, re

PROPERTY = 'C15'
LEVEL = 'proof'
IDS = 'include/osmium/index/id_set.hpp'
STASH = 'include/osmium/storage/item_stash.hpp'


def check_members(repo, file, cls, want):
    src = cx.preprocess(cx.strip_comments(open(repo + '/' + file).read()))
    got = [m[1] for m in cx.extract_members(src, cls)]
    if got != want:
        raise ExtractError('data members of %s changed: %s (model expects %s)' % (cls, got, want))
    return ''


def prelude_ids(T):
    def f(repo):
        check_members(repo, IDS, 'IdSetDense', ['m_data', 'm_size'])
        check_members(repo, IDS, 'IdSetDenseIterator', ['m_set', 'm_value', 'm_last'])
        return '''
typedef %s T;
size_t ghost_chunk_bits;            /* the template parameter chunk_bits, symbolic: 1..22 (22 is the library default) */
#define chunk_bits ghost_chunk_bits
#define chunk_size ((size_t)1 << chunk_bits)
#define TBITS (sizeof(T) * 8)
/* model of  std::vector<std::unique_ptr<unsigned char[]>> m_data :  nchunks entries; entry k is null (present[k] == 0)
   or owns chunk_size bytes, kept in one flat array at store[k * chunk_size ...] */
struct IdSetDense { _Bool* present; unsigned char* store; size_t nchunks; T m_size; };
struct IdSetDense; T ghost_g;                          /* ghost: an arbitrary id at which the abstract set is observed */
/* abstract view: membership of id in the set, from the class documentation ("internal storage is in chunks of arrays used as bit fields") */
#define CID(id) ((size_t)((id) >> (chunk_bits + 3U)))
#define OFF(id) ((size_t)(((id) >> 3U) & (chunk_size - 1U)))
#define BM(id) (1U << ((id) & 7U))
#define MEMBER(s, id) (CID(id) < (s)->nchunks && (s)->present[CID(id)] && (((s)->store[CID(id) * chunk_size + OFF(id)] & BM(id)) != 0))
#define MAXCHUNKS ((TBITS == 32) ? ((size_t)1 << (32 - 3 - chunk_bits)) : (size_t)4096)
#define SET_OK(s) (chunk_bits >= 1 && chunk_bits <= 22 && (s)->nchunks >= 1 && (s)->nchunks <= MAXCHUNKS && (s)->nchunks * chunk_size <= ((size_t)1 << 30) && \\
   __CPROVER_is_fresh((s)->present, (s)->nchunks) && __CPROVER_is_fresh((s)->store, (s)->nchunks * chunk_size))
''' % T + cx.members_struct(repo, [(IDS, 'IdSetDenseIterator')], 'IdSetDenseIterator', typemap={'const id_set*': 'const struct IdSetDense*'})
    return f


FLAT = [(r'm_data\.size\(\)', 'nchunks')]
U_cid = Unit(IDS, 'chunk_id', cls='IdSetDense', method=False)
U_off = Unit(IDS, 'offset', cls='IdSetDense', method=False)
U_bm = Unit(IDS, 'bitmask', cls='IdSetDense', method=False)
U_last = Unit(IDS, 'last', cls='IdSetDense', pre=FLAT, extra_members=['nchunks'])
U_get = Unit(IDS, 'get', cls='IdSetDense', sig=r'get\(T id\) const', extra_members=['nchunks', 'present', 'store'],
             pre=FLAT + [(r'm_data\[chunk_id\(id\)\]\.get\(\)', '(present[chunk_id(id)] ? store + chunk_id(id) * chunk_size : 0)')],
             post=[(r'(?<![\w_])chunk_id\(', 'IdSetDense_chunk_id('), (r'(?<![\w_])offset\(', 'IdSetDense_offset('), (r'(?<![\w_])bitmask\(', 'IdSetDense_bitmask(')])
U_next = Unit(IDS, 'next', cls='IdSetDenseIterator',
              pre=[(r'm_set->get\(', 'IdSetDense_get(m_set, '), (r'id_set::(\w+)\(', r'IdSetDense_\1('), (r'm_set->m_data\.size\(\)', 'm_set->nchunks'),
                   (r'!m_set->m_data\[cid\]', '!m_set->present[cid]'), (r'm_set->m_data\[cid\]\[([^\]]*\))\]', r'm_set->store[cid * chunk_size + \1]')])

PIPELINES = []
for T in ('uint32_t', 'uint64_t'):
    tag = 'u32' if T == 'uint32_t' else 'u64'
    # ---- U1: the id -> (chunk, byte, bit) map ------------------------------------------------------------
    PIPELINES.append(Pipeline('U1_id_to_bit_map_' + tag, units=[U_cid, U_off, U_bm], prelude=prelude_ids(T), harness='''
void harness(void) {
  T a, b; size_t cb; ghost_chunk_bits = cb; __CPROVER_assume(chunk_bits >= 1 && chunk_bits <= 22);
  __CPROVER_assert(IdSetDense_chunk_id(a) == CID(a) && IdSetDense_offset(a) == OFF(a) && IdSetDense_bitmask(a) == BM(a), "U1 chunk/offset/bit equal the documented split of the id");
  __CPROVER_assert(IdSetDense_offset(a) < chunk_size, "U1 byte offset lies inside the chunk");
  __CPROVER_assert(IdSetDense_bitmask(a) >= 1 && IdSetDense_bitmask(a) <= 128, "U1 bit mask selects one bit of the byte");
  __CPROVER_assert(a == b || IdSetDense_chunk_id(a) != IdSetDense_chunk_id(b) || IdSetDense_offset(a) != IdSetDense_offset(b) || IdSetDense_bitmask(a) != IdSetDense_bitmask(b),
                   "L1 distinct ids are stored in distinct bits (the map is injective)");
  __CPROVER_assert(((T)IdSetDense_chunk_id(a) << (chunk_bits + 3)) + ((T)IdSetDense_offset(a) << 3) + (a & 7) == a, "L1 the id is recovered from chunk, offset and bit");
  __CPROVER_assert(0, "canary"); }''', noflags=['--conversion-check'],
                              replay=('c15_idset', lambda cex, o: ['search']), note='all ids of the type, all chunk_bits 1..22; loop-free, complete'))
    # ---- U1: last() ------------------------------------------------------------------------------------------
    PIPELINES.append(Pipeline('U1_last_' + tag, units=[U_last], prelude=prelude_ids(T), contracts={'IdSetDense_last': [
        ('pre', 'requires', '__CPROVER_is_fresh(self, sizeof(*self)) && chunk_bits >= 1 && chunk_bits <= 22 && self->nchunks <= MAXCHUNKS'),
        ('post:every id whose chunk exists lies before last() (iteration range covers the whole set)', 'ensures',
         '!(CID(ghost_g) < self->nchunks) || (uint64_t)ghost_g < (uint64_t)__CPROVER_return_value'),
        ('post:last() is the first id beyond the allocated chunks', 'ensures', '(uint64_t)__CPROVER_return_value == (uint64_t)self->nchunks * chunk_size * 8'),
        ('frame', 'assigns', '')]}, enforce='IdSetDense_last', noflags=['--conversion-check'],
        harness='void harness(void) { struct IdSetDense* s; IdSetDense_last(s); __CPROVER_assert(0, "canary"); }',
        replay=('c15_idset', (lambda T: lambda cex, o: ['last', T])(T)),
        note='any number of chunks the id type can address'))
    # ---- U2: get() against the abstract view --------------------------------------------------------------------
    PIPELINES.append(Pipeline('U2_get_' + tag, units=[U_cid, U_off, U_bm, U_get], prelude=prelude_ids(T), contracts={'IdSetDense_get': [
        ('pre', 'requires', '__CPROVER_is_fresh(self, sizeof(*self)) && SET_OK(self)'),
        ('post:membership', 'ensures', '__CPROVER_return_value == MEMBER(self, id)'), ('frame', 'assigns', '')]}, enforce='IdSetDense_get',
        harness='void harness(void) { struct IdSetDense* s; T id; IdSetDense_get(s, id); __CPROVER_assert(0, "canary"); }', noflags=['--conversion-check'],
        replay=('c15_idset', lambda cex, o: ['search'])))
    # ---- U3: iterator next(): ascending iteration is exact across chunk boundaries ----------------------------------
    NEXT_LOOP = [['__CPROVER_assigns(self->m_value)',
                  '__CPROVER_loop_invariant(__CPROVER_loop_entry(self->m_value) <= self->m_value && self->m_value <= self->m_last && '
                  '(!(__CPROVER_loop_entry(self->m_value) <= ghost_g && ghost_g < self->m_value) || !MEMBER(self->m_set, ghost_g)))',
                  '__CPROVER_decreases(self->m_last - self->m_value)']]
    PIPELINES.append(Pipeline('U3_iterator_next_' + tag, units=[U_cid, U_off, U_bm, U_get, U_next], prelude=prelude_ids(T),
                              contracts={'IdSetDenseIterator_next': [
                                  ('pre', 'requires', '__CPROVER_is_fresh(self, sizeof(*self)) && __CPROVER_is_fresh(self->m_set, sizeof(struct IdSetDense)) && SET_OK(self->m_set) && '
                                   'self->m_last == (uint64_t)self->m_set->nchunks * chunk_size * 8 && self->m_value <= self->m_last'),
                                  ('post:moves forward, stays in range', 'ensures', 'self->m_value >= __CPROVER_old(self->m_value) && self->m_value <= self->m_last'),
                                  ('post:stops on a member or at the end', 'ensures', 'self->m_value == self->m_last || MEMBER(self->m_set, self->m_value)'),
                                  ('post:no member is skipped', 'ensures', '!(__CPROVER_old(self->m_value) <= ghost_g && ghost_g < self->m_value) || !MEMBER(self->m_set, ghost_g)'),
                                  ('frame', 'assigns', 'self->m_value')],
                                  'IdSetDense_get': [('post', 'ensures', '__CPROVER_return_value == MEMBER(self, id)'), ('frame', 'assigns', '')]},
                              loops={'IdSetDenseIterator_next': NEXT_LOOP}, replace=['IdSetDense_get'], enforce='IdSetDenseIterator_next',
                              harness='void harness(void) { struct IdSetDenseIterator* it; IdSetDenseIterator_next(it); __CPROVER_assert(0, "canary"); }',
                              noflags=['--conversion-check'], timeout=900, replay=('c15_idset', lambda cex, o: ['search']),
                              solver='kissat', note='arbitrary bitmap contents, any number of chunks, any chunk_bits; unbounded (loop contract, decreases)'))


# =================================================================================================== ItemStash
    # ---- U5: the setters, relative to the contract of get_element (which allocates) ---------------------------------------------------
    GETEL = '''
unsigned char* ghost_byte;   /* ghost: the byte of the set that holds the bit of id */
/* IdSetDense::get_element(id): makes sure the chunk of id exists (resizing the chunk vector, allocating a zeroed chunk) and returns a reference to the
   byte holding the bit of id. Assumed contract: it returns that byte and changes nothing the caller can see (the abstract set is unchanged). */
unsigned char* IdSetDense_get_element(struct IdSetDense* self, T id)
__CPROVER_requires(__CPROVER_rw_ok(self, sizeof(*self)))
__CPROVER_assigns()
__CPROVER_ensures(__CPROVER_pointer_equals(__CPROVER_return_value, ghost_byte))
;
'''
    SETPOST = [(r'(?<![\w_])bitmask\(', 'IdSetDense_bitmask(')]
    GSIB = {'get_element': 'IdSetDense_get_element'}
    U_cas = Unit(IDS, 'check_and_set', cls='IdSetDense', post=SETPOST, stub_siblings=GSIB)
    U_unset = Unit(IDS, 'unset', cls='IdSetDense', post=SETPOST, stub_siblings=GSIB)
    SET_PRE = ('pre:the byte of the id; the element count is consistent with it', 'requires',
               '__CPROVER_is_fresh(self, sizeof(*self)) && __CPROVER_is_fresh(ghost_byte, 1) && ((*ghost_byte & BM(id)) ? self->m_size >= 1 : self->m_size < (T)-1)')
    SET_FRAME = ('frame:only the byte of the id and the element count are written - every other byte, chunk and id is untouched', 'assigns', '*ghost_byte, self->m_size')
    for name, u, isset in (('check_and_set', U_cas, True), ('unset', U_unset, False)):
        PIPELINES.append(Pipeline('U5_%s_%s' % (name, tag), units=[U_bm, u], prelude=(lambda T: lambda repo: prelude_ids(T)(repo) + GETEL)(T), contracts={'IdSetDense_' + name: [
            SET_PRE,
            ('post:the bit of the id is %s afterwards and the seven other ids sharing the byte are what they were' % ('set' if isset else 'clear'), 'ensures',
             '((*ghost_byte & BM(id)) %s 0) && (*ghost_byte & ~BM(id) & 0xff) == (__CPROVER_old(*ghost_byte) & ~BM(id) & 0xff)' % ('!=' if isset else '==')),
            ('post:the element count changes exactly when membership changes' + (', and the result says whether the id was new' if isset else ''), 'ensures',
             ('self->m_size == __CPROVER_old(self->m_size) + ((__CPROVER_old(*ghost_byte) & BM(id)) ? 0 : 1) && __CPROVER_return_value == ((__CPROVER_old(*ghost_byte) & BM(id)) == 0)') if isset else
             'self->m_size == __CPROVER_old(self->m_size) - ((__CPROVER_old(*ghost_byte) & BM(id)) ? 1 : 0)'),
            SET_FRAME]},
            replace=['IdSetDense_get_element'], ret_ref_stubs=['IdSetDense_get_element'], enforce='IdSetDense_' + name,
            harness='void harness(void) { struct IdSetDense* s; T id; IdSetDense_%s(s, id); __CPROVER_assert(0, "canary"); }' % name, noflags=['--conversion-check'],
            replay=('c15_idset', lambda cex, o: ['search']), note='relative to get_element returning the byte of the id; together with U1 (the id -> bit map is injective) this is the abstract set update'))

ITEM = 'include/osmium/memory/item.hpp'


def prelude_stash(repo):
    check_members(repo, STASH, 'ItemStash', ['m_buffer', 'm_index', 'm_count_items', 'm_count_removed'])
    src = cx.preprocess(cx.strip_comments(open(repo + '/' + STASH).read()))
    if not re.search(r'class handle_type \{\s*friend class ItemStash;\s*std::size_t value;', src):
        raise ExtractError('ItemStash::handle_type layout changed')
    m = re.search(r'removed_item_offset\s*=\s*([^,;}]+)', src)
    if not m:
        raise ExtractError('removed_item_offset not found')
    return ('typedef uint32_t item_size_type; typedef uint16_t item_type;\n' + cx.members_struct(repo, [(ITEM, 'Item')], 'Item') + 'typedef struct Item Item;\n' + '''
#define removed_item_offset (%s)
struct handle_type { size_t value; };
typedef struct handle_type handle_type;
/* std::vector<std::size_t>: array + size; push_back is an assumed contract (C++ standard) */
typedef struct vvec_sz { size_t* data; size_t size; } vvec_sz;
/* osmium::memory::Buffer as seen by ItemStash (the Buffer itself is under contract in C04): committed/capacity counters and the item at an offset */
struct Buffer { size_t m_committed; size_t m_capacity; Item* items_base; };
struct ItemStash { struct Buffer m_buffer; vvec_sz m_index; size_t m_count_items; size_t m_count_removed; };
size_t ghost_item_offset;    /* ghost: offset at which Buffer::add_item stored the most recent item */
size_t ghost_h;              /* ghost: an arbitrary other handle at which the index is observed */
size_t vvec_sz_size(const vvec_sz* v) __CPROVER_requires(__CPROVER_r_ok(v, sizeof(*v))) __CPROVER_assigns() __CPROVER_ensures(__CPROVER_return_value == v->size);
void vvec_sz_push_back(vvec_sz* v, size_t x)
  __CPROVER_requires(__CPROVER_rw_ok(v, sizeof(*v)) && v->size < 1000000) __CPROVER_assigns(v->size, v->data)
  __CPROVER_ensures(v->size == __CPROVER_old(v->size) + 1 && __CPROVER_is_fresh(v->data, v->size * sizeof(size_t)) && v->data[v->size - 1] == x);
size_t Buffer_committed(const struct Buffer* b) __CPROVER_requires(__CPROVER_r_ok(b, sizeof(*b))) __CPROVER_assigns() __CPROVER_ensures(__CPROVER_return_value == b->m_committed);
size_t Buffer_capacity(const struct Buffer* b) __CPROVER_requires(__CPROVER_r_ok(b, sizeof(*b))) __CPROVER_assigns() __CPROVER_ensures(__CPROVER_return_value == b->m_capacity);
/* Buffer::add_item + commit: the item goes to the current committed position (ItemStash commits after every item) */
void Buffer_add_item(struct Buffer* b, const Item* item) __CPROVER_requires(__CPROVER_rw_ok(b, sizeof(*b))) __CPROVER_assigns(ghost_item_offset)
  __CPROVER_ensures(ghost_item_offset == b->m_committed);
void Buffer_commit(struct Buffer* b) __CPROVER_requires(__CPROVER_rw_ok(b, sizeof(*b))) __CPROVER_assigns(b->m_committed) __CPROVER_ensures(b->m_committed > __CPROVER_old(b->m_committed));
/* garbage collection compacts the buffer: committed may shrink (Buffer::purge_removed, C04) */
struct ItemStash;
void ItemStash_garbage_collect(struct ItemStash* self) __CPROVER_requires(__CPROVER_rw_ok(self, sizeof(*self))) __CPROVER_assigns(self->m_buffer.m_committed, self->m_count_removed)
  __CPROVER_ensures(self->m_buffer.m_committed <= __CPROVER_old(self->m_buffer.m_committed) && self->m_count_removed == 0);
Item* Buffer_get_item(struct Buffer* b, size_t offset) __CPROVER_requires(__CPROVER_r_ok(b, sizeof(*b)) && offset < b->m_committed) __CPROVER_assigns()
  __CPROVER_ensures(__CPROVER_pointer_equals(__CPROVER_return_value, (Item*)((char*)b->items_base + offset)));
''' % cx.rw_generic(m.group(1).strip(), cx.Rules()))


SOBJ = {'m_buffer': 'Buffer', 'm_index': 'vvec_sz', 'handle': 'handle_type', 'item': 'Item'}
U_shgc = Unit(STASH, 'should_gc', cls='ItemStash', objs=SOBJ)
U_add = Unit(STASH, 'add_item', cls='ItemStash', objs=SOBJ, ret='handle_type',
             pre=[(r'handle_type\{m_index\.size\(\)\}', '(handle_type){ m_index.size() }')],
             post=[(r'(?<![\w.])garbage_collect\(\)', 'ItemStash_garbage_collect(self)'), (r'Buffer_add_item\(&self->m_buffer, \(\*item\)\)', 'Buffer_add_item(&self->m_buffer, item)')])
U_hvalid = Unit(STASH, 'valid', cls='ItemStash::handle_type', cname='handle_type_valid', selftype='const struct handle_type', extra_members=['value'])
U_offref = Unit(STASH, 'get_item_offset_ref', cls='ItemStash', objs=SOBJ, params=['handle_type handle'],
                post=[(r'self->m_index\[', 'self->m_index.data[')])
U_rem = Unit(STASH, 'remove_item', cls='ItemStash', objs=SOBJ, params=['handle_type handle'],
             pre=[(r'm_buffer\.get<osmium::memory::Item>\(', 'Buffer_get_item(&m_buffer, ')])
U_iremoved = Unit(ITEM, 'removed', cls='Item', selftype='const struct Item')
U_isetrem = Unit(ITEM, 'set_removed', cls='Item', ret='void')
STASH_OK = ('__CPROVER_is_fresh(self, sizeof(*self)) && self->m_index.size < 1000000 && __CPROVER_is_fresh(self->m_index.data, (self->m_index.size + 1) * sizeof(size_t))')
PIPELINES.append(Pipeline('U4_ItemStash_add_item', units=[U_shgc, U_add], prelude=prelude_stash, contracts={'ItemStash_add_item': [
    ('pre', 'requires', STASH_OK + ' && __CPROVER_is_fresh(item, sizeof(*item)) && self->m_count_items < 1000000000'),
    ('post:the new handle resolves to the offset at which the item was stored', 'ensures',
     '__CPROVER_return_value.value == self->m_index.size && self->m_index.size == __CPROVER_old(self->m_index.size) + 1 && self->m_index.data[__CPROVER_return_value.value - 1] == ghost_item_offset'),
    ('post:counts', 'ensures', 'self->m_count_items == __CPROVER_old(self->m_count_items) + 1'),
    ('frame', 'assigns', 'self->m_buffer.m_committed, self->m_count_removed, self->m_count_items, self->m_index.size, self->m_index.data, ghost_item_offset')]},
    replace=['vvec_sz_size', 'vvec_sz_push_back', 'Buffer_committed', 'Buffer_capacity', 'Buffer_add_item', 'Buffer_commit', 'ItemStash_garbage_collect'],
    enforce='ItemStash_add_item', harness='void harness(void) { struct ItemStash* s; const Item* it; ItemStash_add_item(s, it); __CPROVER_assert(0, "canary"); }',
    replay=('c15_idset', lambda cex, o: ['stash']),
    note='whether or not the automatic garbage collection runs inside this call (it may move committed), the handle points at the stored item'))
PIPELINES.append(Pipeline('U4_ItemStash_remove_item', units=[U_hvalid, U_iremoved, U_isetrem, U_offref, U_rem], prelude=prelude_stash,
                          contracts={'ItemStash_remove_item': [
                              ('pre:valid handle of a live item', 'requires', STASH_OK + ' && handle.value >= 1 && handle.value <= self->m_index.size && self->m_index.data[handle.value - 1] != removed_item_offset && '
                               'ghost_h < self->m_index.size && self->m_index.data[handle.value - 1] < self->m_buffer.m_committed && self->m_buffer.m_committed <= 1000000 && (self->m_index.data[handle.value - 1] % 8) == 0 && '
                               '__CPROVER_is_fresh(self->m_buffer.items_base, self->m_buffer.m_committed + sizeof(Item)) && self->m_count_items >= 1 && self->m_count_removed < 1000000000 && '
                               '!((Item*)((char*)self->m_buffer.items_base + self->m_index.data[handle.value - 1]))->m_removed'),
                              ('post:the handle is invalidated in the index (sentinel), so later compaction cannot confuse it with a live item', 'ensures',
                               'self->m_index.data[handle.value - 1] == removed_item_offset'),
                              ('post:the item is marked removed', 'ensures', '((Item*)((char*)self->m_buffer.items_base + __CPROVER_old(self->m_index.data[handle.value - 1])))->m_removed'),
                              ('post:other handles untouched', 'ensures', 'ghost_h == handle.value - 1 || self->m_index.data[ghost_h] == __CPROVER_old(self->m_index.data[ghost_h])'),
                              ('post:counts', 'ensures', 'self->m_count_items == __CPROVER_old(self->m_count_items) - 1 && self->m_count_removed == __CPROVER_old(self->m_count_removed) + 1'),
                              ('frame', 'assigns', 'self->m_count_items, self->m_count_removed, __CPROVER_object_whole(self->m_index.data), __CPROVER_object_whole(self->m_buffer.items_base)')]},
                          replace=['Buffer_committed', 'Buffer_get_item', 'vvec_sz_size'], ret_ref_stubs=['Buffer_get_item'], enforce='ItemStash_remove_item',
                          harness='void harness(void) { struct ItemStash* s; handle_type h; ItemStash_remove_item(s, h); __CPROVER_assert(0, "canary"); }',
                          replay=('c15_idset', lambda cex, o: ['stash'])))
U_mov = Unit(STASH, 'moving_in_buffer', cls='ItemStash::cleanup_helper', cname='cleanup_helper_moving_in_buffer', selftype='struct cleanup_helper',
             post=[(r'self->m_index\[', 'self->m_index->data['), (r'self->m_index\.size\(\)', 'self->m_index->size')])
PIPELINES.append(Pipeline('U4_cleanup_helper_moving_in_buffer', units=[U_mov], prelude=lambda repo: prelude_stash(repo) + 'struct cleanup_helper { vvec_sz* m_index; size_t m_pos; };\nsize_t ghost_k; /* ghost: position of the entry that holds old_offset */\n',
                          contracts={'cleanup_helper_moving_in_buffer': [
                              ('pre:the moved item is live: some entry at or after the cursor holds its old offset', 'requires',
                               '__CPROVER_is_fresh(self, sizeof(*self)) && __CPROVER_is_fresh(self->m_index, sizeof(vvec_sz)) && self->m_index->size >= 1 && self->m_index->size < 1000000 && '
                               '__CPROVER_is_fresh(self->m_index->data, self->m_index->size * sizeof(size_t)) && self->m_pos <= ghost_k && ghost_k < self->m_index->size && '
                               'self->m_index->data[ghost_k] == old_offset && ghost_h < self->m_index->size'),
                              ('post:the rewritten entry now holds the new offset, the cursor is just behind it, at or before the known live entry', 'ensures',
                               'self->m_pos >= 1 && self->m_pos - 1 <= ghost_k && self->m_pos > __CPROVER_old(self->m_pos) && self->m_index->data[self->m_pos - 1] == new_offset'),
                              ('post:no entry between the old cursor and the rewritten entry held the old offset (the first match is taken)', 'ensures',
                               '!(__CPROVER_old(self->m_pos) <= ghost_h && ghost_h + 1 < self->m_pos) || __CPROVER_old(self->m_index->data[ghost_h]) != old_offset'),
                              ('post:all other entries unchanged', 'ensures', 'ghost_h + 1 == self->m_pos || self->m_index->data[ghost_h] == __CPROVER_old(self->m_index->data[ghost_h])'),
                              ('frame', 'assigns', 'self->m_pos, __CPROVER_object_whole(self->m_index->data)')]},
                          loops={'cleanup_helper_moving_in_buffer': [['__CPROVER_assigns(self->m_pos)',
                                 '__CPROVER_loop_invariant(self->m_pos <= ghost_k && __CPROVER_loop_entry(self->m_pos) <= self->m_pos && '
                                 '(!(__CPROVER_loop_entry(self->m_pos) <= ghost_h && ghost_h < self->m_pos) || self->m_index->data[ghost_h] != old_offset))', '__CPROVER_decreases(ghost_k - self->m_pos)']]},
                          enforce='cleanup_helper_moving_in_buffer',
                          harness='void harness(void) { struct cleanup_helper* h; size_t a, b; cleanup_helper_moving_in_buffer(h, a, b); __CPROVER_assert(0, "canary"); }',
                          replay=('c15_idset', lambda cex, o: ['stash']),
                          note='the index fix-up during compaction rewrites exactly the first entry (from the cursor) that holds the moved item\'s old offset'))

# ---- relation maps: flat_map::get on the sorted vector - exactly the entries of the key, for keys wider than the internal key type too -------------
RMAP = 'include/osmium/index/relations_map.hpp'
FM_PRELUDE = '''
typedef uint64_t key_type; typedef uint64_t value_type; typedef uint32_t TKeyInternal; typedef uint32_t TValueInternal;   /* the "small" index: 64-bit ids looked up in 32-bit entries */
#define VERIF_TKEYINTERNAL_MAX UINT32_MAX
struct kv_pair { TKeyInternal key; TValueInternal value; };
typedef struct kv_pair kv_pair;
struct vvec_kv { const kv_pair* data; size_t size; };
struct flat_map { struct vvec_kv m_map; };
struct kvrange { const kv_pair* first; const kv_pair* second; };
size_t ghost_lo, ghost_hi, ghost_g;
/* std::equal_range with the by-key comparison (C++ standard; the vector is sorted by key after sort_unique): the positions whose key equals the probe's key - stated for the observed position */
struct kvrange verif_equal_range_by_key(const struct vvec_kv* v, kv_pair probe)
  __CPROVER_requires(__CPROVER_r_ok(v, sizeof(*v)) && ghost_lo <= ghost_hi && ghost_hi <= v->size && (ghost_g >= v->size || ((ghost_lo <= ghost_g && ghost_g < ghost_hi) == (v->data[ghost_g].key == probe.key))))
  __CPROVER_assigns()
  __CPROVER_ensures(__CPROVER_pointer_equals(__CPROVER_return_value.first, v->data + ghost_lo) && __CPROVER_pointer_equals(__CPROVER_return_value.second, v->data + ghost_hi));
'''
def fm_prelude(repo):
    src = cx.preprocess(cx.strip_comments(open(repo + '/' + RMAP).read()))
    # kv_pair{key} is the constructor `explicit kv_pair(const key_type key_id) : key(static_cast<TKeyInternal>(key_id)), value()`: inlined by the rewrite below - checked here
    if not re.search(r'explicit kv_pair\(const key_type key_id\) :\s*key\(static_cast<TKeyInternal>\(key_id\)\),\s*value\(\) \{\s*\}', src):
        raise ExtractError('flat_map::kv_pair(key) constructor changed')
    return FM_PRELUDE


U_fmget = Unit(RMAP, 'get', cls='flat_map', selftype='const struct flat_map', ret='struct kvrange', params=['const key_type key'],
               pre=[(r'std::equal_range\(m_map\.begin\(\), m_map\.end\(\), kv_pair\{key\}, \[\]\(const kv_pair& lhs, const kv_pair& rhs\) \{\s*return lhs\.key < rhs\.key;\s*\}\)', 'verif_equal_range_by_key(&m_map, ((kv_pair){(TKeyInternal)(key), 0}))'),
                    (r'std::make_pair\(m_map\.cend\(\), m_map\.cend\(\)\)', '((struct kvrange){m_map.data + m_map.size, m_map.data + m_map.size})', '?')])
PIPELINES.append(Pipeline('U6_flat_map_get', units=[U_fmget], prelude=fm_prelude, contracts={'flat_map_get': [
    ('pre:a sorted vector (sort_unique has run), observed at an arbitrary position; the equal range of the truncated key is given by ghosts', 'requires',
     '__CPROVER_is_fresh(self, sizeof(*self)) && self->m_map.size <= 1000000 && __CPROVER_is_fresh(self->m_map.data, (self->m_map.size + 1) * sizeof(kv_pair)) && ghost_lo <= ghost_hi && ghost_hi <= self->m_map.size && '
     '(ghost_g >= self->m_map.size || ((ghost_lo <= ghost_g && ghost_g < ghost_hi) == (self->m_map.data[ghost_g].key == (TKeyInternal)key)))'),
    ('post:the range returned holds exactly the entries recorded for this id - an id that does not fit the 32-bit entries has none (no hits on the truncated id)', 'ensures',
     'ghost_g >= self->m_map.size || ((__CPROVER_return_value.first <= self->m_map.data + ghost_g && self->m_map.data + ghost_g < __CPROVER_return_value.second) == ((key_type)self->m_map.data[ghost_g].key == key))'),
    ('post:a range inside the vector', 'ensures', '__CPROVER_same_object(__CPROVER_return_value.first, self->m_map.data) && __CPROVER_same_object(__CPROVER_return_value.second, self->m_map.data) && __CPROVER_return_value.first <= __CPROVER_return_value.second'),
    ('frame', 'assigns', '')]}, replace=['verif_equal_range_by_key'], enforce='flat_map_get',
    harness='void harness(void) { const struct flat_map* m; key_type k; flat_map_get(m, k); __CPROVER_assert(0, "canary"); }', noflags=['--conversion-check'],
    replay=('c15_idset', lambda cex, o: ['relmap']), note='the small index of RelationsMapIndex (uint64 ids, uint32 entries); relative to the std::equal_range contract'))

TRUSTED = ['std::vector<std::unique_ptr<unsigned char[]>> modelled as presence flags + flat byte array (read-only units)', 'std::vector<size_t> model']
ASSUMPTIONS = ['id set storage of at most 2^30 bytes per set in the model (object-size bound of CBMC; no loop bound depends on it)']
NOT_DECIDED = ['relation maps beyond flat_map::get (sort_unique, the 32/64-bit choice of the stash, flip)', 'space reclamation by garbage collection (Buffer::purge_removed)', 'IdSetSmall']
LEVEL_TEXT = ('Proof for the dense id set (32- and 64-bit ids, every chunk size 2^1..2^22 at once, chunk_bits symbolic): the id -> (chunk, byte, bit) map is injective and '
              'invertible; get() equals the abstract membership; last() covers every id whose chunk exists; the iterator step next() - unbounded loop contract over '
              'arbitrary bitmap contents - never skips a member, stops only on a member or at the end, and terminates; check_and_set/unset, relative to get_element returning the byte of the id, set/clear exactly the bit of the id, '
              'leave the seven neighbours in the byte and everything else untouched (frame), keep the element count and report whether the id was new. Item stash: add_item returns a handle whose '
              'index entry is the offset at which the item was stored whether or not the automatic garbage collection runs inside the call; remove_item invalidates '
              'exactly that index entry (sentinel) and marks the item; the compaction fix-up rewrites exactly the first matching entry and leaves all others alone '
              '(unbounded loop contract). Relation maps: flat_map::get of the 32-bit index returns, relative to the std::equal_range contract, exactly the entries recorded for the id looked up - none for an id that does not fit 32 bits.')
LEVEL_NOTE = ('Trusted: CBMC, extraction rules; the storage models (vector of chunk pointers as presence flags + flat array; std::vector<size_t> as array+size with an '
              'assumed push_back contract); Buffer operations used by ItemStash are assumed contracts here (Buffer itself: C04). Not decided: the body of get_element '
              '(chunk vector resize and allocation; assumed contract), std::sort/std::equal_range themselves, the other relation map operations, whole-history equivalence, reclamation of space by purge_removed.')
