"""C16 - object orderings are strict weak orders; the order checker agrees.

All units are loop-free, so every pipeline is a complete proof over the full
input domain (all 2^16 types, all ids > INT64_MIN, all versions/timestamps)."""
from cv import Pipeline, Unit
import cx
import os

PROPERTY = 'C16'
LEVEL = 'proof'

OBJ = 'include/osmium/osm/object.hpp'
CMP = 'include/osmium/osm/object_comparisons.hpp'
TS = 'include/osmium/osm/timestamp.hpp'
ITEM = 'include/osmium/memory/item.hpp'
CHK = 'include/osmium/handler/check_order.hpp'


def prelude(repo):
    return '''
typedef int64_t object_id_type; typedef uint64_t unsigned_object_id_type;
typedef uint32_t object_version_type; typedef uint32_t user_id_type; typedef uint32_t changeset_id_type;
typedef uint32_t item_size_type; typedef uint16_t item_type;   /* enum class item_type : uint16_t */
#define EXC_out_of_order_error (0x02000000 | EXC_runtime_error)
''' + cx.members_struct(repo, [(TS, 'Timestamp')], 'Timestamp') + 'typedef struct Timestamp Timestamp;\n' \
        + cx.members_struct(repo, [(ITEM, 'Item'), (OBJ, 'OSMObject')], 'OSMObject') \
        + 'typedef struct OSMObject OSMObject; typedef struct OSMObject Node; typedef struct OSMObject Way; typedef struct OSMObject Relation;\n' \
        + cx.members_struct(repo, [(CHK, 'CheckOrder')], 'CheckOrder') + SPEC


# the specification, written from the documentation sentence
# "0 first, then negative ids, then positive ids, both ordered by their absolute values"
SPEC = open(os.path.join(os.path.dirname(os.path.abspath(__file__)), '..', 'stubs', 'c16_spec.h')).read()


OBJS = {'lhs': 'OSMObject', 'rhs': 'OSMObject'}

# accessors, extracted from the real classes
U_type = Unit(ITEM, 'type', cls='Item', cname='OSMObject_type', selftype='const struct OSMObject')
U_id = Unit(OBJ, 'id', cls='OSMObject', selftype='const struct OSMObject')
U_posid = Unit(OBJ, 'positive_id', cls='OSMObject', selftype='const struct OSMObject')
U_version = Unit(OBJ, 'version', cls='OSMObject', selftype='const struct OSMObject', sig=r'version\(\) const')
U_deleted = Unit(OBJ, 'deleted', cls='OSMObject', selftype='const struct OSMObject')
U_visible = Unit(OBJ, 'visible', cls='OSMObject', selftype='const struct OSMObject')
U_timestamp = Unit(OBJ, 'timestamp', cls='OSMObject', selftype='const struct OSMObject', sig=r'timestamp\(\) const',
                   ret='Timestamp')
U_ts_valid = Unit(TS, 'valid', cls='Timestamp', selftype='const struct Timestamp')
U_ts_lt = Unit(TS, 'operator<', cname='Timestamp_lt', sig=r'const Timestamp& lhs',
               post=[(r'\(\(uint32_t\)\(lhs\)\)', 'lhs.m_timestamp'), (r'\(\(uint32_t\)\(rhs\)\)', 'rhs.m_timestamp')],
               params=['Timestamp lhs', 'Timestamp rhs'])
ACCESSORS = [U_type, U_id, U_posid, U_version, U_deleted, U_visible, U_timestamp, U_ts_valid, U_ts_lt]

TS_RULES = [
    (r'(?<![\w.>])(\w+)\.timestamp\(\)\.valid\(\)', r'Timestamp_valid_v(OSMObject_timestamp(&\1))'),
    (r'osmium::Timestamp\(\)', r'VERIF_TS0'),
]
TS_HELP = '''
static const Timestamp VERIF_TS0 = {0};
bool Timestamp_valid_v(Timestamp t) { return Timestamp_valid(&t); }
'''

U_id_order = Unit(CMP, 'operator()', cls='id_order', cname='id_order_call', method=False)
U_obj_lt = Unit(OBJ, 'operator<', cname='OSMObject_lt', sig=r'const OSMObject& lhs', objs=OBJS,
                pre=TS_RULES, post=[cx.lex_lt({4: 'Timestamp_lt'})])
U_obj_eq = Unit(OBJ, 'operator==', cname='OSMObject_eq', sig=r'const OSMObject& lhs', objs=OBJS)
U_nots = Unit(CMP, 'operator()', cls='object_order_type_id_version_without_timestamp', cname='order_nots_call', method=False,
              sig=r'const osmium::OSMObject& lhs', objs=OBJS, post=[cx.lex_lt()])
U_rev = Unit(CMP, 'operator()', cls='object_order_type_id_reverse_version', cname='order_rev_call', method=False,
             sig=r'const osmium::OSMObject& lhs', objs=OBJS, pre=TS_RULES, post=[cx.lex_lt({4: 'Timestamp_lt'})])
U_eq_tiv = Unit(CMP, 'operator()', cls='object_equal_type_id_version', cname='equal_tiv_call', method=False,
                sig=r'const osmium::OSMObject& lhs', objs=OBJS, post=[(r'\(\*lhs\) == \(\*rhs\)', 'OSMObject_eq(lhs, rhs)')])

FRAME = ('frame', 'assigns', '')


def cmp_contract(spec):
    return [('pre:valid', 'requires', '__CPROVER_is_fresh(lhs, sizeof(*lhs)) && __CPROVER_is_fresh(rhs, sizeof(*rhs)) && OBJ_OK(lhs) && OBJ_OK(rhs)'),
            ('post:equals-documented-order', 'ensures', '__CPROVER_return_value == (%s)' % spec), FRAME]


HARNESS_CMP = '''
void harness(void) { OSMObject *a, *b; bool r = %s(a, b); __CPROVER_assert(0, "canary"); }
'''
# comparing an object with itself (aliasing) is a separate entry: is_fresh forces distinct objects above
HARNESS_CMP_ALIAS = '''
void harness(void) { OSMObject a; __CPROVER_assume(OBJ_OK(&a)); bool r = %s(&a, &a); __CPROVER_assert(r == (%s), "post:self-comparison"); __CPROVER_assert(0, "canary"); }
'''


def cmp_unit(name, unit, spec, helpers=ACCESSORS):
    return [
        Pipeline(name, units=helpers + [unit], prelude=lambda repo: prelude(repo), contracts={unit.cname: cmp_contract(spec)},
                 harness=HARNESS_CMP % unit.cname, enforce=unit.cname, replay=('c16_order', cex_objs(unit.cname))),
        Pipeline(name + '_self', units=helpers + [unit], prelude=lambda repo: prelude(repo),
                 harness=HARNESS_CMP_ALIAS % (unit.cname, '0' if 'eq' not in unit.cname else '1'), replay=None),
    ]


def cex_objs(fn):
    def f(cex, o):
        argv = [fn]
        for obj in ('lhs', 'rhs'):
            t = cex.pointer_target(obj)
            argv.append(','.join(str(cex.field(t, fld)) for fld in ('m_type', 'm_id', 'm_version', 'm_timestamp.m_timestamp', 'm_deleted')))
        return argv
    return f


def cex_history(kind):
    def f(cex, o):
        s = cex.pointer_target('self')
        obj = cex.pointer_target(kind)
        h = ['history']
        if cex.field(s, 'm_has_node'):
            h.append('n:%d' % cex.field(s, 'm_max_node_id'))
        if cex.field(s, 'm_has_way'):
            h.append('w:%d' % cex.field(s, 'm_max_way_id'))
        if cex.field(s, 'm_has_relation'):
            h.append('r:%d' % cex.field(s, 'm_max_relation_id'))
        h.append('%s:%d' % (kind[0], cex.field(obj, 'm_id')))
        return h
    return f


PIPELINES = []
PIPELINES += [Pipeline('U1_id_order', units=[U_id_order], prelude=lambda repo: prelude(repo),
                       contracts={'id_order_call': [
                           ('pre:domain', 'requires', 'lhs > INT64_MIN && rhs > INT64_MIN'),
                           ('post:equals-documented-order', 'ensures', '__CPROVER_return_value == SPEC_ID_LT(lhs, rhs)'), FRAME]},
                       harness='void harness(void) { object_id_type a, b; bool r = id_order_call(a, b); __CPROVER_assert(0, "canary"); }',
                       enforce='id_order_call', replay=('c16_order', lambda cex, o: ['id_order', cex.first('a', 0), cex.first('b', 0)]))]
PIPELINES += cmp_unit('U2_object_less', U_obj_lt, 'SPEC_LT(lhs, rhs)', ACCESSORS + [])
PIPELINES += cmp_unit('U2_object_equal', U_obj_eq, 'SPEC_EQ(lhs, rhs)')
PIPELINES += cmp_unit('U3_order_without_timestamp', U_nots, 'SPEC_LT_NOTS(lhs, rhs)')
PIPELINES += cmp_unit('U4_order_reverse_version', U_rev, 'SPEC_LT_REV(lhs, rhs)')
for p in PIPELINES:
    if p.name.startswith(('U2_object_less', 'U4_')):
        p.prelude = (lambda repo: prelude(repo) + '\n/*TSHELP*/')
# Timestamp helper must come after the Timestamp_valid accessor: put it in a tiny pseudo position by
# appending to the harness of those pipelines is too late (used inside the unit) - so declare it up front.
TS_DECL = 'static const Timestamp VERIF_TS0 = {0};\nbool Timestamp_valid(const struct Timestamp* self);\nbool Timestamp_valid_v(Timestamp t) { return Timestamp_valid(&t); }\n'
for p in PIPELINES:
    if p.name.startswith(('U2_object_less', 'U4_')):
        p.prelude = (lambda repo: prelude(repo) + TS_DECL)

# ---- lemmas over the specification: strict weak order axioms, agreement, equality ----
AXIOMS = '''
void harness(void) {
  OSMObject A, B, C; const OSMObject *a = &A, *b = &B, *c = &C;
  __CPROVER_assume(OBJ_OK(a) && OBJ_OK(b) && OBJ_OK(c));
  /* property precondition: timestamps are all set, or ignored (all unset) */
  bool allset = A.m_timestamp.m_timestamp && B.m_timestamp.m_timestamp && C.m_timestamp.m_timestamp;
  bool noneset = !A.m_timestamp.m_timestamp && !B.m_timestamp.m_timestamp && !C.m_timestamp.m_timestamp;
  __CPROVER_assume(allset || noneset);
#define LT(x, y) %(LT)s
  __CPROVER_assert(!LT(a, a), "L1 irreflexive");
  __CPROVER_assert(!(LT(a, b) && LT(b, a)), "L2 asymmetric");
  __CPROVER_assert(!(LT(a, b) && LT(b, c)) || LT(a, c), "L3 transitive");
  __CPROVER_assert(!(!LT(a, b) && !LT(b, a) && !LT(b, c) && !LT(c, b)) || (!LT(a, c) && !LT(c, a)), "L4 incomparability transitive");
  __CPROVER_assert(!SPEC_EQ(a, b) || %(EQINC)s, "L5 equal objects are incomparable (up to timestamp/visibility)");
  __CPROVER_assert(!(LT(a, b) && !SPEC_EQ(a, b) && (a->m_type != b->m_type || a->m_id != b->m_id)) || SPEC_LT_NOTS(a, b), "L5 orders agree on (type,id)");
  __CPROVER_assert(0, "canary");
}
'''
for nm, lt, eqinc in (('spec_lt', 'SPEC_LT(x, y)', '(TSV(a,b) != TSV(b,a) || (!LT(a, b) && !LT(b, a)))'),
                      ('spec_lt_nots', 'SPEC_LT_NOTS(x, y)', '(!LT(a, b) && !LT(b, a))'),
                      ('spec_lt_rev', 'SPEC_LT_REV(x, y)', '(TSV(a,b) != TSV(b,a) || A.m_deleted != B.m_deleted || (!LT(a, b) && !LT(b, a)))')):
    PIPELINES.append(Pipeline('L_axioms_' + nm, prelude=lambda repo: prelude(repo), harness=AXIOMS % dict(LT=lt, EQINC=eqinc)))

PIPELINES.append(Pipeline('L_id_order_axioms', prelude=lambda repo: prelude(repo), harness='''
void harness(void) {
  object_id_type a, b, c; __CPROVER_assume(a > INT64_MIN && b > INT64_MIN && c > INT64_MIN);
#define LT(x, y) SPEC_ID_LT(x, y)
  __CPROVER_assert(!LT(a, a), "irreflexive");
  __CPROVER_assert(!(LT(a, b) && LT(b, a)), "asymmetric");
  __CPROVER_assert(!(LT(a, b) && LT(b, c)) || LT(a, c), "transitive");
  __CPROVER_assert(LT(a, b) || LT(b, a) || a == b, "total on distinct ids");
  __CPROVER_assert(0, "canary");
}'''))

# ---- CheckOrder: accepts iff strictly ascending under the same id rule ----
CO_OBJS = {'node': 'OSMObject', 'way': 'OSMObject', 'relation': 'OSMObject'}


def co_contract(kind, later_seen, has, mx, arg):
    return [
        ('pre', 'requires', 'verif_exc == 0 && __CPROVER_is_fresh(self, sizeof(*self)) && __CPROVER_is_fresh(%s, sizeof(*%s)) && %s->m_id > INT64_MIN && self->%s > INT64_MIN' % (arg, arg, arg, mx)),
        ('post:accept-iff-ascending', 'ensures',
         '(verif_exc == 0) == (!(%s) && (!__CPROVER_old(self->%s) || SPEC_ID_LT(__CPROVER_old(self->%s), %s->m_id)))' % (later_seen, has, mx, arg)),
        ('post:reject-class', 'ensures', 'verif_exc == 0 || verif_exc == EXC_out_of_order_error'),
        ('post:state', 'ensures', 'verif_exc != 0 || (self->%s && self->%s == %s->m_id)' % (has, mx, arg)),
        ('post:unchanged-on-reject', 'ensures', 'verif_exc == 0 || (self->%s == __CPROVER_old(self->%s) && self->%s == __CPROVER_old(self->%s))' % (has, has, mx, mx)),
        ('frame', 'assigns', 'verif_exc, self->%s, self->%s' % (has, mx)),
    ]


for kind, later, has, mx in (('node', 'self->m_has_way || self->m_has_relation', 'm_has_node', 'm_max_node_id'),
                             ('way', 'self->m_has_relation', 'm_has_way', 'm_max_way_id'),
                             ('relation', '0', 'm_has_relation', 'm_max_relation_id')):
    u = Unit(CHK, kind, cls='CheckOrder', objs=CO_OBJS)
    PIPELINES.append(Pipeline('U6_CheckOrder_' + kind, units=[U_id, U_id_order, u], prelude=lambda repo: prelude(repo),
                              contracts={u.cname: co_contract(kind, later, has, mx, kind),
                                         'id_order_call': [('post', 'ensures', '__CPROVER_return_value == SPEC_ID_LT(lhs, rhs)'), FRAME]},
                              replace=['id_order_call'],
                              harness='void harness(void) { struct CheckOrder* s; OSMObject* o; CheckOrder_%s(s, o); __CPROVER_assert(0, "canary"); }' % kind,
                              enforce=u.cname, replay=('c16_order', cex_history(kind))))

# L7: a stream sorted by operator< with distinct (type,id) is accepted - adjacent pair step, over the contracts
PIPELINES.append(Pipeline('L7_sorted_stream_accepted', prelude=lambda repo: prelude(repo), harness='''
/* item_type values of node, way, relation (osm/item_type.hpp) */
void harness(void) {
  OSMObject A, B; const OSMObject *a = &A, *b = &B;
  __CPROVER_assume(OBJ_OK(a) && OBJ_OK(b));
  __CPROVER_assume(!SPEC_LT(b, a));                                   /* sorted: b not before a */
  __CPROVER_assume(a->m_type != b->m_type || a->m_id != b->m_id);     /* distinct objects */
  /* then (type, id) ascends strictly: exactly the acceptance condition in the CheckOrder contracts */
  __CPROVER_assert(a->m_type < b->m_type || (a->m_type == b->m_type && SPEC_ID_LT(a->m_id, b->m_id)), "L7 adjacent pair strictly ascending by type then id");
  __CPROVER_assert(0, "canary");
}'''))

TRUSTED = ['std::tuple operator< is lexicographic (C++ standard) - the const_tie rule expands it',
           'std::stable_sort/std::sort used by ObjectPointerCollection sort by the given comparator (C++ standard)',
           'item_type enumerators are ordered node < way < relation (read from osm/item_type.hpp, not re-proved)']
ASSUMPTIONS = ['ids are > INT64_MIN (std::abs(INT64_MIN) is undefined; outside the id domain)']
NOT_DECIDED = ['ObjectPointerCollection::sort as an execution (std::sort trusted)', 'operator()(const OSMObject*, ...) pointer overloads (forwarders)']

LEVEL_TEXT = ('Proof, complete over the input domain: every comparator (id_order, operator< and operator== on OSMObject, '
              'object_order_type_id_version_without_timestamp, object_order_type_id_reverse_version) is extracted from the headers and shown '
              'equal to a specification order written from the documentation, for all pairs of objects (all types, ids > INT64_MIN, versions, '
              'timestamps, visibility); the strict-weak-order axioms, agreement of the orders and consistency with equality are lemmas over '
              'that specification for all triples; CheckOrder::node/way/relation are shown to accept exactly the strictly ascending '
              'continuation of any state. All units are loop-free, so no bound is involved.')
LEVEL_NOTE = ('Trusted: CBMC and the extraction rules (cx.py); std::tuple lexicographic operator< (expanded by rule), std::sort/stable_sort '
              'sorting by the comparator; ids of INT64_MIN excluded (std::abs undefined there). Not decided: ObjectPointerCollection::sort as an execution.')
