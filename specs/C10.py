"""C10 - assembled areas are valid multipolygons: only geometric decision kernels of the assembler are within reach."""
from cv import Pipeline, Unit
import cx

PROPERTY = 'C10'
LEVEL = 'proof'
BA = 'include/osmium/area/detail/basic_assembler.hpp'
NRS = 'include/osmium/area/detail/node_ref_segment.hpp'
PIPELINES = []

PRELUDE = '''
struct Loc { int32_t m_x; int32_t m_y; };
#define LX(l) ((l).m_x)
'''
# the x-range test of the vertical ray cast in find_enclosing_ring(), extracted as an expression block
U_xr = Unit(BA, 'find_enclosing_ring', cls='BasicAssembler', cname='ray_hits_x_range', method=False, ret='bool', params=['struct Loc a', 'struct Loc b', 'struct Loc location'],
            block=(r'\} else if \(a\.x\(\) ', r'\) \{\s*if \(debug\(\)\) \{\s*std::cerr << "        Is in x range'),
            pre=[(r'\} else if \((.*)\}$', r'return (\1); }'), (r'(\w+)\.x\(\)', r'LX(\1)')])
PIPELINES.append(Pipeline('L_ray_cast_counts_each_vertex_once', units=[U_xr], prelude=PRELUDE, harness='''
void harness(void) {
  /* two consecutive segments of a ring boundary, normalised as NodeRefSegment does (first <= second): p -> v and v -> q with p.x < v.x < q.x (an x-monotone chain through vertex v) */
  struct Loc p, v, q, ray; __CPROVER_assume(p.m_x < v.m_x && v.m_x < q.m_x);
  ray.m_x = v.m_x;                                  /* the vertical ray passes exactly through the vertex */
  int hits = (ray_hits_x_range(p, v, ray) ? 1 : 0) + (ray_hits_x_range(v, q, ray) ? 1 : 0);
  __CPROVER_assert(hits == 1, "L a vertex in the middle of an x-monotone chain that lies on the ray is counted exactly once (even-odd rule stays correct)");
  /* a ray strictly inside the x-range of one segment is counted for that segment only */
  struct Loc r2; __CPROVER_assume(p.m_x < r2.m_x && r2.m_x < v.m_x);
  __CPROVER_assert(ray_hits_x_range(p, v, r2) && !ray_hits_x_range(v, q, r2), "L interior of the x-range is counted, the neighbour is not");
  /* a segment entirely to the left or right of the ray is never counted; a vertical segment (first.x == second.x) neither */
  struct Loc r3; __CPROVER_assume(r3.m_x < p.m_x || r3.m_x > v.m_x);
  __CPROVER_assert(!ray_hits_x_range(p, v, r3), "L outside the x-range is not counted");
  struct Loc w = v; __CPROVER_assert(!ray_hits_x_range(v, w, ray), "L vertical segments are not counted by the x-range rule");
  /* the ray starts AT a vertex of another ring (rings touching in the query location v): the segment v -> q that starts there is judged by the dedicated same-start rule of
     find_enclosing_ring (cross product with the direction of the new ring); the segment p -> v that ends there has cross product 0 and would be counted as "below" by z >= 0,
     i.e. the touching ring would be counted once too often - the x-range rule must leave it out */
  __CPROVER_assert(!ray_hits_x_range(p, v, v), "L a segment that ends exactly in the query location is left to the same-start rule (touching rings are not counted twice)");
  __CPROVER_assert(0, "canary"); }''', replay=('c10_area', lambda cex, o: ['search']),
                              note='expression block extracted from find_enclosing_ring; all int32 coordinates'))

# ---- segment equality (duplicate-segment cancellation rests on it): two segments are equal exactly when their end point LOCATIONS are ------------------
NR = 'include/osmium/osm/node_ref.hpp'
SEG_PRELUDE = '''
struct Loc { int32_t m_x; int32_t m_y; };
struct NodeRef { int64_t m_ref; struct Loc m_location; };
struct NodeRefSegment { struct NodeRef m_first; struct NodeRef m_second; };
typedef struct NodeRef NodeRef; typedef struct NodeRefSegment NodeRefSegment;
#define LOC_EQ(a, b) ((a).m_x == (b).m_x && (a).m_y == (b).m_y)
'''
U_nreq = Unit(NR, 'operator==', cname='NodeRef_eq', sig=r'const NodeRef& lhs, const NodeRef& rhs', params=['const NodeRef* lhs', 'const NodeRef* rhs'], ret='bool',
              pre=[(r'lhs\.ref\(\) == rhs\.ref\(\)', 'lhs->m_ref == rhs->m_ref')], optional=True)
U_segeq = Unit(NRS, 'operator==', cname='NodeRefSegment_eq', sig=r'const NodeRefSegment& lhs, const NodeRefSegment& rhs', params=['const NodeRefSegment* lhs', 'const NodeRefSegment* rhs'], ret='bool',
               pre=[(r'(\w+)\.(first|second)\(\)\.location\(\) == (\w+)\.(first|second)\(\)\.location\(\)', r'LOC_EQ(\1->m_\2.m_location, \3->m_\4.m_location)', '?'),
                    (r'(\w+)\.(first|second)\(\) == (\w+)\.(first|second)\(\)', r'NodeRef_eq(&\1->m_\2, &\3->m_\4)', '?')])
PIPELINES.append(Pipeline('L_segment_equality_is_by_location', units=[U_nreq, U_segeq], prelude=SEG_PRELUDE, harness='''
void harness(void) {
  NodeRefSegment a, b;
  const _Bool eq = NodeRefSegment_eq(&a, &b);
  __CPROVER_assert(eq == (LOC_EQ(a.m_first.m_location, b.m_first.m_location) && LOC_EQ(a.m_second.m_location, b.m_second.m_location)),
                   "L two segments are equal exactly when both end points are at the same locations - whatever the node ids (coinciding segments of different nodes are duplicates and must cancel)");
  __CPROVER_assert(0, "canary"); }''', replay=('c10_area', lambda cex, o: ['search']), note='all node ids and coordinates; loop-free, complete'))

TRUSTED = []
ASSUMPTIONS = []
NOT_DECIDED = ['validity and coverage of assembled areas as a whole', 'segment intersection (calculate_intersection), segment ordering (operator<), ring building, inner/outer assignment beyond the x-range rule', 'independence of member order and way direction']
LEVEL_TEXT = ('Proof of two decision kernels only: segment equality, on which the cancellation of duplicate segments rests, is equality of the end point locations whatever the node ids; the x-range rule of the vertical ray cast that decides inner/outer nesting (find_enclosing_ring) counts a boundary vertex lying on the ray exactly once, '
              'counts the interior of the x-range of a segment, ignores segments beside the ray and vertical segments, and leaves a segment that ends in the query location itself to the same-start rule (rings touching there are not counted twice) - for all int32 coordinates. The property as a whole (valid multipolygons, exact coverage) '
              'is not decided by this technique.')
LEVEL_NOTE = ('Trusted: CBMC, extraction rules (the condition is extracted as an expression block). Everything else about area assembly is outside what function contracts could reach in this round.')
