"""C03 - malformed or hostile input never causes memory errors, aborts or hangs (layers that function contracts reach)."""
from cv import Pipeline, Unit
from specs.common import *
import cx, copy
import specs.C13 as C13
import specs.C14 as C14
import specs.C02 as C02

PROPERTY = 'C03'
LEVEL = 'proof'
OOB = 'include/osmium/builder/osm_object_builder.hpp'
OPL = 'include/osmium/io/detail/opl_parser_functions.hpp'
PIPELINES = []

# ---- layer 1: parsers are memory-safe and terminate on arbitrary bytes (units shared with C13, C14, C02; run again here) -----------------------------
def borrow(mod, names):
    out = []
    for p in mod.PIPELINES:
        if p.name in names:
            q = copy.copy(p)
            q.name = mod.PROPERTY + '_' + p.name
            out.append(q)
    return out


# (the coordinate parser's memory safety, U1_coordinate_parser_safety, is decided under C13 and - again - inside U1_coordinate_parser_value; it costs half a CPU hour and is not re-run here)
PIPELINES += borrow(C13, ['U6_opl_parse_int_i64', 'U6_opl_parse_int_u32', 'U6_opl_parse_int_i32'])
PIPELINES += borrow(C14, ['U2_next_utf8_codepoint', 'U5_opl_parse_escaped_safety', 'U6_opl_parse_string_safety'])
PIPELINES += borrow(C02, ['U1_blob_header_size_network_byte_order', 'U5_ReferenceTable_get', 'U5_ReferenceTable_add', 'U5_ReferenceTable_add_content'])

# small OPL scanning helpers on arbitrary NUL-terminated input
GHOST = 'size_t ghost_n;\n'
U_space = Unit(OPL, 'opl_parse_space', witness=[('(*s)', 'ghost_n + 1', 16)])
U_nonempty = Unit(OPL, 'opl_non_empty')
U_skip = Unit(OPL, 'opl_skip_section')
PIPELINES.append(Pipeline('U_opl_parse_space', units=[U_space], prelude=GHOST, contracts={'opl_parse_space': [
    ('pre:nul-terminated-string', 'requires', STR_PP_REQUIRES % dict(pp='s')),
    ('post:exception-class', 'ensures', 'verif_exc == 0 || verif_exc == EXC_opl_error'),
    ('post:stays inside the string, consumes at least one blank, stops at a non-blank', 'ensures',
     '__CPROVER_same_object(*s, __CPROVER_old(*s)) && __CPROVER_POINTER_OFFSET(*s) <= ghost_n && (verif_exc != 0 || (__CPROVER_POINTER_OFFSET(*s) >= 1 && **s != \' \' && **s != \'\\t\'))'),
    ('frame', 'assigns', '*s, verif_exc')]},
    loops={'opl_parse_space': [['__CPROVER_assigns(*s)',
                                '__CPROVER_loop_invariant(__CPROVER_same_object(*s, __CPROVER_loop_entry(*s)) && __CPROVER_POINTER_OFFSET(*s) < ghost_n && ((*s)[0] == \' \' || (*s)[0] == \'\\t\'))',
                                '__CPROVER_decreases(ghost_n - __CPROVER_POINTER_OFFSET(*s))']]},
    enforce='opl_parse_space', harness='void harness(void) { const char** d; opl_parse_space(d); __CPROVER_assert(verif_exc != 0, "canary:normal"); __CPROVER_assert(verif_exc == 0, "canary:throw"); }',
    canaries=['canary:normal', 'canary:throw'], replay=('c13_text', None)))
PIPELINES.append(Pipeline('U_opl_skip_section', units=[U_nonempty, U_skip], prelude=GHOST, contracts={'opl_skip_section': [
    ('pre:nul-terminated-string', 'requires', STR_PP_REQUIRES % dict(pp='s')),
    ('post:stays inside the string and stops at a blank or at the end', 'ensures',
     '__CPROVER_same_object(*s, __CPROVER_old(*s)) && __CPROVER_POINTER_OFFSET(*s) <= ghost_n && (**s == 0 || **s == \' \' || **s == \'\\t\') && __CPROVER_return_value == *s'),
    ('frame', 'assigns', '*s')]},
    loops={'opl_skip_section': [['__CPROVER_assigns(*s)',
                                 '__CPROVER_loop_invariant(__CPROVER_same_object(*s, __CPROVER_loop_entry(*s)) && __CPROVER_POINTER_OFFSET(*s) <= ghost_n)',
                                 '__CPROVER_decreases(ghost_n - __CPROVER_POINTER_OFFSET(*s))']]},
    enforce='opl_skip_section', harness='void harness(void) { const char** d; opl_skip_section(d); __CPROVER_assert(0, "canary"); }', replay=('c13_text', None)))

# ---- layer 2: builders reject what does not fit instead of truncating or aborting: user names ------------------------------------------------------
SETUSER = '''
typedef uint16_t string_size_type;
typedef struct vstr { const char* p; size_t n; } vstr;
enum { max_osm_string_length = 256 * 4 };
struct Builder { int dummy; };
size_t ghost_n; unsigned ghost_forwarded_len; int ghost_forwarded;
/* set_user(const char*, string_size_type): the length arrives as a 16-bit value (its own body: layout arithmetic, C04) */
struct Builder* Builder_set_user_n(struct Builder* self, const char* user, string_size_type length)
  __CPROVER_requires(verif_exc == 0) __CPROVER_assigns(ghost_forwarded_len, ghost_forwarded) __CPROVER_ensures(ghost_forwarded_len == length && ghost_forwarded == 1);
size_t verif_strlen(const char* s) __CPROVER_requires(__CPROVER_r_ok(s, ghost_n + 1) && s[ghost_n] == 0) __CPROVER_assigns() __CPROVER_ensures(__CPROVER_return_value <= ghost_n && s[__CPROVER_return_value] == 0);
'''
for cls, tag in (('OSMObjectBuilder', 'object'), ('ChangesetBuilder', 'changeset')):
    u_str = Unit(OOB, 'set_user', cls=cls, cname='Builder_set_user_string_' + tag, selftype='struct Builder', sig=r'const std::string& user', ret='void',
                 pre=[(r'user\.size\(\)', 'user.n'), (r'user\.data\(\)', 'user.p'), (r'return set_user\(', 'Builder_set_user_n(self, '), (r'osmium::max_osm_string_length', 'max_osm_string_length')])
    u_cstr = Unit(OOB, 'set_user', cls=cls, cname='Builder_set_user_cstr_' + tag, selftype='struct Builder', sig=r'set_user\(const char\* user\)', ret='void',
                  pre=[(r'std::strlen\(', 'verif_strlen('), (r'return set_user\(', 'Builder_set_user_n(self, '), (r'osmium::max_osm_string_length', 'max_osm_string_length')])
    for u, req, true_len, arg in ((u_str, '__CPROVER_is_fresh(user, sizeof(*user)) && user->n <= 200000', 'user->n', 'const vstr* u'),
                                  (u_cstr, 'ghost_n <= 200000 && __CPROVER_is_fresh(user, ghost_n + 1) && user[ghost_n] == 0', 'TRUE_LEN', 'const char* u')):
        post_len = ('verif_exc != 0 || (ghost_forwarded == 1 && ghost_forwarded_len == %s)' % true_len) if true_len != 'TRUE_LEN' else 'verif_exc != 0 || (ghost_forwarded == 1 && ghost_forwarded_len <= ghost_n && user[ghost_forwarded_len] == 0)'
        PIPELINES.append(Pipeline('U_' + u.cname, units=[u], prelude=SETUSER, contracts={u.cname: [
            ('pre:a user name of any length, as a parser may hand it over', 'requires', 'verif_exc == 0 && ghost_forwarded == 0 && __CPROVER_is_fresh(self, sizeof(*self)) && ' + req),
            ('post:a name that does not fit is rejected with length_error (no abort, no truncation)', 'ensures', 'verif_exc == 0 || verif_exc == EXC_length_error'),
            ('post:otherwise the full length is stored', 'ensures', post_len),
            ('frame', 'assigns', 'verif_exc, ghost_forwarded_len, ghost_forwarded')]},
            replace=['Builder_set_user_n', 'verif_strlen'], enforce=u.cname,
            harness='void harness(void) { struct Builder* b; %s; %s(b, u); __CPROVER_assert(verif_exc != 0, "canary:normal"); __CPROVER_assert(verif_exc == 0, "canary:throw"); }' % (arg, u.cname),
            canaries=['canary:normal', 'canary:throw'], replay=('c03_hostile', lambda cex, o: ['user']),
            note='asserts of the library are proof obligations: the debug build must not abort, the release build must not truncate'))

# ---- layer 2b: PBF tag strings reach the tag list only after the check for embedded zero bytes (finding F6) -------------------------------------
PBFDEC = 'include/osmium/io/detail/pbf_decoder.hpp'
TAGSTR = '''
typedef uint16_t string_size_type;
struct osm_string_len_type { const char* first; string_size_type second; };
typedef struct osm_string_len_type osm_string_len_type;
typedef int TagListBuilder; typedef int Builder; typedef int NodeBuilder; typedef int varint_range;
struct PBFPrimitiveBlockDecoder { int m_stringtable; };
size_t ghost_k;      /* ghost: an arbitrary position inside a string */
/* memchr (C standard): NULL exactly when no byte of the range equals c - stated for the observed position */
void* verif_memchr(const void* p, int c, size_t n) __CPROVER_requires(__CPROVER_r_ok(p, n)) __CPROVER_assigns()
  __CPROVER_ensures(__CPROVER_return_value != 0 || ghost_k >= n || ((const char*)p)[ghost_k] != (char)c);
/* TagListBuilder::add_tag(key, key_length, value, value_length): appends key, NUL, value, NUL. The tag list is a sequence of zero-terminated strings
   taken in pairs, so a zero byte inside a key or value shifts every following pair and lets the iteration run past the end of the list:
   the strings must be free of zero bytes */
void TagListBuilder_add_tag(TagListBuilder* b, const char* key, size_t key_length, const char* value, size_t value_length)
  __CPROVER_requires(verif_exc == 0 && __CPROVER_r_ok(key, key_length) && __CPROVER_r_ok(value, value_length) && (ghost_k >= key_length || key[ghost_k] != 0) && (ghost_k >= value_length || value[ghost_k] != 0))
  __CPROVER_assigns(verif_exc) __CPROVER_ensures(verif_exc == 0 || verif_exc == EXC_length_error || verif_exc == EXC_buffer_is_full);
/* the string table of the block: any entry (pointer into the block data + length); protozero ranges: any content */
osm_string_len_type ghost_e0, ghost_e1;   /* ghost: two arbitrary entries of the table (set up by the precondition of the unit) */
const osm_string_len_type* verif_stringtable_at(const int* table, uint32_t index) __CPROVER_requires(verif_exc == 0) __CPROVER_assigns(verif_exc)
  __CPROVER_ensures(verif_exc == EXC_out_of_range || (verif_exc == 0 && (__CPROVER_return_value == &ghost_e0 || __CPROVER_return_value == &ghost_e1)));
_Bool verif_range_empty(const varint_range* r) __CPROVER_requires(1) __CPROVER_assigns() __CPROVER_ensures(1);
uint32_t verif_range_next(varint_range* r) __CPROVER_requires(verif_exc == 0) __CPROVER_assigns(verif_exc) __CPROVER_ensures(verif_exc == 0 || verif_exc == EXC_pbf_error);
void verif_taglist_builder_open(void) __CPROVER_requires(1) __CPROVER_assigns() __CPROVER_ensures(1);
'''
STR_OK = lambda v: '__CPROVER_is_fresh(%s, sizeof(*%s)) && __CPROVER_is_fresh(%s->first, %s->second)' % (v, v, v, v)
U_pbf_addtag_opt = None
U_pbf_addtag = Unit(PBFDEC, 'add_tag', cls='PBFPrimitiveBlockDecoder', method=False, cname='pbf_add_tag', params=['TagListBuilder* builder', 'const osm_string_len_type* key_p', 'const osm_string_len_type* value_p'],
                    pre=[(r'std::memchr\(', 'verif_memchr('), (r'\bkey\.', 'key_p->'), (r'\bvalue\.', 'value_p->'), (r'builder\.add_tag\(', 'TagListBuilder_add_tag(builder, ')])
ADDTAG_CONTRACT = [('pre', 'requires', 'verif_exc == 0 && ' + STR_OK('key_p') + ' && ' + STR_OK('value_p')),
                   ('post:only strings without a zero byte are handed to the tag list builder; the others are refused with pbf_error', 'ensures',
                    'verif_exc == 0 || verif_exc == EXC_pbf_error || verif_exc == EXC_length_error || verif_exc == EXC_buffer_is_full'),
                   ('frame', 'assigns', 'verif_exc')]
PIPELINES.append(Pipeline('U_pbf_add_tag', units=[U_pbf_addtag], prelude=TAGSTR, contracts={'pbf_add_tag': ADDTAG_CONTRACT}, replace=['verif_memchr', 'TagListBuilder_add_tag'],
                          maythrow={'TagListBuilder_add_tag': True}, enforce='pbf_add_tag',
                          harness='void harness(void) { TagListBuilder* b; const osm_string_len_type *k, *v; pbf_add_tag(b, k, v); __CPROVER_assert(verif_exc != 0, "canary:normal"); __CPROVER_assert(verif_exc == 0, "canary:throw"); }',
                          canaries=['canary:normal', 'canary:throw'], replay=('c03_hostile', lambda cex, o: ['pbfnul']),
                          note='the obligation is the precondition of TagListBuilder::add_tag(ptr, len, ptr, len), observed at an arbitrary position of key and value'))
ADDTAG_CALLEE = [(l, k, t.replace('__CPROVER_is_fresh(', '__CPROVER_r_ok(') if k == 'requires' else t) for l, k, t in ADDTAG_CONTRACT]
TL_PRE = [(r'osmium::builder::TagListBuilder (\w+)\{\w+\};', r'TagListBuilder verif_tl = 0; TagListBuilder* \1 = &verif_tl; verif_taglist_builder_open();'),
          (r'const auto& (\w) = m_stringtable\.at\(([^;]*)\);', r'const uint32_t \1_idx = \2; const osm_string_len_type* \1 = verif_stringtable_at(&m_stringtable, \1_idx);'),
          (r'\b(keys|vals|tags)\.empty\(\)', r'verif_range_empty(\1)'), (r'\b(keys|vals|tags)\.next_u?int32\(\)', r'verif_range_next(\1)'),
          (r'\badd_tag\((\w+), k, v\);', r'pbf_add_tag(\1, k, v);', '?'),
          (r'\b\w+\.add_tag\(k\.first, k\.second, v\.first, v\.second\);', 'TagListBuilder_add_tag(builder_any, k->first, k->second, v->first, v->second);', '?')]
U_btl = Unit(PBFDEC, 'build_tag_list', cls='PBFPrimitiveBlockDecoder', params=['Builder* parent', 'varint_range* keys', 'varint_range* vals'], pre=TL_PRE)
U_btld = Unit(PBFDEC, 'build_tag_list_from_dense_nodes', cls='PBFPrimitiveBlockDecoder', params=['NodeBuilder* builder_nb', 'varint_range* tags'],
              pre=[(r'osmium::builder::TagListBuilder tl_builder\{builder\};', 'TagListBuilder verif_tl = 0; TagListBuilder* tl_builder = &verif_tl; verif_taglist_builder_open();')] + TL_PRE[1:])
import copy as _copy
U_pbf_addtag_opt = _copy.copy(U_pbf_addtag); U_pbf_addtag_opt.optional = True   # the callers are decided whether or not they go through the checking helper
TL_MT = {'verif_stringtable_at': False, 'verif_range_next': False, 'pbf_add_tag': True, 'TagListBuilder_add_tag': True}
for u, fn, args, decl in ((U_btl, 'build_tag_list', 'p, a, b', 'Builder* p; varint_range *a, *b;'), (U_btld, 'build_tag_list_from_dense_nodes', 'p, a', 'NodeBuilder* p; varint_range* a;')):
    cn = 'PBFPrimitiveBlockDecoder_' + fn
    PIPELINES.append(Pipeline('U_pbf_' + fn, units=[U_pbf_addtag_opt, u], prelude=TAGSTR + 'TagListBuilder* builder_any;\n', contracts={'pbf_add_tag': ADDTAG_CALLEE, cn: [
        ('pre:any two table entries', 'requires', 'verif_exc == 0 && __CPROVER_is_fresh(self, sizeof(*self)) && __CPROVER_is_fresh(ghost_e0.first, ghost_e0.second) && __CPROVER_is_fresh(ghost_e1.first, ghost_e1.second)'),
        ('post:whatever the string table holds, every key and value goes through the zero-byte check before it reaches the tag list', 'ensures',
         'verif_exc == 0 || verif_exc == EXC_pbf_error || verif_exc == EXC_out_of_range || verif_exc == EXC_length_error || verif_exc == EXC_buffer_is_full'),
        ('frame', 'assigns', 'verif_exc')]},
        loops={cn: [['__CPROVER_assigns(verif_exc)', '__CPROVER_loop_invariant(verif_exc == 0)']]},
        replace=['pbf_add_tag', 'TagListBuilder_add_tag', 'verif_stringtable_at', 'verif_range_empty', 'verif_range_next', 'verif_taglist_builder_open'], maythrow=TL_MT, enforce=cn,
        harness='void harness(void) { struct PBFPrimitiveBlockDecoder* d; %s %s(d, %s); __CPROVER_assert(verif_exc != 0, "canary:normal"); __CPROVER_assert(verif_exc == 0, "canary:throw"); }' % (decl, cn, args),
        canaries=['canary:normal', 'canary:throw'], replay=('c03_hostile', lambda cex, o: ['pbfnul']), object_bits=10, timeout=900,
        note='termination of the loop depends on the protozero range (not decided); the obligations are the preconditions of the calls inside it'))

# ---- layer 4: XML element handlers keep the builder protocol (typestate)
import specs.c03_xml as XMLSPEC
PIPELINES += XMLSPEC.pipelines(('c03_xml', lambda cex, o: ['xml']))

TRUSTED = ['expat, zlib, libbz2 internals']
ASSUMPTIONS = ['input strings shorter than 100000 / 200000 bytes in the models (object-size bound; loop contracts make the proofs independent of it)']
NOT_DECIDED = ['expat behaviour', 'attribute values inside the XML handlers (the lambdas are replaced by a havoc of their captures)', 
               'traversal of delivered objects (layout invariant)', 'pipeline-level hangs (threads)', 'allocation failure']
LEVEL_TEXT = ('Proof for the layers function contracts reach: (1) the text/binary scanning kernels - OPL integer/string/escape/space/section scanners (the coordinate parser: see C13), UTF-8 decoder, PBF blob header size, '
              'o5m table lookup - are memory-safe on every NUL-terminated string or byte range of any length, throw only documented exceptions and terminate (loop contracts with decreases); these units '
              'are shared with C13, C14 and C02 and re-run here. (2) the object and changeset builders reject user names that do not fit with length_error for every length a parser can hand over - no assert '
              'can fire, nothing is truncated. (2b) the PBF decoder hands tag keys and values to the tag list only after a check for embedded zero bytes (the tag list is a sequence of zero-terminated strings; both tag paths, dense and plain). (3) the XML element handlers (top_level_element, data_level_element, start_element with get_tag, end_element), extracted whole, keep the builder protocol '
              'for every element sequence expat can deliver and for every read_types setting: a typestate invariant over the context stack and the eight builder pointers (the shapes of the OSM XML grammar) is '
              'preserved by every handler; sub-builders are created only when no other one is open, destroyed before their parent, dereferenced only while they exist; commit happens with no builder open; '
              'no changeset comment is left unfinished at any handler boundary or on any exception path, so no builder assert can fire when the parser is destroyed.')
LEVEL_NOTE = ('Trusted: CBMC, extraction rules, strlen and std::string models. Assumed for layer 3: the typestate functions standing for unique_ptr<Builder> and the builder methods (their obligations are the asserts and the stack discipline of the builder classes), a 8-slot model of std::vector<context>, expat delivering matching end tags. Not decided: expat, zlib, libbz2, attribute values inside the XML handlers, '
              'traversal of delivered objects, anything spanning threads.')
