"""C03 - malformed or hostile input never causes memory errors, aborts or hangs (layers that function contracts reach)."""
from cv import Pipeline, Unit
from specs.common import *
import cx, copy
import specs.C13 as C13
import specs.C14 as C14
import specs.C02 as C02

PROPERTY = 'C03'
LEVEL = 'proof'
OOB = 'include/osmium/builder/osm_object_builder.hpp'
OPL = 'include/osmium/io/detail/opl_parser_functions.hpp'
PIPELINES = []

# ---- layer 1: parsers are memory-safe and terminate on arbitrary bytes (units shared with C13, C14, C02; run again here) -----------------------------
def borrow(mod, names):
    out = []
    for p in mod.PIPELINES:
        if p.name in names:
            q = copy.copy(p)
            q.name = mod.PROPERTY + '_' + p.name
            out.append(q)
    return out


PIPELINES += borrow(C13, ['U1_coordinate_parser_safety', 'U6_opl_parse_int_i64', 'U6_opl_parse_int_u32', 'U6_opl_parse_int_i32'])
PIPELINES += borrow(C14, ['U2_next_utf8_codepoint', 'U5_opl_parse_escaped_safety', 'U6_opl_parse_string_safety'])
PIPELINES += borrow(C02, ['U1_blob_header_size_network_byte_order', 'U5_ReferenceTable_get'])

# small OPL scanning helpers on arbitrary NUL-terminated input
GHOST = 'size_t ghost_n;\n'
U_space = Unit(OPL, 'opl_parse_space', witness=[('(*s)', 'ghost_n + 1', 16)])
U_nonempty = Unit(OPL, 'opl_non_empty')
U_skip = Unit(OPL, 'opl_skip_section')
PIPELINES.append(Pipeline('U_opl_parse_space', units=[U_space], prelude=GHOST, contracts={'opl_parse_space': [
    ('pre:nul-terminated-string', 'requires', STR_PP_REQUIRES % dict(pp='s')),
    ('post:exception-class', 'ensures', 'verif_exc == 0 || verif_exc == EXC_opl_error'),
    ('post:stays inside the string, consumes at least one blank, stops at a non-blank', 'ensures',
     '__CPROVER_same_object(*s, __CPROVER_old(*s)) && __CPROVER_POINTER_OFFSET(*s) <= ghost_n && (verif_exc != 0 || (__CPROVER_POINTER_OFFSET(*s) >= 1 && **s != \' \' && **s != \'\\t\'))'),
    ('frame', 'assigns', '*s, verif_exc')]},
    loops={'opl_parse_space': [['__CPROVER_assigns(*s)',
                                '__CPROVER_loop_invariant(__CPROVER_same_object(*s, __CPROVER_loop_entry(*s)) && __CPROVER_POINTER_OFFSET(*s) < ghost_n && ((*s)[0] == \' \' || (*s)[0] == \'\\t\'))',
                                '__CPROVER_decreases(ghost_n - __CPROVER_POINTER_OFFSET(*s))']]},
    enforce='opl_parse_space', harness='void harness(void) { const char** d; opl_parse_space(d); __CPROVER_assert(verif_exc != 0, "canary:normal"); __CPROVER_assert(verif_exc == 0, "canary:throw"); }',
    canaries=['canary:normal', 'canary:throw'], replay=('c13_text', None)))
PIPELINES.append(Pipeline('U_opl_skip_section', units=[U_nonempty, U_skip], prelude=GHOST, contracts={'opl_skip_section': [
    ('pre:nul-terminated-string', 'requires', STR_PP_REQUIRES % dict(pp='s')),
    ('post:stays inside the string and stops at a blank or at the end', 'ensures',
     '__CPROVER_same_object(*s, __CPROVER_old(*s)) && __CPROVER_POINTER_OFFSET(*s) <= ghost_n && (**s == 0 || **s == \' \' || **s == \'\\t\') && __CPROVER_return_value == *s'),
    ('frame', 'assigns', '*s')]},
    loops={'opl_skip_section': [['__CPROVER_assigns(*s)',
                                 '__CPROVER_loop_invariant(__CPROVER_same_object(*s, __CPROVER_loop_entry(*s)) && __CPROVER_POINTER_OFFSET(*s) <= ghost_n)',
                                 '__CPROVER_decreases(ghost_n - __CPROVER_POINTER_OFFSET(*s))']]},
    enforce='opl_skip_section', harness='void harness(void) { const char** d; opl_skip_section(d); __CPROVER_assert(0, "canary"); }', replay=('c13_text', None)))

# ---- layer 2: builders reject what does not fit instead of truncating or aborting: user names ------------------------------------------------------
SETUSER = '''
typedef uint16_t string_size_type;
typedef struct vstr { const char* p; size_t n; } vstr;
enum { max_osm_string_length = 256 * 4 };
struct Builder { int dummy; };
size_t ghost_n; unsigned ghost_forwarded_len; int ghost_forwarded;
/* set_user(const char*, string_size_type): the length arrives as a 16-bit value (its own body: layout arithmetic, C04) */
struct Builder* Builder_set_user_n(struct Builder* self, const char* user, string_size_type length)
  __CPROVER_requires(verif_exc == 0) __CPROVER_assigns(ghost_forwarded_len, ghost_forwarded) __CPROVER_ensures(ghost_forwarded_len == length && ghost_forwarded == 1);
size_t verif_strlen(const char* s) __CPROVER_requires(__CPROVER_r_ok(s, ghost_n + 1) && s[ghost_n] == 0) __CPROVER_assigns() __CPROVER_ensures(__CPROVER_return_value <= ghost_n && s[__CPROVER_return_value] == 0);
'''
for cls, tag in (('OSMObjectBuilder', 'object'), ('ChangesetBuilder', 'changeset')):
    u_str = Unit(OOB, 'set_user', cls=cls, cname='Builder_set_user_string_' + tag, selftype='struct Builder', sig=r'const std::string& user', ret='void',
                 pre=[(r'user\.size\(\)', 'user.n'), (r'user\.data\(\)', 'user.p'), (r'return set_user\(', 'Builder_set_user_n(self, '), (r'osmium::max_osm_string_length', 'max_osm_string_length')])
    u_cstr = Unit(OOB, 'set_user', cls=cls, cname='Builder_set_user_cstr_' + tag, selftype='struct Builder', sig=r'set_user\(const char\* user\)', ret='void',
                  pre=[(r'std::strlen\(', 'verif_strlen('), (r'return set_user\(', 'Builder_set_user_n(self, '), (r'osmium::max_osm_string_length', 'max_osm_string_length')])
    for u, req, true_len, arg in ((u_str, '__CPROVER_is_fresh(user, sizeof(*user)) && user->n <= 200000', 'user->n', 'const vstr* u'),
                                  (u_cstr, 'ghost_n <= 200000 && __CPROVER_is_fresh(user, ghost_n + 1) && user[ghost_n] == 0', 'TRUE_LEN', 'const char* u')):
        post_len = ('verif_exc != 0 || (ghost_forwarded == 1 && ghost_forwarded_len == %s)' % true_len) if true_len != 'TRUE_LEN' else 'verif_exc != 0 || (ghost_forwarded == 1 && ghost_forwarded_len <= ghost_n && user[ghost_forwarded_len] == 0)'
        PIPELINES.append(Pipeline('U_' + u.cname, units=[u], prelude=SETUSER, contracts={u.cname: [
            ('pre:a user name of any length, as a parser may hand it over', 'requires', 'verif_exc == 0 && ghost_forwarded == 0 && __CPROVER_is_fresh(self, sizeof(*self)) && ' + req),
            ('post:a name that does not fit is rejected with length_error (no abort, no truncation)', 'ensures', 'verif_exc == 0 || verif_exc == EXC_length_error'),
            ('post:otherwise the full length is stored', 'ensures', post_len),
            ('frame', 'assigns', 'verif_exc, ghost_forwarded_len, ghost_forwarded')]},
            replace=['Builder_set_user_n', 'verif_strlen'], enforce=u.cname,
            harness='void harness(void) { struct Builder* b; %s; %s(b, u); __CPROVER_assert(verif_exc != 0, "canary:normal"); __CPROVER_assert(verif_exc == 0, "canary:throw"); }' % (arg, u.cname),
            canaries=['canary:normal', 'canary:throw'], replay=('c03_hostile', lambda cex, o: ['user']),
            note='asserts of the library are proof obligations: the debug build must not abort, the release build must not truncate'))

# ---- layer 4: XML element handlers keep the builder protocol (typestate)
import specs.c03_xml as XMLSPEC
PIPELINES += XMLSPEC.pipelines(('c03_xml', lambda cex, o: ['xml']))

TRUSTED = ['expat, zlib, libbz2 internals']
ASSUMPTIONS = ['input strings shorter than 100000 / 200000 bytes in the models (object-size bound; loop contracts make the proofs independent of it)']
NOT_DECIDED = ['expat behaviour', 'attribute values inside the XML handlers (the lambdas are replaced by a havoc of their captures)', 'PBF tag strings with embedded NUL (recorded finding F6)',
               'traversal of delivered objects (layout invariant)', 'pipeline-level hangs (threads)', 'allocation failure']
LEVEL_TEXT = ('Proof for the layers function contracts reach: (1) the text/binary scanning kernels - coordinate parser, OPL integer/string/escape/space/section scanners, UTF-8 decoder, PBF blob header size, '
              'o5m table lookup - are memory-safe on every NUL-terminated string or byte range of any length, throw only documented exceptions and terminate (loop contracts with decreases); these units '
              'are shared with C13, C14 and C02 and re-run here. (2) the object and changeset builders reject user names that do not fit with length_error for every length a parser can hand over - no assert '
              'can fire, nothing is truncated. (3) the XML element handlers (top_level_element, data_level_element, start_element with get_tag, end_element), extracted whole, keep the builder protocol '
              'for every element sequence expat can deliver and for every read_types setting: a typestate invariant over the context stack and the eight builder pointers (the shapes of the OSM XML grammar) is '
              'preserved by every handler; sub-builders are created only when no other one is open, destroyed before their parent, dereferenced only while they exist; commit happens with no builder open; '
              'no changeset comment is left unfinished at any handler boundary or on any exception path, so no builder assert can fire when the parser is destroyed.')
LEVEL_NOTE = ('Trusted: CBMC, extraction rules, strlen and std::string models. Assumed for layer 3: the typestate functions standing for unique_ptr<Builder> and the builder methods (their obligations are the asserts and the stack discipline of the builder classes), a 8-slot model of std::vector<context>, expat delivering matching end tags. Not decided: expat, zlib, libbz2, attribute values inside the XML handlers, embedded NUL bytes in PBF strings (finding F6 recorded), '
              'traversal of delivered objects, anything spanning threads.')
