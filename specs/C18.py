"""C18 - Web-Mercator projection and tile numbers: in range, conversion-safe, formula selection."""
from cv import Pipeline, Unit
import cx

PROPERTY = 'C18'
LEVEL = 'proof'
TILE = 'include/osmium/geom/tile.hpp'
MERC = 'include/osmium/geom/mercator_projection.hpp'
UTIL = 'include/osmium/geom/util.hpp'
FLOATFLAGS = ['--float-overflow-check', '--nan-check']


def prelude(repo):
    return ('#include <math.h>\n' + cx.extract_const(repo, UTIL, 'PI') + cx.extract_const(repo, MERC, 'earth_radius_for_epsg3857')
            + cx.extract_const(repo, MERC, 'max_coordinate_epsg3857'))


U_clamp = Unit(TILE, 'clamp')
U_clampd = Unit(TILE, 'clamp_double')
U_num = Unit(TILE, 'num_tiles_in_zoom')
U_ext = Unit(TILE, 'tile_extent_in_zoom')
U_tx = Unit(TILE, 'mercx_to_tilex')
U_ty = Unit(TILE, 'mercy_to_tiley')
TILEUNITS = [U_clamp, U_clampd, U_num, U_ext, U_tx, U_ty]

PIPELINES = []
PIPELINES.append(Pipeline('U1_clamp', units=[U_clamp], prelude=prelude, contracts={'clamp': [
    ('pre', 'requires', 'min <= max'),
    ('post:clamped value', 'ensures', '__CPROVER_return_value == (value < min ? min : value > max ? max : value)'), ('frame', 'assigns', '')]},
    harness='void harness(void) { int32_t v, a, b; int32_t r = clamp(v, a, b); __CPROVER_assert(0, "canary"); }', enforce='clamp'))

H_TILE = '''
void harness(void) {
  uint32_t zoom; double v; __CPROVER_assume(zoom <= 30); __CPROVER_assume(!isnan(v)); %(domain)s
  uint32_t t = %(fn)s(zoom, v);
  __CPROVER_assert(t < (1u << zoom), "U1 tile number lies inside the tile range of the zoom level");
  __CPROVER_assert(%(edge_lo)s, "U1 coordinates at or beyond the lower edge map to tile 0");
  __CPROVER_assert(%(edge_hi)s, "U1 coordinates at or beyond the upper edge map to the last tile");
  __CPROVER_assert(0, "canary");
}'''
MAXC = 'max_coordinate_epsg3857'
PIPELINES.append(Pipeline('U1_mercx_to_tilex_range', units=TILEUNITS, prelude=prelude, harness=H_TILE % dict(
    fn='mercx_to_tilex', domain='/* x of a valid location: |x| <= lon_to_x(180) = 20037508.342789244 */ __CPROVER_assume(v >= -20037508.342789244 && v <= 20037508.342789244);', edge_lo='!(v <= -%s) || t == 0' % MAXC, edge_hi='!(v >= %s) || t == (1u << zoom) - 1' % MAXC),
    flags=None, solver='kissat', timeout=900, replay=('c18_tile', lambda cex, o: ['tilex', cex.first('zoom', 0), '%x' % int(cex.raw_last('v')['binary'], 2)]),
    note='all zoom levels 0..30 and every x a valid location can have; the float->int32 conversion obligation is the one that matters'))
PIPELINES.append(Pipeline('U1_mercy_to_tiley_range', units=TILEUNITS, prelude=prelude, harness=H_TILE % dict(
    fn='mercy_to_tiley', domain='/* y of a valid location: every double that is not NaN (latitude -90 gives -infinity, +90 gives 2.4e8) */', edge_lo='!(v >= %s) || t == 0' % MAXC, edge_hi='!(v <= -%s) || t == (1u << zoom) - 1' % MAXC),
    flags=None, solver='kissat', timeout=900, replay=('c18_tile', lambda cex, o: ['tiley', cex.first('zoom', 0), '%x' % int(cex.raw_last('v')['binary'], 2)]),
    note='same for y (tiles are numbered from north to south)'))
PIPELINES.append(Pipeline('U1_num_tiles_and_extent', units=[U_num, U_ext], prelude=prelude, harness='''
void harness(void) { uint32_t zoom; __CPROVER_assume(zoom <= 30);
  __CPROVER_assert(num_tiles_in_zoom(zoom) == (1u << zoom), "U1 2^zoom tiles per direction");
  double e = tile_extent_in_zoom(zoom);
  __CPROVER_assert(e > 0.0 && e <= 2 * max_coordinate_epsg3857, "U1 tile extent positive");
  __CPROVER_assert(zoom == 30 || tile_extent_in_zoom(zoom + 1) * 2 == e, "L2 the extent halves exactly from one zoom level to the next");
  __CPROVER_assert(0, "canary"); }''', solver='kissat'))

# ---- formula selection in lat_to_y: the rational approximation is only fitted for [-78, 78] ----------------
U_lat = Unit(MERC, 'lat_to_y', nth=0 if False else 0, sig=None)
STUB_TAN = '''
double ghost_tan_arg; double ghost_tan_result; int ghost_tan_calls;
double lat_to_y_with_tan(double lat)
__CPROVER_assigns(ghost_tan_arg, ghost_tan_calls)
__CPROVER_ensures(ghost_tan_arg == lat && ghost_tan_calls == __CPROVER_old(ghost_tan_calls) + 1 && __CPROVER_return_value == ghost_tan_result)
;
'''
PIPELINES.append(Pipeline('U2_lat_to_y_formula_selection', units=[U_lat], prelude=lambda repo: prelude(repo) + STUB_TAN,
                          replace=['lat_to_y_with_tan'], harness='''
void harness(void) { double lat; __CPROVER_assume(lat >= -90.0 && lat <= 90.0); ghost_tan_calls = 0; __CPROVER_assume(!isnan(ghost_tan_result));
  double y = lat_to_y(lat);
  __CPROVER_assert(!(lat < -78.0 || lat > 78.0) || (ghost_tan_calls == 1 && ghost_tan_arg == lat && y == ghost_tan_result),
                   "U2 outside the fitted range [-78, 78] of the rational approximation the canonical tangent formula is used");
  __CPROVER_assert(0, "canary"); }''', solver='kissat', timeout=900, flags=['--bounds-check', '--pointer-check', '--slice-formula'],
                          replay=('c18_tile', lambda cex, o: ['laty', '%x' % int(cex.raw_last('lat')['binary'], 2)]),
                          note='helper contract derived from the code comment (approximation fitted for -78..78): the accuracy clause itself (polynomial vs log(tan)) is not decidable with CBMC'))

TRUSTED = ['libm log/tan/atan/exp (no semantics in CBMC): lat_to_y_with_tan and y_to_lat are uninterpreted']
ASSUMPTIONS = ['IEEE-754 binary64, round-to-nearest']
NOT_DECIDED = ['accuracy of the rational lat_to_y against log(tan()) and the round trip through atan(exp()) (libm)', 'strict monotonicity in latitude (libm)',
               'monotonicity of tile numbers / nesting across zoom levels for symbolic inputs (floating-point division: solver did not finish; see DESIGN)']
LEVEL_TEXT = ('Proof over IEEE doubles: for every zoom level 0..30 and every coordinate a valid location can produce (x within +-lon_to_x(180); y any double except NaN, since the poles give -infinity and 2.4e8) '
              'mercx_to_tilex/mercy_to_tiley return a tile number inside the range of the zoom level, the float-to-int32 conversion never overflows, and the edges '
              '(+-180 degrees, poles) map to the first/last tile; tile extents halve exactly between zoom levels; lat_to_y uses the canonical formula outside '
              'the fitted range of its approximation.')
LEVEL_NOTE = ('Trusted: CBMC floating-point encoding, extraction rules. Not decided: accuracy and round trip involving libm transcendental functions, strict '
              'monotonicity in latitude, tile monotonicity/nesting for symbolic inputs (attempted; solver does not finish).')
