"""C17 - geometry exports encode exactly the object's coordinates (point selection, duplicate handling, number formatting)."""
from cv import Pipeline, Unit
import cx, re

PROPERTY = 'C17'
LEVEL = 'proof'
FAC = 'include/osmium/geom/factory.hpp'
LOC = 'include/osmium/osm/location.hpp'
NR = 'include/osmium/osm/node_ref.hpp'
DBL = 'include/osmium/util/double.hpp'
PIPELINES = []


def geo_prelude(repo):
    return ('typedef int64_t object_id_type;\n' + cx.members_struct(repo, [(LOC, 'Location')], 'Location') + 'typedef struct Location Location;\n'
            + cx.members_struct(repo, [(NR, 'NodeRef')], 'NodeRef') + 'typedef struct NodeRef NodeRef;\n' + '''
enum { undefined_coordinate = 2147483647 };
#define LOC_EQ(a, b) ((a).m_x == (b).m_x && (a).m_y == (b).m_y)              /* operator== of Location */
#define LOC_VALID(a) ((a).m_x >= -1800000000 && (a).m_x <= 1800000000 && (a).m_y >= -900000000 && (a).m_y <= 900000000)
static const Location VERIF_UNDEF_LOCATION = { undefined_coordinate, undefined_coordinate };   /* Location() */
/* ghost: the points handed to the output format implementation */
size_t ghost_emit_count; Location ghost_last_emitted; size_t ghost_g; bool ghost_emitted_g; const NodeRef* ghost_begin;
/* m_impl.<geom>_add_location(m_projection(location)): the projection rejects invalid (including undefined) locations with invalid_location
   (Location::lon()/lat() throw); otherwise the point is appended to the geometry being built (assumed contract) */
void verif_project_and_add(Location l)
__CPROVER_requires(verif_exc == 0)
__CPROVER_assigns(verif_exc, ghost_emit_count, ghost_last_emitted)
__CPROVER_ensures(LOC_VALID(l) ? (verif_exc == 0 && ghost_emit_count == __CPROVER_old(ghost_emit_count) + 1 && LOC_EQ(ghost_last_emitted, l)) : (verif_exc == EXC_invalid_location && ghost_emit_count == __CPROVER_old(ghost_emit_count)))
;
''')


ITER_RULES = [(r'it->location\(\)', '(it->m_location)'), (r'last_location != ', '!LOC_EQ(last_location, '), (r'osmium::Location last_location;', 'Location last_location = VERIF_UNDEF_LOCATION;')]


def fill_unit(name, which):
    return Unit(FAC, name, cls='GeometryFactory', cname=name, method=False, bind={'TIter': 'const NodeRef*'},
                pre=[(r'osmium::Location last_location;', 'Location last_location = VERIF_UNDEF_LOCATION;'),
                     (r'last_location != it->location\(\)', '!LOC_EQ(last_location, it->m_location)'),
                     (r'last_location = it->location\(\);', 'last_location = it->m_location;'),
                     (r'm_impl\.%s_add_location\(m_projection\(last_location\)\);' % which,
                      'verif_project_and_add(last_location); if ((size_t)(it - ghost_begin) == ghost_g) ghost_emitted_g = 1; /*ghost*/')])


UNIQ_CONTRACT = [
    ('pre:a node reference sequence of any length', 'requires',
     'verif_exc == 0 && ghost_n <= 5000 && __CPROVER_is_fresh(it, (ghost_n + 1) * sizeof(NodeRef)) && __CPROVER_pointer_equals(end, it + ghost_n) && __CPROVER_pointer_equals(ghost_begin, it) && '
     'ghost_emit_count == 0 && !ghost_emitted_g && ghost_g < ghost_n'),
    ('post:only a location error can be thrown', 'ensures', 'verif_exc == 0 || verif_exc == EXC_invalid_location'),
    ('post:the returned count is the number of points written', 'ensures', 'verif_exc != 0 || __CPROVER_return_value == ghost_emit_count'),
    ('post:every undefined or invalid location in the input is rejected', 'ensures', 'LOC_VALID(ghost_begin[ghost_g].m_location) || verif_exc == EXC_invalid_location'),
    ('post:a point is written exactly when it differs from its predecessor (the first point always)', 'ensures',
     'verif_exc != 0 || ghost_emitted_g == (ghost_g == 0 || !LOC_EQ(ghost_begin[ghost_g].m_location, ghost_begin[ghost_g - 1].m_location))'),
    ('post:the last point written is the last location of the input', 'ensures', 'verif_exc != 0 || ghost_n == 0 || LOC_EQ(ghost_last_emitted, ghost_begin[ghost_n - 1].m_location)'),
    ('frame', 'assigns', 'verif_exc, ghost_emit_count, ghost_last_emitted, ghost_emitted_g'),
]
IDX = '(__CPROVER_POINTER_OFFSET(it) / sizeof(NodeRef))'
UNIQ_LOOP = [['__CPROVER_assigns(it, num_points, last_location, verif_exc, ghost_emit_count, ghost_last_emitted, ghost_emitted_g)',
              '__CPROVER_loop_invariant(__CPROVER_same_object(it, ghost_begin) && __CPROVER_POINTER_OFFSET(it) %% sizeof(NodeRef) == 0 && %(I)s <= ghost_n && verif_exc == 0 && num_points == ghost_emit_count && ghost_emit_count <= %(I)s)' % dict(I=IDX),
              '__CPROVER_loop_invariant(%(I)s == 0 || LOC_EQ(last_location, ghost_begin[%(I)s - 1].m_location))' % dict(I=IDX),
              '__CPROVER_loop_invariant(%(I)s == 0 || (ghost_emit_count >= 1 && LOC_EQ(ghost_last_emitted, last_location) && LOC_VALID(last_location)))' % dict(I=IDX),
              '__CPROVER_loop_invariant(%(I)s != 0 || (ghost_emit_count == 0 && LOC_EQ(last_location, VERIF_UNDEF_LOCATION)))' % dict(I=IDX),
              '__CPROVER_loop_invariant(!(ghost_g < %(I)s) || (LOC_VALID(ghost_begin[ghost_g].m_location) && ghost_emitted_g == (ghost_g == 0 || !LOC_EQ(ghost_begin[ghost_g].m_location, ghost_begin[ghost_g - 1].m_location))))' % dict(I=IDX),
              '__CPROVER_loop_invariant(ghost_g < %(I)s || !ghost_emitted_g)' % dict(I=IDX),
              '__CPROVER_decreases(ghost_n - %(I)s)' % dict(I=IDX)]]
for name, which in (('fill_linestring_unique', 'linestring'), ('fill_polygon_unique', 'polygon')):
    u = fill_unit(name, which)
    PIPELINES.append(Pipeline('U2_' + name, units=[u], prelude=lambda repo: 'size_t ghost_n;\n' + geo_prelude(repo), contracts={name: UNIQ_CONTRACT}, loops={name: UNIQ_LOOP},
                              replace=['verif_project_and_add'], maythrow={'verif_project_and_add': True}, enforce=name,
                              harness='void harness(void) { const NodeRef *a, *b; %s(a, b); __CPROVER_assert(verif_exc != 0, "canary:normal"); __CPROVER_assert(verif_exc == 0, "canary:throw"); }' % name,
                              canaries=['canary:normal', 'canary:throw'], timeout=900, replay=('c17_geom', lambda cex, o: ['search']),
                              note='sequences of any length up to 5000 with arbitrary locations; forward iteration (TIter := const NodeRef*)'))


# ---- add_points: the points of one ring of a multipolygon ---------------------------------------------------------------------
def fac_prelude(repo):
    last, first = ap_state_names(repo)
    names = '#define AP_LAST %s\n#define AP_FIRST %s\n' % tuple(('self->' + n) if n.startswith('m_') else n for n in (last, first))
    return 'size_t ghost_n;\n' + names + geo_prelude(repo) + cx.members_struct(repo, [(FAC, 'GeometryFactory')], 'GeometryFactory', typemap={'TProjection': 'int', 'TGeomImpl': 'int', 'osmium::Location': 'Location'})


def ap_state_names(repo):
    """the duplicate-suppression state of add_points: locals of the function (as in the repository), or - a structural variant that must still be decided,
    not reported as 'spec out of date' - data members of the factory. Returns (last, first) as they appear in the source."""
    src = cx.preprocess(cx.strip_comments(open(repo + '/' + FAC).read()))
    m = re.search(r'void add_points\(const osmium::NodeRefList& nodes\) \{(.*?)\n            \}', src, re.S)
    if not m:
        raise cx.ExtractError('add_points not found')
    body = m.group(1)
    last = 'last_location' if re.search(r'osmium::Location last_location;', body) else ('m_last_location' if 'm_last_location' in body else None)
    first = 'first' if re.search(r'bool first = true;', body) else ('m_first' if 'm_first' in body else None)
    if last is None or first is None:
        raise cx.ExtractError('add_points: the variables holding the previous location / the first-point flag were not recognised')
    return last, first


def ap_rewrite(body, R):
    last = 'm_last_location' if not re.search(r'osmium::Location last_location;', body) else 'last_location'
    rules = [(r'for \(const osmium::NodeRef& node_ref : nodes\)', 'for (; it != end; ++it)'),
             (last + r' != node_ref\.location\(\)', '!LOC_EQ(%s, it->m_location)' % last),
             (last + r' = node_ref\.location\(\);', '%s = it->m_location;' % last),
             (r'm_impl\.multipolygon_add_location\(m_projection\(%s\)\);' % last,
              'verif_project_and_add(%s); if ((size_t)(it - ghost_begin) == ghost_g) ghost_emitted_g = 1; /*ghost*/' % last)]
    if last == 'last_location':
        rules.insert(0, (r'osmium::Location last_location;', 'Location last_location = VERIF_UNDEF_LOCATION;'))
    return cx.apply_mustfire(body, rules, R, 'add_points')


U_addpts = Unit(FAC, 'add_points', cls='GeometryFactory', params=['const NodeRef* it', 'const NodeRef* end'], pre=[ap_rewrite])
AP_CONTRACT = [(l, k, t.replace('verif_exc == 0 && ghost_n <= 5000', 'verif_exc == 0 && __CPROVER_is_fresh(self, sizeof(*self)) && ghost_n <= 5000')) for (l, k, t) in UNIQ_CONTRACT if 'returned count' not in l]
AP_LOOP = [[re.sub(r'\blast_location\b', 'AP_LAST', c.replace('num_points == ghost_emit_count && ', 'AP_FIRST == (%s == 0) && ' % IDX).replace('__CPROVER_assigns(it, num_points, ', '__CPROVER_assigns(it, AP_FIRST, ')) for c in UNIQ_LOOP[0]]]
PIPELINES.append(Pipeline('U2_add_points', units=[U_addpts], prelude=fac_prelude, contracts={'GeometryFactory_add_points': AP_CONTRACT}, loops={'GeometryFactory_add_points': AP_LOOP},
                          replace=['verif_project_and_add'], maythrow={'verif_project_and_add': True}, enforce='GeometryFactory_add_points',
                          harness='void harness(void) { struct GeometryFactory* f; const NodeRef *a, *b; GeometryFactory_add_points(f, a, b); __CPROVER_assert(verif_exc != 0, "canary:normal"); __CPROVER_assert(verif_exc == 0, "canary:throw"); }',
                          canaries=['canary:normal', 'canary:throw'], timeout=900, replay=('c17_geom', lambda cex, o: ['multipolygon']),
                          note='each ring is handled on its own: its first point is always written, whatever the previous ring ended with'))


# ---- double2string: number formatting --------------------------------------------------------------------------------------------
D2S_PRELUDE = '''
/* snprintf(buf, size, "%.*f", p, v): assumed contract (C standard): returns the length r of the full text; writes min(r, size-1) characters and a NUL.
   The text of a finite value is  -?D+  followed by  '.' and exactly p digits when p > 0;  of a non-finite value "inf"/"-inf"/"nan"/"-nan". */
int ghost_r; int ghost_finite; size_t ghost_k;
int snprintf_f(char* buf, size_t size, int precision, double value)
__CPROVER_requires(size >= 8 && __CPROVER_w_ok(buf, size) && precision >= 0 && precision <= 17)
__CPROVER_assigns(__CPROVER_object_whole(buf), ghost_r, ghost_finite)
__CPROVER_ensures(__CPROVER_return_value == ghost_r && (ghost_finite == 0 || ghost_finite == 1))
__CPROVER_ensures(ghost_finite ? (ghost_r >= 1 + (precision > 0 ? 1 + precision : 0) && ghost_r <= 1 + 309 + (precision > 0 ? 1 + precision : 0)) : (ghost_r >= 3 && ghost_r <= 4))
__CPROVER_ensures((size_t)ghost_r >= size || buf[ghost_r] == 0)
__CPROVER_ensures(!(ghost_finite && precision > 0 && (size_t)ghost_r < size) || (buf[ghost_r - precision - 1] == '.' && buf[ghost_r - precision - 2] >= '0' && buf[ghost_r - precision - 2] <= '9'))
__CPROVER_ensures(!(ghost_finite && (size_t)ghost_r < size && ghost_k < (size_t)ghost_r && (precision == 0 || ghost_k != (size_t)(ghost_r - precision - 1))) || ((buf[ghost_k] >= '0' && buf[ghost_k] <= '9') || (ghost_k == 0 && buf[0] == '-')))
__CPROVER_ensures(ghost_finite || (size_t)ghost_r >= size || (buf[ghost_r - 1] != '0' && buf[ghost_r - 1] != '.'))
;
char ghost_out[400]; size_t ghost_out_len; const char* ghost_src;
char* copy_n(const char* src, size_t n, char* dst) __CPROVER_requires(__CPROVER_r_ok(src, n)) __CPROVER_assigns(ghost_out_len, ghost_src) __CPROVER_ensures(ghost_out_len == n && ghost_src == src);
'''
U_d2s = Unit(DBL, 'double2string', sig=r'T iterator, double value, int precision', bind={'T': 'char*'}, ret='char*',
             pre=[(r'int len = snprintf\(buffer, max_double_length, "%\.\*f", precision, value\);', 'int len = snprintf_f(buffer, max_double_length, precision, value);')])
PIPELINES.append(Pipeline('U4_double2string', units=[U_d2s], prelude=D2S_PRELUDE, contracts={'double2string': [
    ('pre:any double, any precision the exporters may request', 'requires', 'precision >= 0 && precision <= 17'),
    ('post:a non-empty prefix of the printed text is written', 'ensures', 'ghost_out_len >= 1 && ghost_out_len <= (size_t)ghost_r'),
    ('post:only superfluous characters are dropped: zeros after the decimal point, and the point itself if nothing follows it (the number is unchanged)', 'ensures',
     '!ghost_finite || (precision == 0 ? ghost_out_len == (size_t)ghost_r : ghost_out_len + 1 >= (size_t)(ghost_r - precision))'),
    ('frame', 'assigns', 'ghost_r, ghost_finite, ghost_out_len, ghost_src')]},
    loops={'double2string': [['__CPROVER_assigns(len)', '__CPROVER_loop_invariant(len >= ghost_r - precision && len <= ghost_r && ghost_finite && precision > 0)', '__CPROVER_decreases(len)']]},
    replace=['snprintf_f', 'copy_n'], enforce='double2string',
    harness='void harness(void) { char* it; double v; int p; double2string(it, v, p); __CPROVER_assert(0, "canary"); }',
    replay=('c17_geom', lambda cex, o: ['search']), noflags=['--conversion-check'],
    note='all array accesses are inside the local buffer for every double (up to 309 integer digits) and every precision 0..17; relative to the assumed shape of the snprintf output'))

# ---- WKB: every geometry starts in an empty output buffer with its header; count fields are patched inside the buffer ------------------------------
WKB = 'include/osmium/geom/wkb.hpp'


def wkb_prelude(repo):
    src = cx.preprocess(cx.strip_comments(open(repo + '/' + WKB).read()))
    got = [m[1] for m in cx.extract_members(src, 'WKBFactoryImpl')]
    for need in ('m_data', 'm_srid', 'm_wkb_type', 'm_linestring_size_offset', 'm_multipolygon_size_offset', 'm_polygon_size_offset', 'm_ring_size_offset', 'm_polygons', 'm_rings', 'm_points'):
        if need not in got:
            raise cx.ExtractError('WKBFactoryImpl::%s missing' % need)
    return (cx.extract_enum(repo, WKB, 'wkb_type') + cx.extract_enum(repo, WKB, 'out_type') + '''
typedef uint32_t wkbGeometryType;
/* std::string m_data: only its length is kept (the bytes are raw copies of the values pushed) */
typedef struct vstr { size_t size; } vstr;
struct WKBFactoryImpl { vstr m_data; uint32_t m_points; int m_srid; wkb_type m_wkb_type; out_type m_out_type; size_t m_linestring_size_offset; size_t m_polygons; size_t m_rings;
                        size_t m_multipolygon_size_offset; size_t m_polygon_size_offset; size_t m_ring_size_offset; };
/* str_push<T>(str, value): appends sizeof(T) bytes */
void vstr_append_n(vstr* s, size_t n) { __CPROVER_assert(s->size <= SIZE_MAX - n, "model: string length"); s->size += n; }
void vstr_clear(vstr* s) { s->size = 0; }
/* writing a 4-byte count at &m_data[offset]: inside the string */
void vstr_patch4(const vstr* s, size_t offset) { __CPROVER_assert(offset <= s->size && s->size - offset >= 4, "set_size: the count field lies inside the output buffer"); }
#define HDR(f) ((size_t)((f)->m_wkb_type == wkb_type_ewkb ? 9 : 5))   /* byte order + type (+ SRID) */
''')


PUSH = [(r'str_push\((\w+), wkb_byte_order_type::\w+\);', r'vstr_append_n(&\1, 1);', '?'), (r'str_push\((\w+), type \| wkbSRID\);', r'vstr_append_n(&\1, 4);', '?'), (r'str_push\((\w+), type\);', r'vstr_append_n(&\1, 4);', '?'),
        (r'str_push\((\w+), m_srid\);', r'vstr_append_n(&\1, 4);', '?'), (r'str_push\((\w+), static_cast<uint32_t>\(0\)\);', r'vstr_append_n(&\1, 4);', '?'),
        (r'header\(m_data, ', 'header(&m_data, ', '?'), (r'm_data\.clear\(\);', 'vstr_clear(&m_data);', '?'), (r'm_data\.size\(\)', 'm_data.size', '?'), (r'\bwkb(LineString|Polygon|MultiPolygon|Point)\b', r'((wkbGeometryType)0 /* wkb\1 */)', '?')]
U_hdr = Unit(WKB, 'header', cls='WKBFactoryImpl', selftype='const struct WKBFactoryImpl', params=['vstr* str_p', 'wkbGeometryType type', 'bool add_length'], enums=['wkb_type'],
             pre=[(r'\bstr\.size\(\)', 'str_p->size'), (r'str_push\(str, ', 'str_push(*str_p, ')] + [(a.replace(r'\((\w+), ', r'\(\*(\w+), '), b.replace(r'&\1', r'\1'), '?') for a, b, _ in PUSH[:5]])
U_setsize = Unit(WKB, 'set_size', cls='WKBFactoryImpl',
                 pre=[(r'std::copy_n\(reinterpret_cast<const char\*>\(&s\), sizeof\(uint32_t\), &m_data\[offset\]\);', 'vstr_patch4(&m_data, offset); (void)s;')])
WKB_STARTS = []
for nm, extra in (('linestring_start', 'self->m_linestring_size_offset == HDR(self) && self->m_data.size == HDR(self) + 4'),
                  ('polygon_start', 'self->m_ring_size_offset == HDR(self) + 4 && self->m_data.size == HDR(self) + 8'),
                  ('multipolygon_start', 'self->m_multipolygon_size_offset == HDR(self) && self->m_data.size == HDR(self) + 4 && self->m_polygons == 0')):
    u = Unit(WKB, nm, cls='WKBFactoryImpl', enums=['wkb_type'], pre=PUSH)
    PIPELINES.append(Pipeline('U5_wkb_' + nm, units=[U_hdr, U_setsize, u], prelude=wkb_prelude, contracts={'WKBFactoryImpl_' + nm: [
        ('pre:ANY state of the factory - the previous geometry may have been abandoned by an exception half way', 'requires',
         'verif_exc == 0 && __CPROVER_is_fresh(self, sizeof(*self)) && self->m_data.size <= (1u << 30) && (self->m_wkb_type == wkb_type_wkb || self->m_wkb_type == wkb_type_ewkb)'),
        ('post:the output buffer holds exactly the header of the new geometry, the count field is the one that will be patched', 'ensures', 'verif_exc == 0 && ' + extra),
        ('frame', 'assigns', 'verif_exc, self->m_data.size, self->m_linestring_size_offset, self->m_multipolygon_size_offset, self->m_ring_size_offset, self->m_polygons')]},
        enforce='WKBFactoryImpl_' + nm, harness='void harness(void) { struct WKBFactoryImpl* f; WKBFactoryImpl_%s(f); __CPROVER_assert(0, "canary"); }' % nm, noflags=['--conversion-check'],
        replay=('c17_geom', lambda cex, o: ['wkbreuse']), note='length-only model of the output string; header() and set_size() are inlined real bodies'))
U_mpps = Unit(WKB, 'multipolygon_polygon_start', cls='WKBFactoryImpl', enums=['wkb_type'], pre=PUSH[5:])  # header(&m_data ..), clear, size, geometry type constants
PIPELINES.append(Pipeline('U5_wkb_multipolygon_polygon_start', units=[U_hdr, U_mpps], prelude=wkb_prelude, contracts={'WKBFactoryImpl_multipolygon_polygon_start': [
    ('pre', 'requires', 'verif_exc == 0 && __CPROVER_is_fresh(self, sizeof(*self)) && self->m_data.size <= (1u << 30) && self->m_polygons < (1u << 30) && (self->m_wkb_type == wkb_type_wkb || self->m_wkb_type == wkb_type_ewkb)'),
    ('post:a polygon header is appended; its count field is remembered; the polygon is counted', 'ensures',
     'self->m_data.size == __CPROVER_old(self->m_data.size) + HDR(self) + 4 && self->m_polygon_size_offset == __CPROVER_old(self->m_data.size) + HDR(self) && self->m_polygons == __CPROVER_old(self->m_polygons) + 1 && self->m_rings == 0'),
    ('frame', 'assigns', 'self->m_data.size, self->m_polygon_size_offset, self->m_polygons, self->m_rings')]},
    enforce='WKBFactoryImpl_multipolygon_polygon_start', harness='void harness(void) { struct WKBFactoryImpl* f; WKBFactoryImpl_multipolygon_polygon_start(f); __CPROVER_assert(0, "canary"); }',
    noflags=['--conversion-check'], replay=('c17_geom', lambda cex, o: ['wkbreuse'])))

# ---- WKT / GeoJSON: every geometry starts from an empty text (whatever a previous, abandoned geometry left behind) -----------------------------------
WKT = 'include/osmium/geom/wkt.hpp'
GJ = 'include/osmium/geom/geojson.hpp'
TXT_PRELUDE = '''
/* std::string members: only the length is kept */
typedef struct vstr { size_t size; } vstr;
struct TextFactoryImpl { vstr m_srid_prefix; vstr m_str; int m_precision; int m_wkt_type; };
void vstr_assign(vstr* d, const vstr* s) { d->size = s->size; }
void vstr_append(vstr* d, const vstr* s) { __CPROVER_assert(d->size <= SIZE_MAX - s->size, "model: string length"); d->size += s->size; }
void vstr_assign_n(vstr* d, size_t n) { d->size = n; }
void vstr_append_n(vstr* d, size_t n) { __CPROVER_assert(d->size <= SIZE_MAX - n, "model: string length"); d->size += n; }
'''


def text_ops(body, R):
    """m_str = m_srid_prefix; / m_str += m_srid_prefix; / m_str = "lit"; / m_str += "lit"; / m_str += 'c';  ->  length-only string operations (the literal's length is computed here)"""
    n = 0
    def lit_len(l):
        return len(bytes(l, 'utf-8').decode('unicode_escape'))
    for pat, rep in ((r'm_str = m_srid_prefix;', 'vstr_assign(&m_str, &m_srid_prefix);'), (r'm_str \+= m_srid_prefix;', 'vstr_append(&m_str, &m_srid_prefix);')):
        body, k = re.subn(pat, rep, body); n += k
    body, k = re.subn(r'm_str = "((?:[^"\\]|\\.)*)";', lambda m: 'vstr_assign_n(&m_str, %d); /* "%s" */' % (lit_len(m.group(1)), m.group(1).replace('*/', '* /')), body); n += k
    body, k = re.subn(r'm_str \+= "((?:[^"\\]|\\.)*)";', lambda m: 'vstr_append_n(&m_str, %d); /* "%s" */' % (lit_len(m.group(1)), m.group(1).replace('*/', '* /')), body); n += k
    body, k = re.subn(r"m_str \+= '(?:[^'\\]|\\.)';", 'vstr_append_n(&m_str, 1);', body); n += k
    if not n:
        raise cx.ExtractError('no operation on m_str found')
    R.hit('unit_rewrite:text output operations', n)
    return body


for fmt, file, cls, starts in (('wkt', WKT, 'WKTFactoryImpl', (('linestring_start', 'self->m_srid_prefix.size + 11'), ('polygon_start', 'self->m_srid_prefix.size + 9'), ('multipolygon_start', 'self->m_srid_prefix.size + 13'))),
                               ('geojson', GJ, 'GeoJSONFactoryImpl', (('linestring_start', '36 /* {"type":"LineString","coordinates":[ */'), ('polygon_start', '34 /* {"type":"Polygon","coordinates":[[ */'), ('multipolygon_start', '38 /* {"type":"MultiPolygon","coordinates":[ */')))):
    for nm, want in starts:
        u = Unit(file, nm, cls=cls, selftype='struct TextFactoryImpl', pre=[text_ops])
        cn = cls + '_' + nm
        PIPELINES.append(Pipeline('U6_%s_%s' % (fmt, nm), units=[u], prelude=TXT_PRELUDE, contracts={cn: [
            ('pre:ANY state of the factory - the previous geometry may have been abandoned by an exception half way', 'requires',
             '__CPROVER_is_fresh(self, sizeof(*self)) && self->m_str.size <= (1u << 30) && self->m_srid_prefix.size <= 32'),
            ('post:the text holds exactly the opening of the new geometry (SRID prefix and keyword resp. the JSON preamble), nothing of what was there before', 'ensures', 'self->m_str.size == ' + want),
            ('frame', 'assigns', 'self->m_str.size')]}, enforce=cn,
            harness='void harness(void) { struct TextFactoryImpl* f; %s(f); __CPROVER_assert(0, "canary"); }' % cn, noflags=['--conversion-check'],
            replay=('c17_geom', lambda cex, o: ['textreuse']), note='length-only model of the output string; the length of each literal is computed from the source text'))

TRUSTED = ['the projection rejects invalid locations (Location::lon()/lat() throw invalid_location) and the output implementation appends each point it is given (assumed contract of the ghost sink)']
ASSUMPTIONS = ['node reference lists of at most 5000 entries (object-size bound; the loop contract makes the proof independent of it)']
NOT_DECIDED = ['WKB/WKT/GeoJSON byte layout and count patching', 'reverse iteration', 'Mercator values inside the exports (C18)', 'create_multipolygon ring/polygon bracketing']
LEVEL_TEXT = ('Proof (unbounded loop contracts, sequences of any length, arbitrary locations) for the point selection of the geometry factory in unique mode - fill_linestring_unique, '
              'fill_polygon_unique and add_points (one multipolygon ring): a point is written exactly when it differs from its predecessor, the first point of every sequence always, the '
              'returned count equals the number of points written, the last point written is the last location of the input, and every undefined or invalid location in the input leads to '
              'invalid_location instead of being dropped; double2string stays inside its buffer for every snprintf result within the contract, strips exactly the trailing zeros of the fraction and appends the rest. WKB: linestring_start, polygon_start and multipolygon_start leave exactly the header of the new geometry in the output buffer whatever the '
              'factory held before (a geometry abandoned by an exception), remember the count field that will be patched, and set_size patches inside the buffer; multipolygon_polygon_start appends a polygon header and counts it.')
LEVEL_NOTE = ('Trusted: CBMC, extraction rules, the ghost sink standing for projection + output implementation (rejects invalid locations, appends the rest). Forward iteration only (TIter := const NodeRef*). '
              'Assumed: length-only model of the WKB output string. Not decided: the bytes written by WKB (raw copies) and the text of WKT/GeoJSON, ring counts across create_multipolygon, reverse iteration, ring/polygon bracketing of create_multipolygon, Mercator values (C18).')
