"""C02 - readers decode every spec-conformant file: the decoder kernels where a legal encoding choice turns into arithmetic."""
from cv import Pipeline, Unit
from cx import ExtractError
import cx, re

PROPERTY = 'C02'
LEVEL = 'proof'
PIN = 'include/osmium/io/detail/pbf_input_format.hpp'
PDEC = 'include/osmium/io/detail/pbf_decoder.hpp'
PBF = 'include/osmium/io/detail/pbf.hpp'
O5M = 'include/osmium/io/detail/o5m_input_format.hpp'
OBJ = 'include/osmium/osm/object.hpp'
LOC = 'include/osmium/osm/location.hpp'
ITEM = 'include/osmium/memory/item.hpp'
TS = 'include/osmium/osm/timestamp.hpp'
PIPELINES = []


def consts(repo):
    return ('enum { coordinate_precision = 10000000 };\n' + cx.extract_const(repo, PBF, 'max_blob_header_size') + cx.extract_const(repo, PBF, 'lonlat_resolution')
            + cx.extract_const(repo, PBF, 'resolution_convert') + '#define EXC_pbf_error_ EXC_pbf_error\n')


# ---- U1: BlobHeader length, 4 bytes in network byte order (PBF format: "4 bytes in network byte order") -------------------------------
U_nbo = Unit(PIN, 'get_size_in_network_byte_order', cls='PBFParser', method=False, cname='get_size_in_network_byte_order')
U_chk = Unit(PIN, 'check_size', cls='PBFParser', method=False, cname='check_size')
PIPELINES.append(Pipeline('U1_blob_header_size_network_byte_order', units=[U_nbo], prelude=consts, contracts={'get_size_in_network_byte_order': [
    ('pre', 'requires', '__CPROVER_is_fresh(d, 4)'),
    ('post:big-endian value of the four bytes, each taken as an unsigned octet', 'ensures',
     '__CPROVER_return_value == (((uint32_t)(unsigned char)d[0] << 24) | ((uint32_t)(unsigned char)d[1] << 16) | ((uint32_t)(unsigned char)d[2] << 8) | (uint32_t)(unsigned char)d[3])'),
    ('frame', 'assigns', '')]}, enforce='get_size_in_network_byte_order', noflags=['--conversion-check'],
    harness='void harness(void) { const char* d; get_size_in_network_byte_order(d); __CPROVER_assert(0, "canary"); }',
    replay=('c02_kernels', lambda cex, o: ['nbo', '%02x%02x%02x%02x' % tuple((cex.field(cex.pointer_target('d'), '', 0) or 0) & 255 for _ in range(4))] if False else ['nbo-search']),
    note='all 2^32 byte quadruples'))
PIPELINES.append(Pipeline('L1_every_legal_blob_header_size_is_accepted', units=[U_nbo, U_chk], prelude=consts, harness='''
void harness(void) { uint32_t s; __CPROVER_assume(s <= 64 * 1024);    /* format limit: a BlobHeader is at most 64 KiB */
  char d[4] = { (char)(s >> 24), (char)(s >> 16), (char)(s >> 8), (char)s }; verif_exc = 0;
  uint32_t r = check_size(get_size_in_network_byte_order(d));
  __CPROVER_assert(verif_exc == 0 && r == s, "L1 every header size up to the format limit is decoded and accepted");
  __CPROVER_assert(0, "canary"); }''', noflags=['--conversion-check'], replay=('c02_kernels', lambda cex, o: ['nbo', cex.first('s', 0)])))

# ---- U3: coordinate conversion with block parameters -----------------------------------------------------------------------------------
def dec_struct(repo):
    src = cx.preprocess(cx.strip_comments(open(repo + '/' + PDEC).read()))
    ms = {m[1]: m[0] for m in cx.extract_members(src, 'PBFPrimitiveBlockDecoder')}
    for n, t in (('m_lon_offset', 'int64_t'), ('m_lat_offset', 'int64_t'), ('m_date_factor', 'int64_t'), ('m_granularity', 'int32_t')):
        if ms.get(n) != t:
            raise ExtractError('PBFPrimitiveBlockDecoder::%s is not %s any more: %s' % (n, t, ms.get(n)))
    return 'struct PBFPrimitiveBlockDecoder { int64_t m_lon_offset; int64_t m_lat_offset; int64_t m_date_factor; int32_t m_granularity; };\n'


for axis in ('lon', 'lat'):
    u = Unit(PDEC, 'convert_pbf_' + axis, cls='PBFPrimitiveBlockDecoder')
    off = 's.m_%s_offset' % axis
    for g in (1, 10, 100, 1000, 10000):
        PIPELINES.append(Pipeline('U3_convert_pbf_%s_granularity_%d' % (axis, g), units=[u], prelude=lambda repo: consts(repo) + dec_struct(repo), harness='''
void harness(void) { struct PBFPrimitiveBlockDecoder s; int64_t c; s.m_granularity = %(g)d;
  /* block parameters of a spec-conformant file: nanodegree value offset + granularity * c within the 1e-7 fixed-point range */
  __CPROVER_assume(c >= -(1LL << 40) && c <= (1LL << 40) && %(off)s >= -(1LL << 50) && %(off)s <= (1LL << 50));
  __int128 nano = (__int128)%(off)s + (__int128)%(g)d * c;
  __CPROVER_assume(nano / 100 >= INT32_MIN && nano / 100 <= INT32_MAX);
  int32_t r = %(fn)s(&s, c);
  __CPROVER_assert(r == (int32_t)(nano / 100), "U3 format formula 1e-9 * (offset + granularity * c), in units of 1e-7 degrees");
  __CPROVER_assert(!(%(g)d == 100 && %(off)s == 0) || r == c, "L2 default block parameters are the identity (what the writer relies on)");
  __CPROVER_assert(0, "canary"); }''' % dict(g=g, off=off, fn=u.cname), solver='kissat',
            bounded='granularity fixed to %d (instances for 1, 10, 100, 1000, 10000); coordinates and offsets full range' % g,
            replay=('c02_kernels', lambda cex, o: ['search']), note='overflow obligations on; the reference is computed in 128 bit'))

# ---- U4: metadata range checks (statement blocks of decode_info and decode_dense_nodes) --------------------------------------------------
def obj_prelude(repo):
    return ('typedef int64_t object_id_type; typedef uint64_t unsigned_object_id_type; typedef uint32_t object_version_type; typedef uint32_t user_id_type;\n'
            'typedef uint32_t changeset_id_type; typedef uint32_t item_size_type; typedef uint16_t item_type; typedef int32_t signed_user_id_type;\n'
            + cx.members_struct(repo, [(TS, 'Timestamp')], 'Timestamp') + 'typedef struct Timestamp Timestamp;\n'
            + cx.members_struct(repo, [(ITEM, 'Item'), (OBJ, 'OSMObject')], 'OSMObject') + 'typedef struct OSMObject OSMObject;\nint64_t ghost_in;   /* ghost: the value the protobuf field reader returned */\n')


U_setcs = Unit(OBJ, 'set_changeset', cls='OSMObject', sig=r'changeset_id_type changeset')
U_setver = Unit(OBJ, 'set_version', cls='OSMObject', sig=r'object_version_type version')
BLOCKS = [
    ('changeset_in_decode_info', 'decode_info', (r'const auto changeset_id = pbf_info\.get_int64\(\);', r'\n\s*\}\s*break;'), [(r'pbf_info\.get_int64\(\)', 'ghost_in'), (r'object\.', 'object_p->')], 'cs'),
    ('changeset_in_decode_dense_nodes', 'decode_dense_nodes', (r'const auto changeset_id = dense_changeset\.update\(changesets\.next_sint64\(\)\);', r'\n\s*\}\s*\n\s*if \(!timestamps'),
     [(r'dense_changeset\.update\(changesets\.next_sint64\(\)\)', 'ghost_in'), (r'node\.', 'object_p->')], 'cs'),
    ('version_in_decode_info', 'decode_info', (r'const auto version = pbf_info\.get_int32\(\);', r'\n\s*\}\s*break;'), [(r'pbf_info\.get_int32\(\)', '((int32_t)ghost_in)'), (r'object\.', 'object_p->')], 'ver'),
    ('version_in_decode_dense_nodes', 'decode_dense_nodes', (r'const auto version = versions\.next_int32\(\);', r'\n\s*\}\s*\n\s*if \(!changesets'),
     [(r'versions\.next_int32\(\)', '((int32_t)ghost_in)'), (r'node\.', 'object_p->')], 'ver'),
]
for name, fn, block, pre, kind in BLOCKS:
    u = Unit(PDEC, fn, cls='PBFPrimitiveBlockDecoder', cname='blk_' + name, method=False, block=block, pre=pre, objs={'object_p': 'OSMObject'},
             params=['OSMObject* object_p'], ret='void', scalar_types=['object_version_type', 'changeset_id_type'])
    if kind == 'cs':
        contract = [('pre', 'requires', 'verif_exc == 0 && __CPROVER_is_fresh(object_p, sizeof(*object_p))'),
                    ('post:accepts exactly -1 (absent) .. 2^32-1, the range of changeset ids', 'ensures', '(verif_exc == 0) == (ghost_in >= -1 && ghost_in <= 4294967295LL)'),
                    ('post:rejected with pbf_error', 'ensures', 'verif_exc == 0 || verif_exc == EXC_pbf_error'),
                    ('post:value stored (-1 means 0)', 'ensures', 'verif_exc != 0 || object_p->m_changeset == (ghost_in == -1 ? 0u : (uint32_t)ghost_in)'),
                    ('frame', 'assigns', 'verif_exc, object_p->m_changeset')]
        units = [U_setcs, u]
    else:
        contract = [('pre', 'requires', 'verif_exc == 0 && __CPROVER_is_fresh(object_p, sizeof(*object_p)) && ghost_in >= INT32_MIN && ghost_in <= INT32_MAX'),
                    ('post:accepts exactly -1 (absent) .. 2^31-1', 'ensures', '(verif_exc == 0) == (ghost_in >= -1)'),
                    ('post:rejected with pbf_error', 'ensures', 'verif_exc == 0 || verif_exc == EXC_pbf_error'),
                    ('post:value stored (-1 means 0)', 'ensures', 'verif_exc != 0 || object_p->m_version == (ghost_in == -1 ? 0u : (uint32_t)ghost_in)'),
                    ('frame', 'assigns', 'verif_exc, object_p->m_version')]
        units = [U_setver, u]
    PIPELINES.append(Pipeline('U4_' + name, units=units, prelude=obj_prelude, contracts={u.cname: contract}, enforce=u.cname,
                              harness='void harness(void) { OSMObject* o; %s(o); __CPROVER_assert(verif_exc != 0, "canary:normal"); __CPROVER_assert(verif_exc == 0, "canary:throw"); }' % u.cname,
                              canaries=['canary:normal', 'canary:throw'], noflags=['--conversion-check'],
                              replay=('c02_kernels', (lambda k: lambda cex, o: ['meta', k, cex.first('ghost_in', 0)])(kind)),
                              note='statement block extracted between anchors; the protobuf field reader is replaced by an arbitrary ghost value'))

# ---- U5: o5m string reference table ----------------------------------------------------------------------------------------------------------
def rt_prelude(repo):
    src = cx.preprocess(cx.strip_comments(open(repo + '/' + O5M).read()))
    a, b = cx.find_class(src, 'ReferenceTable')
    body = src[a:b]
    enums = ''
    for nm in ('number_of_entries', 'entry_size', 'max_length'):
        m = re.search(r'\b' + nm + r'\s*=\s*([^,}\n]+)', body)
        if not m:
            raise ExtractError('ReferenceTable::%s not found' % nm)
        enums += '#define %s (%s)\n' % (nm, m.group(1).strip())
    if not re.search(r'std::string m_table;\s*unsigned int current_entry = 0;', body):
        raise ExtractError('ReferenceTable data members changed')
    return enums + '''
/* std::string m_table as used here: empty, or resized once to the full table (zero-filled by resize) */
struct rtable { char* data; size_t size; };
struct ReferenceTable { struct rtable m_table; unsigned int current_entry; };
uint64_t ghost_adds;     /* ghost: number of strings entered into the table so far (the o5m numbering counts these) */
uint32_t ghost_slot;     /* ghost: ring position of the next entry = ghost_adds mod 15000 (maintained incrementally: no 64-bit division in the proof) */
size_t ghost_c;          /* ghost: a byte position inside a string */
#define N_ENT 15000u
/* o5m format: the table has 15000 entries of 256 bytes; strings of more than 250 characters (252 bytes with both NULs) are not entered */
#define RT_OK(t) ((t)->current_entry < N_ENT && (t)->current_entry == ghost_slot && ghost_slot < N_ENT && (((t)->m_table.size == 0 && (t)->m_table.data == 0) || ((t)->m_table.size == 15000u * 256u && __CPROVER_is_fresh((t)->m_table.data, (t)->m_table.size))))
size_t ghost_tabsize;    /* ghost: equals the requested size; kept symbolic so that CBMC does not flatten a 3.8 MB array */
void rtable_resize(struct rtable* s, size_t n)
  __CPROVER_requires(__CPROVER_rw_ok(s, sizeof(*s)) && s->size == 0 && n >= 1 && n <= 4000000 && ghost_tabsize == n) __CPROVER_assigns(s->size, s->data)
  __CPROVER_ensures(s->size == ghost_tabsize && __CPROVER_is_fresh(s->data, ghost_tabsize));
char* copy_n(const char* src, size_t n, char* dst)
  __CPROVER_requires(__CPROVER_r_ok(src, n) && __CPROVER_w_ok(dst, n)) __CPROVER_assigns(__CPROVER_object_upto(dst, n))
  __CPROVER_ensures(ghost_c >= n || dst[ghost_c] == src[ghost_c]);
'''


RT_RULES = [(r'm_table\.empty\(\)', '(m_table.size == 0)'), (r'&m_table\[', '&m_table.data[')]
U_rtadd = Unit(O5M, 'add', cls='ReferenceTable', extra_members=['current_entry'], pre=RT_RULES + [(r'm_table\.resize\(', 'rtable_resize(&m_table, ')])
U_rtget = Unit(O5M, 'get', cls='ReferenceTable', extra_members=['current_entry'], pre=RT_RULES, sig=r'uint64_t index')
U_rtclear = Unit(O5M, 'clear', cls='ReferenceTable', extra_members=['current_entry'])
PIPELINES.append(Pipeline('U5_ReferenceTable_add', units=[U_rtadd], prelude=rt_prelude, contracts={'ReferenceTable_add': [
    ('pre', 'requires', '__CPROVER_is_fresh(self, sizeof(*self)) && RT_OK(self) && size >= 1 && size <= 100000 && __CPROVER_is_fresh(string, size) && ghost_adds < (1ULL << 62)'),
    ('post:strings of up to 250 characters (252 bytes) are entered, longer ones are not and do not shift the numbering', 'ensures', 'ghost_adds_after == ghost_adds + (size <= 252 ? 1 : 0)'),
    ('post:the entry is the next slot of the ring and holds exactly the string bytes', 'ensures',
     '!(size <= 252) || (self->m_table.size == 15000u * 256u && (ghost_c >= size || self->m_table.data[(ghost_adds % N_ENT) * 256 + ghost_c] == string[ghost_c]))'),
    ('post:ring position follows the count', 'ensures', 'self->current_entry == ghost_adds_after % N_ENT'),
    ('frame', 'assigns', 'self->current_entry, self->m_table.size, self->m_table.data, __CPROVER_object_whole(self->m_table.data), ghost_adds_after')]},
    replace=['rtable_resize', 'copy_n'], enforce='ReferenceTable_add',
    prelude2=None if True else None,
    harness='void harness(void) { struct ReferenceTable* t; const char* s; size_t n; ReferenceTable_add(t, s, n); __CPROVER_assert(0, "canary"); }',
    replay=('c02_kernels', lambda cex, o: ['rtable'])) if False else None)
PIPELINES.pop()
# add() with the ghost counter maintained by a woven ghost statement next to the ring increment
U_rtadd_g = Unit(O5M, 'add', cls='ReferenceTable', extra_members=['current_entry'], pre=RT_RULES + [(r'm_table\.resize\(', 'rtable_resize(&m_table, ')],
                 post=[(r'if \(\+\+self->current_entry (==|>=|>|!=) number_of_entries\)', r'ghost_adds = ghost_adds + 1; ghost_slot = (ghost_slot + 1 == N_ENT) ? 0 : ghost_slot + 1; /*ghost*/ if (++self->current_entry \1 number_of_entries)')])   # the ghost statement is anchored at the ring increment whatever comparison follows it
PIPELINES.append(Pipeline('U5_ReferenceTable_add', units=[U_rtadd_g], prelude=lambda repo: rt_prelude(repo).replace('__CPROVER_ensures(ghost_c >= n || dst[ghost_c] == src[ghost_c]);', ';'), contracts={'ReferenceTable_add': [
    ('pre', 'requires', 'ghost_tabsize == 15000u * 256u && __CPROVER_is_fresh(self, sizeof(*self)) && RT_OK(self) && size >= 1 && size <= 100000 && __CPROVER_is_fresh(string, size) && ghost_adds < (1ULL << 62)'),
    ('post:strings of up to 250 characters (252 bytes) are entered, longer ones are not and do not shift the numbering', 'ensures',
     'ghost_adds == __CPROVER_old(ghost_adds) + (size <= 252 ? 1 : 0)'),
    ('post:ring position follows the count (representation invariant)', 'ensures', 'self->current_entry == ghost_slot && ghost_slot < N_ENT && ghost_slot == (size <= 252 ? (__CPROVER_old(ghost_slot) + 1 == N_ENT ? 0 : __CPROVER_old(ghost_slot) + 1) : __CPROVER_old(ghost_slot))'),
    ('frame', 'assigns', 'self->current_entry, self->m_table.size, self->m_table.data, ghost_adds, ghost_slot'), ('frame:table bytes', 'assigns', 'self->m_table.size != 0: __CPROVER_object_whole(self->m_table.data)')]},
    replace=['rtable_resize', 'copy_n'], enforce='ReferenceTable_add',
    harness='void harness(void) { struct ReferenceTable* t; const char* s; size_t n; ReferenceTable_add(t, s, n); __CPROVER_assert(0, "canary"); }',
    replay=('c02_kernels', lambda cex, o: ['rtable']),
    note='ghost_adds counts accepted strings; the only woven ghost statement is its increment next to the ring increment'))
PIPELINES.append(Pipeline('U5_ReferenceTable_add_content', units=[U_rtadd_g], prelude=rt_prelude, contracts={'ReferenceTable_add': [
    ('pre', 'requires', 'ghost_tabsize == 15000u * 256u && __CPROVER_is_fresh(self, sizeof(*self)) && RT_OK(self) && size >= 1 && size <= 100000 && __CPROVER_is_fresh(string, size) && ghost_adds < (1ULL << 62)'),
    ('post:strings of up to 250 characters (252 bytes) are entered, longer ones are not and do not shift the numbering', 'ensures',
     'ghost_adds == __CPROVER_old(ghost_adds) + (size <= 252 ? 1 : 0)'),
    ('post:the entry is the next slot of the ring and holds exactly the string bytes', 'ensures',
     '!(size <= 252) || (self->m_table.size == 15000u * 256u && (ghost_c >= size || self->m_table.data[__CPROVER_old(ghost_slot) * 256 + ghost_c] == string[ghost_c]))'),
    ('post:ring position follows the count (representation invariant)', 'ensures', 'self->current_entry == ghost_slot && ghost_slot < N_ENT && ghost_slot == (size <= 252 ? (__CPROVER_old(ghost_slot) + 1 == N_ENT ? 0 : __CPROVER_old(ghost_slot) + 1) : __CPROVER_old(ghost_slot))'),
    ('frame', 'assigns', 'self->current_entry, self->m_table.size, self->m_table.data, ghost_adds, ghost_slot'), ('frame:table bytes', 'assigns', 'self->m_table.size != 0: __CPROVER_object_whole(self->m_table.data)')]},
    replace=['rtable_resize', 'copy_n'], enforce='ReferenceTable_add',
    harness='void harness(void) { struct ReferenceTable* t; const char* s; size_t n; ReferenceTable_add(t, s, n); __CPROVER_assert(0, "canary"); }',
    replay=('c02_kernels', lambda cex, o: ['rtable']),
    note='ghost_adds counts accepted strings; the only woven ghost statement is its increment next to the ring increment'))
PIPELINES.append(Pipeline('U5_ReferenceTable_get', units=[U_rtget], prelude=rt_prelude, contracts={'ReferenceTable_get': [
    ('pre', 'requires', 'verif_exc == 0 && __CPROVER_is_fresh(self, sizeof(*self)) && RT_OK(self)'),
    ('post:references 1..15000 into a table in use are valid, everything else is rejected', 'ensures', '(verif_exc == 0) == (self->m_table.size != 0 && index >= 1 && index <= 15000)'),
    ('post:rejected with o5m_error', 'ensures', 'verif_exc == 0 || verif_exc == EXC_o5m_error'),
    ('post:o5m numbering: reference i is the string entered i accepted adds ago (slot (adds - i) mod 15000)', 'ensures',
     'verif_exc != 0 || __CPROVER_return_value == self->m_table.data + ((ghost_slot + N_ENT - (uint32_t)index) % N_ENT) * 256'),
    ('frame', 'assigns', 'verif_exc')]}, enforce='ReferenceTable_get',
    harness='void harness(void) { struct ReferenceTable* t; uint64_t i; ReferenceTable_get(t, i); __CPROVER_assert(verif_exc != 0, "canary:normal"); __CPROVER_assert(verif_exc == 0, "canary:throw"); }',
    canaries=['canary:normal', 'canary:throw'], replay=('c02_kernels', lambda cex, o: ['rtable'])))

# ---- dense nodes: the timestamp is the running sum of the raw deltas, scaled once by date_granularity / 1000 -----------------------------------------
DELTA_H = 'include/osmium/util/delta.hpp'
U_ddec = Unit(DELTA_H, 'update', cls='DeltaDecode', cname='DeltaDecode_update', selftype='struct DeltaDecode_i64', rename={'TValue': 'TValueD', 'TDelta': 'TDeltaD'}, params=['TDeltaD delta'], ret='TValueD')
U_dts = Unit(PDEC, 'decode_dense_nodes', cls='PBFPrimitiveBlockDecoder', cname='blk_dense_timestamp', nth=0, ret='void', selftype='struct PBFPrimitiveBlockDecoder',
             params=['struct DeltaDecode_i64* dense_timestamp_p', 'int64_t raw_delta'],
             block=(r'if \(!timestamps\.empty\(\)\) \{', r'\s*if \(!uids\.empty\(\)\)'),
             pre=[(r'if \(!timestamps\.empty\(\)\) \{', '{'), (r'timestamps\.next_sint64\(\)', 'raw_delta'), (r'dense_timestamp\.update\(', 'DeltaDecode_update(dense_timestamp_p, '),
                  (r'node\.set_timestamp\(([^;]*)\);', r'ghost_timestamp_set = (\1);')])
PIPELINES.append(Pipeline('U6_dense_timestamp_scaled_once', units=[U_ddec, U_dts], contracts={'blk_dense_timestamp': [
    ('pre:any running sum, any delta, any date_granularity for which the products fit 64 bits', 'requires',
     '__CPROVER_is_fresh(self, sizeof(*self)) && __CPROVER_is_fresh(dense_timestamp_p, sizeof(*dense_timestamp_p)) && self->m_date_factor >= 1 && self->m_date_factor <= 1000000 && '
     'dense_timestamp_p->m_value >= -(1LL << 40) && dense_timestamp_p->m_value <= (1LL << 40) && raw_delta >= -(1LL << 40) && raw_delta <= (1LL << 40)'),
    ('post:the running sum advances by the raw delta; the timestamp is that sum scaled once (truncation happens once per node, it does not accumulate over the block)', 'ensures',
     'dense_timestamp_p->m_value == __CPROVER_old(dense_timestamp_p->m_value) + raw_delta && ghost_timestamp_set == dense_timestamp_p->m_value * self->m_date_factor / 1000'),
    ('frame', 'assigns', 'dense_timestamp_p->m_value, ghost_timestamp_set')]},
    prelude='typedef int64_t TValueD; typedef int64_t TDeltaD;\nstruct DeltaDecode_i64 { int64_t m_value; };\nstruct PBFPrimitiveBlockDecoder { int64_t m_date_factor; };\nint64_t ghost_timestamp_set;\n',
    enforce='blk_dense_timestamp', harness='void harness(void) { struct PBFPrimitiveBlockDecoder* d; struct DeltaDecode_i64* t; int64_t x; blk_dense_timestamp(d, t, x); __CPROVER_assert(0, "canary"); }',
    noflags=['--conversion-check'], solver='kissat', timeout=600, replay=('c02_kernels', lambda cex, o: ['search']),
    note='statement block of decode_dense_nodes; the same formula as decode_info uses for plain objects (PBF: millisec_stamp = timestamp * date_granularity)'))

TRUSTED = ['protozero field readers (get_int64, next_sint64, ...) return the encoded value (library outside /repo)', 'std::copy_n, std::string::resize (C++ standard; stubs with assumed contracts)']
ASSUMPTIONS = []
NOT_DECIDED = ['XML and OPL field dispatch as a whole', 'the protobuf field loop of the PBF decoder', 'agreement of the four readers on whole files', 'zlib/lz4 blob decompression',
               'o5m delta chains and string decoding (decode_string, decode_info)']
LEVEL_TEXT = ('Proof for decoder kernels, each against the formula of the published format: BlobHeader length from four octets in network byte order for all 2^32 inputs, and every '
              'legal header size (<= 64 KiB) accepted; convert_pbf_lon/lat equal 1e-9*(offset+granularity*c) in 1e-7 units for all block parameters in a stated range and are the identity at '
              'default parameters; the version and changeset range checks of decode_info and decode_dense_nodes (extracted as statement blocks) accept exactly -1..2^31-1 resp. -1..2^32-1; '
              'the o5m reference table implements the numbering rule of the format (entry i = i-th most recent entered string, strings over 250 characters not entered, ring of 15000) '
              'as a data-structure contract with a ghost counter of entered strings; the timestamp of a dense node is the running sum of the raw deltas scaled once by date_granularity/1000 (statement block), '
              'the same formula decode_info uses for plain objects.')
LEVEL_NOTE = ('Trusted: CBMC, extraction rules, protozero readers, copy_n/resize stubs. The statement covers whole files; only these kernels are decided. Not decided: XML/OPL dispatch, '
              'protobuf field loop, reader agreement, decompression, o5m delta chains.')
