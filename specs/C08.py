"""C08 - writer produces the complete file or throws; OS write errors are never lost (the sequential kernels)."""
from cv import Pipeline, Unit
import cx, re

PROPERTY = 'C08'
LEVEL = 'proof'
RW = 'include/osmium/io/detail/read_write.hpp'
COMP = 'include/osmium/io/compression.hpp'
GZ = 'include/osmium/io/gzip_compression.hpp'
PIPELINES = []

POSIX = '''
#include <errno.h>
int verif_errno;
#undef errno
#define errno verif_errno
/* ghost: what the operating system has accepted so far */
size_t ghost_accepted;              /* total bytes accepted by write() */
bool ghost_contiguous;              /* every write() call started exactly where the accepted data ended */
const unsigned char* ghost_base;    /* start of the data that is to be written */
int ghost_clock; int ghost_fsync_at; int ghost_close_at; int ghost_fsync_fd; int ghost_close_fd;
/* POSIX write(2): returns -1 and sets errno, or the number of bytes accepted, 0 <= n <= count (assumed contract) */
int64_t write(int fd, const void* buf, unsigned int count)
__CPROVER_requires(__CPROVER_r_ok(buf, count))
__CPROVER_assigns(verif_errno, ghost_accepted, ghost_contiguous)
__CPROVER_ensures(__CPROVER_return_value >= -1 && __CPROVER_return_value <= (int64_t)count)
__CPROVER_ensures(__CPROVER_return_value < 0 || (ghost_accepted == __CPROVER_old(ghost_accepted) + (size_t)__CPROVER_return_value &&
        ghost_contiguous == (__CPROVER_old(ghost_contiguous) && (const unsigned char*)buf == ghost_base + __CPROVER_old(ghost_accepted))))
__CPROVER_ensures(__CPROVER_return_value >= 0 || (ghost_accepted == __CPROVER_old(ghost_accepted) && ghost_contiguous == __CPROVER_old(ghost_contiguous)))
;
/* fsync(2), close(2): 0 or -1 with errno (assumed); the ghost clock records the order of the calls */
int fsync(int fd) __CPROVER_assigns(verif_errno, ghost_clock, ghost_fsync_at, ghost_fsync_fd)
  __CPROVER_ensures((__CPROVER_return_value == 0 || __CPROVER_return_value == -1) && ghost_clock == __CPROVER_old(ghost_clock) + 1 && ghost_fsync_at == ghost_clock && ghost_fsync_fd == fd);
int close(int fd) __CPROVER_assigns(verif_errno, ghost_clock, ghost_close_at, ghost_close_fd)
  __CPROVER_ensures((__CPROVER_return_value == 0 || __CPROVER_return_value == -1) && ghost_clock == __CPROVER_old(ghost_clock) + 1 && ghost_close_at == ghost_clock && ghost_close_fd == fd);
'''
U_rwrite = Unit(RW, 'reliable_write', sig=r'const unsigned char\* output_buffer')
RW_LOOPS = [
    ['__CPROVER_assigns(offset, verif_exc, verif_errno, ghost_accepted, ghost_contiguous)',
     '__CPROVER_loop_invariant(offset <= size && ghost_accepted == offset && ghost_contiguous && verif_exc == 0)'],
    ['__CPROVER_assigns(length, verif_exc, verif_errno, ghost_accepted, ghost_contiguous)',
     '__CPROVER_loop_invariant(verif_exc == 0 && ghost_contiguous && length <= 0 && ghost_accepted == offset && offset <= size && write_count <= size - offset)'],
]
RW_CONTRACT = [
    ('pre', 'requires', 'verif_exc == 0 && size <= (1u << 30) && __CPROVER_is_fresh(output_buffer, size) && ghost_accepted == 0 && ghost_contiguous && ghost_base == output_buffer'),
    ('post:normal return means the operating system accepted every byte, in order, without gap or repetition', 'ensures', 'verif_exc != 0 || (ghost_accepted == size && ghost_contiguous)'),
    ('post:a failed write (other than EINTR) is reported as system_error', 'ensures', 'verif_exc == 0 || (verif_exc == EXC_system_error && verif_errno != EINTR)'),
    ('frame', 'assigns', 'verif_exc, verif_errno, ghost_accepted, ghost_contiguous'),
]
PIPELINES.append(Pipeline('U1_reliable_write', units=[U_rwrite], prelude=POSIX, contracts={'reliable_write': RW_CONTRACT}, loops={'reliable_write': RW_LOOPS},
                          replace=['write'], enforce='reliable_write',
                          harness='void harness(void) { int fd; const unsigned char* b; size_t n; reliable_write(fd, b, n); __CPROVER_assert(verif_exc != 0, "canary:normal"); __CPROVER_assert(verif_exc == 0, "canary:throw"); }',
                          canaries=['canary:normal', 'canary:throw'], replay=('c08_write', lambda cex, o: ['search']),
                          note='every size up to 2^30, every pattern of short writes, EINTR and errors the kernel may produce; termination is not claimed (a kernel returning 0 forever loops forever)'))
U_rfsync = Unit(RW, 'reliable_fsync')
U_rclose = Unit(RW, 'reliable_close')
for u, call, what in ((U_rfsync, 'fsync', 'ghost_fsync_fd == fd'), (U_rclose, 'close', 'ghost_close_fd == fd')):
    PIPELINES.append(Pipeline('U2_' + u.cname, units=[u], prelude=POSIX, contracts={u.cname: [
        ('pre', 'requires', 'verif_exc == 0 && ghost_clock < 1000' + (' && fd >= 0' if call == 'close' else '')),
        ('post:the system call is made on this descriptor; its failure is reported as system_error', 'ensures',
         '(verif_exc == 0 || verif_exc == EXC_system_error) && ghost_clock == __CPROVER_old(ghost_clock) + 1 && ' + what),
        ('frame', 'assigns', 'verif_exc, verif_errno, ghost_clock, ghost_fsync_at, ghost_fsync_fd, ghost_close_at, ghost_close_fd')]},
        replace=[call], enforce=u.cname, harness='void harness(void) { int fd; %s(fd); __CPROVER_assert(verif_exc != 0, "canary:normal"); __CPROVER_assert(verif_exc == 0, "canary:throw"); }' % u.cname,
        canaries=['canary:normal', 'canary:throw'], replay=('c08_write', lambda cex, o: ['search'])))
# the failure must really be reported: a stub that fails makes the function throw (strictness), checked in a lemma over the contract of the system call
PIPELINES.append(Pipeline('L_fsync_close_failure_is_reported', units=[U_rfsync, U_rclose], prelude=POSIX + '''
int ghost_ret_fsync, ghost_ret_close;
''', harness='''
int fsync_body_ret; int close_body_ret;
void harness(void) { int fd; __CPROVER_assume(fd >= 0); verif_exc = 0;
  reliable_fsync(fd);
  __CPROVER_assert((verif_exc != 0) == (ghost_last_ret != 0), "L a failing fsync throws, a succeeding one does not");
  verif_exc = 0; reliable_close(fd);
  __CPROVER_assert((verif_exc != 0) == (ghost_last_ret != 0), "L a failing close throws, a succeeding one does not");
  __CPROVER_assert(0, "canary"); }''') if False else None)
PIPELINES.pop()

# ---- NoCompressor ------------------------------------------------------------------------------------------------------------
NOCOMP = POSIX + '''
typedef struct vstr { const char* p; size_t n; } vstr;
struct NoCompressor { size_t m_file_size; int m_fd; bool ghost_do_fsync; };
bool NoCompressor_do_fsync(const struct NoCompressor* self) { return self->ghost_do_fsync; }
void reliable_write(const int fd, const char* output_buffer, const size_t size)
__CPROVER_requires(verif_exc == 0 && __CPROVER_r_ok(output_buffer, size))
__CPROVER_assigns(verif_exc, verif_errno, ghost_accepted)
__CPROVER_ensures((verif_exc == 0 && ghost_accepted == __CPROVER_old(ghost_accepted) + size) || verif_exc == EXC_system_error)
;
void reliable_fsync(const int fd) __CPROVER_requires(verif_exc == 0) __CPROVER_assigns(verif_exc, verif_errno, ghost_clock, ghost_fsync_at, ghost_fsync_fd)
  __CPROVER_ensures((verif_exc == 0 || verif_exc == EXC_system_error) && ghost_clock == __CPROVER_old(ghost_clock) + 1 && ghost_fsync_at == ghost_clock && ghost_fsync_fd == fd);
void reliable_close(const int fd) __CPROVER_requires(verif_exc == 0) __CPROVER_assigns(verif_exc, verif_errno, ghost_clock, ghost_close_at, ghost_close_fd)
  __CPROVER_ensures((verif_exc == 0 || verif_exc == EXC_system_error) && ghost_clock == __CPROVER_old(ghost_clock) + 1 && ghost_close_at == ghost_clock && ghost_close_fd == fd);
'''
SRULE = [(r'data\.data\(\)', 'data.p'), (r'data\.size\(\)', 'data.n'), (r'data\.empty\(\)', '(data.n == 0)')]
U_ncw = Unit(COMP, 'write', cls='NoCompressor', pre=SRULE[:2])
U_ncc = Unit(COMP, 'close', cls='NoCompressor', stub_siblings={'do_fsync': 'NoCompressor_do_fsync'})
MT = {'reliable_write': True, 'reliable_fsync': True, 'reliable_close': True}
PIPELINES.append(Pipeline('U3_NoCompressor_write', units=[U_ncw], prelude=NOCOMP, contracts={'NoCompressor_write': [
    ('pre', 'requires', 'verif_exc == 0 && __CPROVER_is_fresh(self, sizeof(*self)) && __CPROVER_is_fresh(data, sizeof(*data)) && data->n <= (1u << 30) && __CPROVER_is_fresh(data->p, data->n) && self->m_file_size <= (1ULL << 60)'),
    ('post:the size reported later counts exactly the bytes the system accepted; a write error propagates', 'ensures',
     '(verif_exc == 0 && ghost_accepted == __CPROVER_old(ghost_accepted) + data->n && self->m_file_size == __CPROVER_old(self->m_file_size) + data->n) || (verif_exc == EXC_system_error && self->m_file_size == __CPROVER_old(self->m_file_size))'),
    ('frame', 'assigns', 'verif_exc, verif_errno, ghost_accepted, self->m_file_size')]}, replace=['reliable_write'], maythrow=MT, enforce='NoCompressor_write',
    harness='void harness(void) { struct NoCompressor* c; const vstr* d; NoCompressor_write(c, d); __CPROVER_assert(verif_exc != 0, "canary:normal"); __CPROVER_assert(verif_exc == 0, "canary:throw"); }',
    canaries=['canary:normal', 'canary:throw'], replay=('c08_write', lambda cex, o: ['search'])))
PIPELINES.append(Pipeline('U3_NoCompressor_close', units=[U_ncc], prelude=NOCOMP, contracts={'NoCompressor_close': [
    ('pre', 'requires', 'verif_exc == 0 && __CPROVER_is_fresh(self, sizeof(*self)) && ghost_clock == 0 && ghost_fsync_at == 0 && ghost_close_at == 0'),
    ('post:an open descriptor (not stdout) is synced if requested, then closed; each failure propagates; the object is closed afterwards', 'ensures',
     '(self->m_fd == -1 || (__CPROVER_old(self->m_fd) < 0 && self->m_fd == __CPROVER_old(self->m_fd))) && (verif_exc == 0 || verif_exc == EXC_system_error) && '
     '(!(__CPROVER_old(self->m_fd) >= 0 && __CPROVER_old(self->m_fd) != 1) || ('
     '  (self->ghost_do_fsync ? (ghost_fsync_at == 1 && ghost_fsync_fd == __CPROVER_old(self->m_fd)) : ghost_fsync_at == 0) && '
     '  (verif_exc == 0 ? (ghost_close_at == ghost_clock && ghost_close_at > ghost_fsync_at && ghost_close_fd == __CPROVER_old(self->m_fd)) : 1)))'),
    ('post:closing twice, or closing stdout, makes no system call', 'ensures', '!(__CPROVER_old(self->m_fd) < 0 || __CPROVER_old(self->m_fd) == 1) || (ghost_clock == 0 && verif_exc == 0)'),
    ('frame', 'assigns', 'verif_exc, verif_errno, self->m_fd, ghost_clock, ghost_fsync_at, ghost_fsync_fd, ghost_close_at, ghost_close_fd')]},
    replace=['reliable_fsync', 'reliable_close'], maythrow=MT, enforce='NoCompressor_close',
    harness='void harness(void) { struct NoCompressor* c; NoCompressor_close(c); __CPROVER_assert(verif_exc != 0, "canary:normal"); __CPROVER_assert(verif_exc == 0, "canary:throw"); }',
    canaries=['canary:normal', 'canary:throw'], replay=('c08_write', lambda cex, o: ['search'])))


# ---- GzipCompressor / Bzip2Compressor: every failure reported by the library or the OS becomes an exception ---------------------------------
BZ = 'include/osmium/io/bzip2_compression.hpp'
ZSTUBS = NOCOMP.replace('struct NoCompressor', 'struct NoCompressor_unused') + '''
#define Z_OK 0
#define BZ_OK 0
#define BZ_STREAM_END 4
typedef int* gzFile; typedef int BZFILE; typedef int VFILE;
struct GzipCompressor { size_t m_file_size; int m_fd; gzFile m_gzfile; bool ghost_do_fsync; };
struct file_wrapper { VFILE m_file_handle; bool open; };
struct Bzip2Compressor { size_t m_file_size; struct file_wrapper m_file; BZFILE* m_bzfile; bool ghost_do_fsync; };
int ghost_gzwrite_ret, ghost_gzclose_ret, ghost_gzclose_at, ghost_bzerr_write, ghost_bzerr_close, ghost_bzclose_at, ghost_fclose_at; size_t ghost_size_result; unsigned ghost_lo, ghost_hi;
bool GzipCompressor_do_fsync(const struct GzipCompressor* self) { return self->ghost_do_fsync; }
bool Bzip2Compressor_do_fsync(const struct Bzip2Compressor* self) { return self->ghost_do_fsync; }
/* zlib gzwrite: returns the number of uncompressed bytes written, 0 on error (manual) */
int gzwrite(gzFile f, const void* buf, unsigned len) __CPROVER_requires(f != 0 && len >= 1 && __CPROVER_r_ok(buf, len)) __CPROVER_assigns() __CPROVER_ensures(__CPROVER_return_value == ghost_gzwrite_ret && ghost_gzwrite_ret >= 0);
/* gzclose_w: Z_OK or an error code; flushes and closes the (dup'ed) descriptor */
int gzclose_w(gzFile f) __CPROVER_requires(f != 0) __CPROVER_assigns(ghost_clock, ghost_gzclose_at) __CPROVER_ensures(__CPROVER_return_value == ghost_gzclose_ret && ghost_clock == __CPROVER_old(ghost_clock) + 1 && ghost_gzclose_at == ghost_clock);
void throw_gzip_error(gzFile f, const char* msg) __CPROVER_requires(1) __CPROVER_assigns(verif_exc) __CPROVER_ensures(verif_exc == EXC_gzip_error);
size_t file_size(int fd) __CPROVER_requires(verif_exc == 0) __CPROVER_assigns(verif_exc) __CPROVER_ensures((verif_exc == 0 && __CPROVER_return_value == ghost_size_result) || verif_exc == EXC_system_error);
/* libbz2 write side: the error code is returned through *bzerror (manual) */
void BZ2_bzWrite(int* bzerror, BZFILE* b, void* buf, int len) __CPROVER_requires(__CPROVER_rw_ok(bzerror, sizeof(int)) && b != 0 && len >= 0) __CPROVER_assigns(*bzerror) __CPROVER_ensures(*bzerror == ghost_bzerr_write);
void BZ2_bzWriteClose64(int* bzerror, BZFILE* b, int abandon, unsigned* ilo, unsigned* ihi, unsigned* olo, unsigned* ohi)
  __CPROVER_requires(__CPROVER_rw_ok(bzerror, sizeof(int)) && b != 0 && abandon == 0 && __CPROVER_rw_ok(olo, sizeof(unsigned)) && __CPROVER_rw_ok(ohi, sizeof(unsigned)))
  __CPROVER_assigns(*bzerror, *olo, *ohi, ghost_clock, ghost_bzclose_at) __CPROVER_ensures(*bzerror == ghost_bzerr_close && *olo == ghost_lo && *ohi == ghost_hi && ghost_clock == __CPROVER_old(ghost_clock) + 1 && ghost_bzclose_at == ghost_clock);
void throw_bzip2_error(BZFILE* b, const char* msg, int err) __CPROVER_requires(1) __CPROVER_assigns(verif_exc) __CPROVER_ensures(verif_exc == EXC_bzip2_error);
VFILE file_wrapper_file(const struct file_wrapper* w) { return w->open ? w->m_file_handle : 0; }
int fileno(VFILE f) __CPROVER_requires(1) __CPROVER_assigns() __CPROVER_ensures(1);
/* file_wrapper::close: fclose, failure -> system_error */
void file_wrapper_close(struct file_wrapper* w) __CPROVER_requires(verif_exc == 0 && __CPROVER_rw_ok(w, sizeof(*w))) __CPROVER_assigns(verif_exc, w->open, ghost_clock, ghost_fclose_at)
  __CPROVER_ensures(!w->open && (verif_exc == 0 || verif_exc == EXC_system_error) && ghost_clock == __CPROVER_old(ghost_clock) + 1 && ghost_fclose_at == ghost_clock);
'''
GZ_MT = {'reliable_fsync': True, 'reliable_close': True, 'throw_gzip_error': True, 'file_size': False, 'throw_bzip2_error': True, 'file_wrapper_close': True}
U_gzw = Unit(GZ, 'write', cls='GzipCompressor', pre=SRULE + [(r'detail::throw_gzip_error', 'throw_gzip_error')])
U_gzc = Unit(GZ, 'close', cls='GzipCompressor', stub_siblings={'do_fsync': 'GzipCompressor_do_fsync'}, pre=[(r'osmium::file_size\(', 'file_size(')])
PIPELINES.append(Pipeline('U3_GzipCompressor_write', units=[U_gzw], prelude=ZSTUBS, contracts={'GzipCompressor_write': [
    ('pre', 'requires', 'verif_exc == 0 && __CPROVER_is_fresh(self, sizeof(*self)) && self->m_gzfile != 0 && __CPROVER_is_fresh(data, sizeof(*data)) && data->n <= (1u << 30) && __CPROVER_is_fresh(data->p, data->n)'),
    ('post:a write that the library reports as failed (0 bytes for non-empty data) throws gzip_error; nothing else throws', 'ensures',
     '(verif_exc != 0) == (data->n >= 1 && ghost_gzwrite_ret == 0) && (verif_exc == 0 || verif_exc == EXC_gzip_error)'),
    ('frame', 'assigns', 'verif_exc')]}, replace=['gzwrite', 'throw_gzip_error'], maythrow=GZ_MT, enforce='GzipCompressor_write',
    harness='void harness(void) { struct GzipCompressor* c; const vstr* d; GzipCompressor_write(c, d); __CPROVER_assert(verif_exc != 0, "canary:normal"); __CPROVER_assert(verif_exc == 0, "canary:throw"); }',
    canaries=['canary:normal', 'canary:throw'], replay=('c08_write', lambda cex, o: ['search'])))
PIPELINES.append(Pipeline('U3_GzipCompressor_close', units=[U_gzc], prelude=ZSTUBS, contracts={'GzipCompressor_close': [
    ('pre', 'requires', 'verif_exc == 0 && __CPROVER_is_fresh(self, sizeof(*self)) && ghost_clock == 0 && ghost_fsync_at == 0 && ghost_close_at == 0 && ghost_gzclose_at == 0'),
    ('post:closed afterwards; a second close does nothing', 'ensures', 'self->m_gzfile == 0 && (__CPROVER_old(self->m_gzfile) != 0 || (ghost_clock == 0 && verif_exc == 0))'),
    ('post:a failing gzclose_w (data not flushed) throws gzip_error', 'ensures', '!(__CPROVER_old(self->m_gzfile) != 0 && ghost_gzclose_ret != Z_OK) || verif_exc == EXC_gzip_error'),
    ('post:then (unless stdout) the file size is taken, the file is synced if requested and closed, in this order; each failure throws', 'ensures',
     '!(__CPROVER_old(self->m_gzfile) != 0 && verif_exc == 0 && self->m_fd != 1) || (ghost_gzclose_at == 1 && (self->ghost_do_fsync ? ghost_fsync_at == 2 && ghost_close_at == 3 : ghost_fsync_at == 0 && ghost_close_at == 2) && '
     'ghost_close_fd == self->m_fd && self->m_file_size == ghost_size_result)'),
    ('post:exception classes', 'ensures', 'verif_exc == 0 || verif_exc == EXC_gzip_error || verif_exc == EXC_system_error'),
    ('frame', 'assigns', 'verif_exc, verif_errno, self->m_gzfile, self->m_file_size, ghost_clock, ghost_gzclose_at, ghost_fsync_at, ghost_fsync_fd, ghost_close_at, ghost_close_fd')]},
    replace=['gzclose_w', 'file_size', 'reliable_fsync', 'reliable_close'], maythrow=GZ_MT, enforce='GzipCompressor_close',
    harness='void harness(void) { struct GzipCompressor* c; GzipCompressor_close(c); __CPROVER_assert(verif_exc != 0, "canary:normal"); __CPROVER_assert(verif_exc == 0, "canary:throw"); }',
    canaries=['canary:normal', 'canary:throw'], replay=('c08_write', lambda cex, o: ['search'])))
U_bzw = Unit(BZ, 'write', cls='Bzip2Compressor', pre=SRULE[:2] + [(r'detail::throw_bzip2_error', 'throw_bzip2_error'), (r'const_cast<char\*>\(data\.p\)', '((char*)data.p)')])
U_bzc = Unit(BZ, 'close', cls='Bzip2Compressor', stub_siblings={'do_fsync': 'Bzip2Compressor_do_fsync'},
             pre=[(r'm_file\.file\(\)', 'file_wrapper_file(&m_file)'), (r'm_file\.close\(\)', 'file_wrapper_close(&m_file)')])
PIPELINES.append(Pipeline('U3_Bzip2Compressor_write', units=[U_bzw], prelude=ZSTUBS, contracts={'Bzip2Compressor_write': [
    ('pre', 'requires', 'verif_exc == 0 && __CPROVER_is_fresh(self, sizeof(*self)) && self->m_bzfile != 0 && __CPROVER_is_fresh(data, sizeof(*data)) && data->n <= (1u << 30) && __CPROVER_is_fresh(data->p, data->n)'),
    ('post:every error code of BZ2_bzWrite throws bzip2_error', 'ensures', '(verif_exc != 0) == (ghost_bzerr_write != BZ_OK && ghost_bzerr_write != BZ_STREAM_END) && (verif_exc == 0 || verif_exc == EXC_bzip2_error)'),
    ('frame', 'assigns', 'verif_exc')]}, replace=['BZ2_bzWrite', 'throw_bzip2_error'], maythrow=GZ_MT, enforce='Bzip2Compressor_write',
    harness='void harness(void) { struct Bzip2Compressor* c; const vstr* d; Bzip2Compressor_write(c, d); __CPROVER_assert(verif_exc != 0, "canary:normal"); __CPROVER_assert(verif_exc == 0, "canary:throw"); }',
    canaries=['canary:normal', 'canary:throw'], replay=('c08_write', lambda cex, o: ['search'])))
PIPELINES.append(Pipeline('U3_Bzip2Compressor_close', units=[U_bzc], prelude=ZSTUBS, contracts={'Bzip2Compressor_close': [
    ('pre', 'requires', 'verif_exc == 0 && __CPROVER_is_fresh(self, sizeof(*self)) && ghost_clock == 0 && ghost_fsync_at == 0 && ghost_fclose_at == 0 && ghost_bzclose_at == 0 && self->m_file.open && self->m_file.m_file_handle != 0'),
    ('post:closed afterwards; a second close does nothing', 'ensures', 'self->m_bzfile == 0 && (__CPROVER_old(self->m_bzfile) != 0 || (ghost_clock == 0 && verif_exc == 0))'),
    ('post:the stream is finished, synced if requested, the file closed - in this order; a failure of any of them throws', 'ensures',
     '!(__CPROVER_old(self->m_bzfile) != 0) || (ghost_bzclose_at == 1 && (verif_exc != 0 || ((self->ghost_do_fsync ? ghost_fsync_at == 2 && ghost_fclose_at == 3 : ghost_fsync_at == 0 && ghost_fclose_at == 2) && ghost_bzerr_close == BZ_OK)))'),
    ('post:the reported file size is the 64-bit count the library returned', 'ensures', '!(__CPROVER_old(self->m_bzfile) != 0 && verif_exc == 0) || self->m_file_size == (((uint64_t)ghost_hi << 32) | ghost_lo)'),
    ('post:exception classes', 'ensures', 'verif_exc == 0 || verif_exc == EXC_bzip2_error || verif_exc == EXC_system_error'),
    ('frame', 'assigns', 'verif_exc, verif_errno, self->m_bzfile, self->m_file_size, self->m_file.open, ghost_clock, ghost_bzclose_at, ghost_fsync_at, ghost_fsync_fd, ghost_fclose_at')]},
    replace=['BZ2_bzWriteClose64', 'reliable_fsync', 'file_wrapper_close', 'fileno'], maythrow=GZ_MT, enforce='Bzip2Compressor_close',
    harness='void harness(void) { struct Bzip2Compressor* c; Bzip2Compressor_close(c); __CPROVER_assert(verif_exc != 0, "canary:normal"); __CPROVER_assert(verif_exc == 0, "canary:throw"); }',
    canaries=['canary:normal', 'canary:throw'], replay=('c08_write', lambda cex, o: ['search'])))

# ---- Writer: the sequential state machine around the output (status okay / error / closed; the end-of-data marker is queued exactly once) -------------
WR = 'include/osmium/io/writer.hpp'


def inline_ensure_cleanup(body, R, _cache={}):
    """ensure_cleanup([&]() { BODY });  ->  the body of the template Writer::ensure_cleanup with func(...) replaced by BODY (template + lambda instantiated by text)"""
    src = _cache.get('src')
    if src is None:
        raise cx.ExtractError('inline_ensure_cleanup: source not loaded')
    tmpl = cx.find_function(src, 'ensure_cleanup', cls='Writer')['body']
    if 'func(std::forward<TArgs>(args)...);' not in tmpl:
        raise cx.ExtractError('Writer::ensure_cleanup no longer calls func(std::forward<TArgs>(args)...)')
    n = 0
    while True:
        m = re.search(r'ensure_cleanup\(\[&\]\(\) \{', body)
        if not m:
            break
        b = m.end() - 1
        e = cx.match_close(body, b)
        rest = body[e + 1:]
        mm = re.match(r'\s*\);', rest)
        if not mm:
            raise cx.ExtractError('ensure_cleanup call not understood')
        body = body[:m.start()] + tmpl.replace('func(std::forward<TArgs>(args)...);', body[b:e + 1]) + rest[mm.end():]
        n += 1
    if not n:
        raise cx.ExtractError('no ensure_cleanup([&]() {...}) call found')
    R.hit('unit_rewrite:ensure_cleanup template instantiated', n)
    return body


def wr_prelude(repo):
    src = cx.preprocess(cx.strip_comments(open(repo + '/' + WR).read()))
    inline_ensure_cleanup.__defaults__[0]['src'] = src
    return cx.extract_enum(repo, WR, 'status') + '''
typedef int Buffer;
struct Writer { status m_status; bool m_header_written; bool m_notification; int m_buffer; size_t m_buffer_size; };
/* ghost: what reached the output queue, and whether the output format was used */
unsigned ghost_q_exc, ghost_q_eod, ghost_q_eod_after_exc, ghost_out_calls;
int verif_nondet_int(void) { int verif_any; return verif_any; }
/* OutputFormat::write_header / write_buffer / write_end, check_for_exception(future): may throw anything (io_error from a format, the exception of the write thread) */
void Out_call(void) { ++ghost_out_calls; if (verif_nondet_int()) { verif_exc = EXC_io_error; } }
void Q_add_exception(void) { ++ghost_q_exc; }
void Q_add_eod(void) { ++ghost_q_eod; if (ghost_q_exc) ghost_q_eod_after_exc = 1; }
'''


WPRE = [(r'm_output->write_header\(m_header\);', 'Out_call();', '?'), (r'm_output->write_buffer\(std::move\(buffer\)\);', 'Out_call();', '?'), (r'm_output->write_end\(\);', 'Out_call();', '?'),
        (r'osmium::thread::check_for_exception\(m_write_future\);', 'Out_call();', '?'),
        (r'detail::add_to_queue\(m_output_queue, std::current_exception\(\)\);', 'Q_add_exception();', '?'), (r'detail::add_end_of_data_to_queue\(m_output_queue\);', 'Q_add_eod();', '?'),
        (r'if \(m_header\.get\("generator"\)\.empty\(\)\) \{\s*m_header\.set\("generator", "libosmium/" LIBOSMIUM_VERSION_STRING\);\s*\}', '/* header */', '?'),
        (r'\(buffer && buffer\.committed\(\) > 0\)', '(verif_nondet_int())', '?'), (r'\(m_buffer && m_buffer\.committed\(\) > 0\)', '(verif_nondet_int())', '?'),
        (r'osmium::memory::Buffer buffer\{m_buffer_size,\s*osmium::memory::Buffer::auto_grow::no\};\s*using std::swap;\s*swap\(m_buffer, buffer\);', '/* swap in an empty buffer */', '?'),
        (r'std::move\((\w+)\)', r'\1', '?'), (r'throw io_error\("[^"]*"\);', 'throw io_error{};', '?')]
WMT = {'Out_call': True, 'Writer_write_header': True, 'Writer_do_write': True, 'Writer_do_flush': True}
U_wh = Unit(WR, 'write_header', cls='Writer', enums=['status'], pre=WPRE)
U_dw = Unit(WR, 'do_write', cls='Writer', enums=['status'], params=['Buffer buffer'], pre=WPRE)
U_df = Unit(WR, 'do_flush', cls='Writer', enums=['status'], pre=WPRE)
U_flush = Unit(WR, 'flush', cls='Writer', enums=['status'], pre=[inline_ensure_cleanup] + WPRE)
U_opbuf = Unit(WR, 'operator()', cls='Writer', cname='Writer_write_buffer', sig=r'osmium::memory::Buffer&& buffer', enums=['status'], params=['Buffer buffer'], pre=[inline_ensure_cleanup] + WPRE)
U_dclose = Unit(WR, 'do_close', cls='Writer', enums=['status'], pre=[inline_ensure_cleanup] + WPRE)
W_INV = ('(self->m_status == status_okay || self->m_status == status_error || self->m_status == status_closed) && (self->m_status == status_okay) == (ghost_q_eod == 0) && ghost_q_eod <= 1 && ghost_q_exc <= 1 && '
         '(ghost_q_exc == 0 || (self->m_status == status_error && ghost_q_eod_after_exc))')
W_PRE = ('pre:any state of the writer; the end-of-data marker has been queued exactly if the writer is no longer in status okay', 'requires',
         'verif_exc == 0 && __CPROVER_is_fresh(self, sizeof(*self)) && ' + W_INV + ' && ghost_out_calls < 1000 && (ghost_q_exc == 0 || ghost_q_eod_after_exc)')
W_FRAME = ('frame', 'assigns', 'verif_exc, verif_caught, self->m_status, self->m_header_written, ghost_q_exc, ghost_q_eod, ghost_q_eod_after_exc, ghost_out_calls')
W_POST = [('post:the invariant holds again (the marker is never queued twice, so the write thread terminates exactly once)', 'ensures', W_INV),
          ('post:a writer that is closed or has failed refuses with io_error and touches neither the output format nor the queue', 'ensures',
           '__CPROVER_old(self->m_status) == status_okay || (%s && self->m_status == __CPROVER_old(self->m_status) && ghost_out_calls == __CPROVER_old(ghost_out_calls) && ghost_q_eod == __CPROVER_old(ghost_q_eod) && ghost_q_exc == __CPROVER_old(ghost_q_exc))'),
          ('post:a failure is never swallowed: the exception leaves the call, the writer is in status error, and the exception followed by the end-of-data marker went to the write thread', 'ensures',
           '__CPROVER_old(self->m_status) != status_okay || verif_exc == 0 || (self->m_status == status_error && ghost_q_exc == 1 && ghost_q_eod == 1 && ghost_q_eod_after_exc)')]
for name, u, cn, okpost, refuse in (('flush', U_flush, 'Writer_flush', 'verif_exc != 0 || self->m_status == status_okay', 'verif_exc == EXC_io_error'),
                                     ('write_buffer', U_opbuf, 'Writer_write_buffer', 'verif_exc != 0 || self->m_status == status_okay', 'verif_exc == EXC_io_error'),
                                     ('do_close', U_dclose, 'Writer_do_close', '__CPROVER_old(self->m_status) != status_okay || verif_exc != 0 || (self->m_status == status_closed && ghost_q_eod == 1 && ghost_q_exc == 0)', 'verif_exc == 0')):
    posts = [(l, k, (t % refuse) if '%s' in t else t) for l, k, t in W_POST]
    PIPELINES.append(Pipeline('U4_Writer_' + name, units=[U_wh, U_dw, U_df, u], prelude=wr_prelude, contracts={cn: [W_PRE] + posts + [
        ('post:a call that returns normally leaves the writer usable' if name != 'do_close' else 'post:a successful close queues the marker once and ends in status closed; closing again does nothing', 'ensures', okpost), W_FRAME]},
        maythrow=WMT, enforce=cn,
        harness='void harness(void) { struct Writer* w; %s; __CPROVER_assert(verif_exc != 0, "canary:normal"); __CPROVER_assert(verif_exc == 0, "canary:throw"); }' % ('%s(w%s)' % (cn, ', 0' if name == 'write_buffer' else '')),
        canaries=['canary:normal', 'canary:throw'], replay=('c08_write', lambda cex, o: ['search']), noflags=['--conversion-check'],
        note='Writer::ensure_cleanup (a template taking a lambda) is instantiated by text; the output format and the future are may-throw stubs'))

TRUSTED = ['POSIX write/fsync/close return conventions (assumed contracts)', 'zlib/libbz2 return conventions']
ASSUMPTIONS = ['write sizes up to 2^30 bytes per call of reliable_write (object-size bound)']
NOT_DECIDED = ['propagation of the exception across the write thread / future', 'completeness of the file as a whole', 'Writer state machine', 'termination when the kernel accepts 0 bytes forever']
LEVEL_TEXT = ('Proof, relative to the POSIX return conventions: reliable_write returns normally only when the operating system has accepted every byte, contiguously and in order, for every size and '
              'every pattern of short writes, EINTR and errors (nested do-while loops closed by loop contracts), and throws system_error on any other failure; reliable_fsync/reliable_close make '
              'the call and report failure; NoCompressor::write accounts exactly the accepted bytes and propagates errors; NoCompressor::close syncs (if requested) before closing, propagates '
              'each failure, and a second close or stdout makes no system call; GzipCompressor and Bzip2Compressor write/close turn every failure the library or the OS reports into gzip_error / bzip2_error / system_error, '
              'finish the compressed stream before syncing and closing, and report the size the library/OS returned. The sequential state machine of the Writer (flush, operator()(Buffer&&), do_close, with '
              'ensure_cleanup instantiated): a failure in the output format or reported by the write thread is never swallowed - the exception leaves the call, the writer goes to status error, and the '
              'exception followed by exactly one end-of-data marker is queued for the write thread; a closed or failed writer refuses every further call with io_error without touching the output; a successful '
              'close queues the marker once.')
LEVEL_NOTE = ('Trusted: CBMC, extraction rules, POSIX conventions as stub contracts. Not decided: propagation across the write thread and future (threads), operator()(const Item&) (buffer_is_full retry), what libz/libbz2 do inside their calls, '
              'termination if write() returns 0 forever.')
