import json, jsonschema, glob, sys
jsonschema.validate(json.load(open('/verif/MANIFEST.json')), json.load(open('/root/.vp/MANIFEST.schema.json')))
es = json.load(open('/root/.vp/EVIDENCE.schema.json'))
for f in sorted(glob.glob('/verif/evidence/C*.json')):
    jsonschema.validate(json.load(open(f)), es)
    print('valid', f)
print('manifest valid')
