/* base.h - vocabulary shared by every woven translation unit (DESIGN.md section 5) */
#include <stdint.h>
#include <stdbool.h>
#include <stddef.h>
#include <limits.h>

/* exception classes as bit sets: a class carries the bits of its bases, so
   `catch (const base&)` is  (exc & base) == base  */
#define EXC_exception          0x00000001
#define EXC_runtime_error      (0x00000002 | EXC_exception)
#define EXC_logic_error        (0x00000004 | EXC_exception)
#define EXC_range_error        (0x00000008 | EXC_runtime_error)
#define EXC_io_error           (0x00000010 | EXC_runtime_error)
#define EXC_system_error       (0x00000020 | EXC_runtime_error)
#define EXC_out_of_range       (0x00000040 | EXC_logic_error)
#define EXC_length_error       (0x00000080 | EXC_logic_error)
#define EXC_invalid_argument   (0x00000100 | EXC_logic_error)
#define EXC_invalid_location   (0x00000200 | EXC_range_error)
#define EXC_opl_error          (0x00000400 | EXC_io_error)
#define EXC_pbf_error          (0x00000800 | EXC_io_error)
#define EXC_o5m_error          (0x00001000 | EXC_io_error)
#define EXC_xml_error          (0x00002000 | EXC_io_error)
#define EXC_gzip_error         (0x00004000 | EXC_io_error)
#define EXC_bzip2_error        (0x00008000 | EXC_io_error)
#define EXC_buffer_is_full     (0x00010000 | EXC_runtime_error)
#define EXC_not_found          (0x00020000 | EXC_runtime_error)
#define EXC_geometry_error     (0x00040000 | EXC_runtime_error)
#define EXC_format_version_error (0x00080000 | EXC_io_error)
#define EXC_overflow_error     (0x00100000 | EXC_runtime_error)
#define EXC_bad_alloc          (0x00200000 | EXC_exception)
#define EXC_unsupported_file_format_error (0x00400000 | EXC_io_error)
#define EXC_projection_error   (0x00800000 | EXC_runtime_error)
#define EXC_map_factory_error  (0x01000000 | EXC_runtime_error)
#define VERIF_EXC_IS(e, c) (((e) & (c)) == (c))

int verif_exc;      /* 0 = no exception in flight */
int verif_caught;   /* class of the exception most recently caught */

#define VERIF_THROW(x) { verif_exc = (x); return VERIF_RET; }
#define VERIF_THROW_TO(lab, x) { verif_exc = (x); goto lab; }
#define VERIF_RETHROW { verif_exc = verif_caught; return VERIF_RET; }
#define VERIF_CAT_(a, b) a##b
#define VERIF_CAT(a, b) VERIF_CAT_(a, b)
#define VERIF_CALL_N(e, r) ({ __auto_type r = (e); if (verif_exc) return VERIF_RET; r; })
#define VERIF_CALL(e) VERIF_CALL_N(e, VERIF_CAT(verif_r, __COUNTER__))
#define VERIF_CALLV(e) ({ (e); if (verif_exc) return VERIF_RET; (void)0; })
#define VERIF_CALL_TO_N(lab, e, r) ({ __auto_type r = (e); if (verif_exc) goto lab; r; })
#define VERIF_CALL_TO(lab, e) VERIF_CALL_TO_N(lab, e, VERIF_CAT(verif_r, __COUNTER__))
#define VERIF_CALLV_TO(lab, e) ({ (e); if (verif_exc) goto lab; (void)0; })

#define VERIF_MAXLEN 100000
#define VERIF_ABS(x) ((x) < 0 ? -(x) : (x))
#define VERIF_MAX(a, b) ((a) < (b) ? (b) : (a))   /* std::max: the first argument unless it is less than the second */
#define VERIF_MIN(a, b) ((b) < (a) ? (b) : (a))

/* std::copy_n / fill_n on raw char ranges: assumed contracts (C++ standard), used via --replace-call-with-contract
   or, in unwind-mode pipelines, through these simple bodies */
#ifdef VERIF_STUB_BODIES
char* copy_n(const char* src, size_t n, char* dst) { for (size_t i = 0; i < n; ++i) dst[i] = src[i]; return dst + n; }
#endif
#define VERIF_MOVE(x) (x)
