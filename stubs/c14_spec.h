/* C14 specification helpers, written from the property text and RFC 3629 (shared with the replay oracle) */
/* UTF-8 encoding of a Unicode scalar value (reference) */
static int spec_utf8_encode(uint32_t cp, unsigned char* b) {
  if (cp < 0x80) { b[0] = (unsigned char)cp; return 1; }
  if (cp < 0x800) { b[0] = (unsigned char)(0xc0 | (cp >> 6)); b[1] = (unsigned char)(0x80 | (cp & 0x3f)); return 2; }
  if (cp < 0x10000) { b[0] = (unsigned char)(0xe0 | (cp >> 12)); b[1] = (unsigned char)(0x80 | ((cp >> 6) & 0x3f)); b[2] = (unsigned char)(0x80 | (cp & 0x3f)); return 3; }
  b[0] = (unsigned char)(0xf0 | (cp >> 18)); b[1] = (unsigned char)(0x80 | ((cp >> 12) & 0x3f)); b[2] = (unsigned char)(0x80 | ((cp >> 6) & 0x3f)); b[3] = (unsigned char)(0x80 | (cp & 0x3f)); return 4;
}
#define SPEC_IS_SCALAR(cp) ((cp) >= 1 && (cp) <= 0x10FFFF && !((cp) >= 0xD800 && (cp) <= 0xDFFF))
/* characters with structural meaning in OPL (property text): space, comma, equals, at-sign, percent, line breaks; plus tab (field separator accepted by the parser) */
#define SPEC_OPL_STRUCTURAL(c) ((c) == ' ' || (c) == ',' || (c) == '=' || (c) == '@' || (c) == '%' || (c) == '\n' || (c) == '\r' || (c) == '\t')
#define SPEC_IS_HEX(c) (((c) >= '0' && (c) <= '9') || ((c) >= 'a' && (c) <= 'f') || ((c) >= 'A' && (c) <= 'F'))
/* characters with structural meaning inside an XML attribute value (property text) */
#define SPEC_XML_STRUCTURAL(c) ((c) == '&' || (c) == '<' || (c) == '>' || (c) == '"' || (c) == '\'' || (c) == '\n' || (c) == '\r' || (c) == '\t')
