/* vstr_epoch.h - std::string as an input carry-over buffer (DESIGN 5.3): one backing object of symbolic capacity that never moves;
   pointer invalidation is modelled by the ghost `epoch` (append may bump it, erase does not). The content is tied to a ghost input
   stream: data[i] == stream[base + i], observed at the ghost position ghost_g (value ghost_gv). Assumed contracts = C++ standard. */
#define MAXLEN 100000
typedef struct vstr { char* data; size_t size; size_t base; unsigned epoch; size_t cap; } vstr;
size_t ghost_g; char ghost_gv;          /* ghost: stream[ghost_g] == ghost_gv */
bool verif_input_done;                  /* input_done(): the end-of-data marker has been received */
size_t ghost_read;                      /* bytes of the stream handed over by get_input() and appended so far */
size_t ghost_total;                     /* total length of the stream */
size_t ghost_pos;                       /* bytes logically consumed by the parser */
size_t ghost_pending;                   /* length of the chunk get_input() returned and that has not been appended yet */
unsigned ghost_ptr_epoch;               /* epoch at which m_data / m_end were taken from m_input */
#define VSTR_OK(s) ((s)->size <= MAXLEN && (s)->base <= MAXLEN && (s)->cap <= MAXLEN + 1 && ghost_total <= MAXLEN && (s)->base <= ghost_total && ghost_total - (s)->base < (s)->cap && (s)->size < (s)->cap)
#define VSTR_INV(s) (!(ghost_g >= (s)->base && ghost_g < (s)->base + (s)->size) || (s)->data[ghost_g - (s)->base] == ghost_gv)
void vstr_erase_front(vstr* s, size_t n)
__CPROVER_requires(VSTR_OK(s) && n <= s->size && VSTR_INV(s))
__CPROVER_assigns(s->size, s->base, __CPROVER_object_whole(s->data))
__CPROVER_ensures(s->size == __CPROVER_old(s->size) - n && s->base == __CPROVER_old(s->base) + n && VSTR_INV(s))
;
/* get_input(): the next chunk of the stream, of any length >= 1, or the end-of-data marker (length 0, input_done() true from then on;
   further calls keep returning the empty string - queue_wrapper::pop) */
size_t verif_get_input(void)
__CPROVER_requires(ghost_pending == 0 && ghost_read <= ghost_total && (verif_input_done == 0 || verif_input_done == 1))
__CPROVER_assigns(verif_input_done, ghost_pending)
__CPROVER_ensures((__CPROVER_return_value == 0) == verif_input_done && ghost_pending == __CPROVER_return_value && ghost_pending <= ghost_total - ghost_read)
__CPROVER_ensures(!verif_input_done || ghost_read == ghost_total)
__CPROVER_ensures(!__CPROVER_old(verif_input_done) || verif_input_done)
;
void vstr_append_chunk(vstr* s, size_t n)
__CPROVER_requires(VSTR_OK(s) && VSTR_INV(s) && n == ghost_pending && s->base + s->size == ghost_read && ghost_read <= ghost_total && n <= ghost_total - ghost_read)
__CPROVER_assigns(s->size, s->epoch, ghost_read, ghost_pending, __CPROVER_object_whole(s->data))
__CPROVER_ensures(s->size == __CPROVER_old(s->size) + n && ghost_read == __CPROVER_old(ghost_read) + n && ghost_pending == 0 && s->epoch >= __CPROVER_old(s->epoch) && VSTR_INV(s))
;
