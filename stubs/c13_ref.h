/* C13: reference semantics of the coordinate grammar, written from the property text:
     -? ( D{1,10} ( '.' D{0,27} )? | '.' D{1,27} ) ( [eE] -? D{1,5} )?      greedy, no backtracking
   value = the decimal number, times 10^7, rounded half up in magnitude; must fit int32.
   Digit-array arithmetic only (decimal point shifting), no wide multiplication. */
#define REF_MAXD 40
struct ref_result { int ok; long long value; size_t consumed; long long E; };
static int ref_isd(char c) { return c >= '0' && c <= '9'; }
static struct ref_result ref_coord(const char* s, size_t n) {
  struct ref_result bad = {0, 0, 0, 0};
  unsigned char A[REF_MAXD]; size_t na = 0, ni = 0, nf = 0, i = 0;
  int neg = 0;
  if (s[i] == '-') { neg = 1; ++i; }
  if (s[i] != '.') {
    if (!ref_isd(s[i])) return bad;
    while (i < n && ref_isd(s[i])) { if (na < REF_MAXD) A[na++] = (unsigned char)(s[i] - '0'); ++i; ++ni; }
    if (ni > 10) return bad;
  } else if (!(i + 1 < n && ref_isd(s[i + 1]))) return bad;
  if (s[i] == '.') {
    ++i;
    while (i < n && ref_isd(s[i])) { if (na < REF_MAXD) A[na++] = (unsigned char)(s[i] - '0'); ++i; ++nf; }
    if (nf > 27) return bad;
  }
  long long E = 0;
  if (s[i] == 'e' || s[i] == 'E') {
    ++i; int eneg = 0; if (s[i] == '-') { eneg = 1; ++i; }
    if (!ref_isd(s[i])) return bad;
    size_t ne = 0;
    while (i < n && ref_isd(s[i])) { if (ne < 7) E = E * 10 + (s[i] - '0'); ++i; ++ne; }
    if (eneg) E = -E;
    bad.E = E;
    if (ne > 5) return bad;
  }
  long long P = (long long)ni + 7 + E;          /* position of the decimal point after scaling by 10^7 */
  long long M = 0; const long long BIG = 100000000000LL;   /* saturation: anything >= 10^11 is out of range */
  for (long long k = 0; k < REF_MAXD + 12; ++k) {
    if (k >= P) break;
    int d = (k < (long long)na) ? A[k] : 0;
    M = M * 10 + d; if (M > BIG) M = BIG;
  }
  if (P > REF_MAXD + 12 && M != 0) M = BIG;
  int rd = (P >= 0 && P < (long long)na) ? A[P] : 0;
  if (rd >= 5) M += 1;
  long long v = neg ? -M : M;
  if (v > INT32_MAX || v < INT32_MIN) return bad;
  bad.E = E;
  if (v > INT32_MAX || v < INT32_MIN) return bad;
  struct ref_result r = {1, v, i, E};
  return r;
}
