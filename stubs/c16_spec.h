/* C16 specification macros - shared by the CBMC contracts and the native replay oracle */
#define ID_CLASS(x) ((x) == 0 ? 0 : ((x) < 0 ? 1 : 2))
#define ID_ABS(x) ((uint64_t)((x) < 0 ? -(x) : (x)))
#define SPEC_ID_LT(a, b) (ID_CLASS(a) < ID_CLASS(b) || (ID_CLASS(a) == ID_CLASS(b) && ID_ABS(a) < ID_ABS(b)))
/* timestamps take part only when both are valid (non-zero) */
#define TSV(o, p) (((o)->m_timestamp.m_timestamp != 0 && (p)->m_timestamp.m_timestamp != 0) ? (o)->m_timestamp.m_timestamp : 0u)
#define SPEC_LT(a, b) ( (a)->m_type < (b)->m_type || ((a)->m_type == (b)->m_type && ( \
    SPEC_ID_LT((a)->m_id, (b)->m_id) || ((a)->m_id == (b)->m_id && ( \
    (a)->m_version < (b)->m_version || ((a)->m_version == (b)->m_version && TSV(a, b) < TSV(b, a)))))))
#define SPEC_LT_NOTS(a, b) ( (a)->m_type < (b)->m_type || ((a)->m_type == (b)->m_type && ( \
    SPEC_ID_LT((a)->m_id, (b)->m_id) || ((a)->m_id == (b)->m_id && (a)->m_version < (b)->m_version))))
/* newest first: version descending, then timestamp descending, then visible before deleted?  the
   documentation only fixes type, id, "later versions before earlier versions" */
#define SPEC_LT_REV(a, b) ( (a)->m_type < (b)->m_type || ((a)->m_type == (b)->m_type && ( \
    SPEC_ID_LT((a)->m_id, (b)->m_id) || ((a)->m_id == (b)->m_id && ( \
    (a)->m_version > (b)->m_version || ((a)->m_version == (b)->m_version && ( \
    TSV(a, b) > TSV(b, a) || (TSV(a, b) == TSV(b, a) && (!(b)->m_deleted) < (!(a)->m_deleted)))))))))
#define SPEC_EQ(a, b) ((a)->m_type == (b)->m_type && (a)->m_id == (b)->m_id && (a)->m_version == (b)->m_version)
#define OBJ_OK(o) ((o)->m_id > INT64_MIN)
