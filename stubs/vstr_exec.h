/* vstr_exec.h - executable std::string model for unwind-mode pipelines: one fixed-capacity array.
   VSTR_CAP must be chosen by the harness large enough; "model capacity" assertions guard it. */
#ifndef VSTR_CAP
#define VSTR_CAP 32
#endif
typedef struct vstr { char data[VSTR_CAP]; size_t size; } vstr;
static void vstr_push_char(vstr* s, char c) { __CPROVER_assert(s->size < VSTR_CAP, "model capacity"); s->data[s->size] = c; s->size = s->size + 1; }
static void vstr_append_range(vstr* s, const char* a, const char* b) { while (a != b) { vstr_push_char(s, *a); ++a; } }
static void vstr_append_lit(vstr* s, const char* lit) { while (*lit) { vstr_push_char(s, *lit); ++lit; } }
static size_t vstr_size(const vstr* s) { return s->size; }
static void vstr_resize(vstr* s, size_t n) { __CPROVER_assert(n <= VSTR_CAP, "model capacity"); while (s->size < n) { s->data[s->size] = 0; s->size = s->size + 1; } s->size = n; }
static char* vstr_at(vstr* s, size_t i) { __CPROVER_assert(i <= s->size && i < VSTR_CAP, "std::string index within size"); return &s->data[i]; }
#define VERIF_DISTANCE(a, b) ((b) - (a))
