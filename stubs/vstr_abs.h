/* vstr_abs.h - abstract std::string for safety pipelines: only the length is tracked (contents of the
   OUTPUT string are irrelevant to the memory safety of reading the INPUT). Assumed contracts, C++ standard. */
typedef struct vstr { size_t size; } vstr;
void vstr_push_char(vstr* s, char c)
__CPROVER_requires(__CPROVER_is_fresh(s, sizeof(*s)))
__CPROVER_assigns(s->size)
__CPROVER_ensures(s->size == __CPROVER_old(s->size) + 1)
;
void vstr_append_lit(vstr* s, const char* lit)
__CPROVER_requires(__CPROVER_is_fresh(s, sizeof(*s)))
__CPROVER_assigns(s->size)
__CPROVER_ensures(s->size >= __CPROVER_old(s->size))
;
/* std::string::append(first, last): [first, last) must be a valid readable range */
void vstr_append_range(vstr* s, const char* a, const char* b)
__CPROVER_requires(__CPROVER_is_fresh(s, sizeof(*s)))
__CPROVER_requires(__CPROVER_same_object(a, b) && __CPROVER_POINTER_OFFSET(a) <= __CPROVER_POINTER_OFFSET(b) && __CPROVER_r_ok(a, (size_t)(b - a)))
__CPROVER_assigns(s->size)
__CPROVER_ensures(s->size == __CPROVER_old(s->size) + (size_t)(b - a))
;
#define VERIF_DISTANCE(a, b) ((b) - (a))
/* strlen: assumed contract; the string is NUL-terminated at ghost_n and may contain no earlier NUL only if the caller says so:
   the result is the index of the FIRST NUL, which is <= ghost_n */
size_t ghost_n;
size_t verif_strlen(const char* s)
__CPROVER_requires(__CPROVER_r_ok(s, ghost_n + 1) && s[ghost_n] == 0)
__CPROVER_assigns()
__CPROVER_ensures(__CPROVER_return_value <= ghost_n && s[__CPROVER_return_value] == 0)
;
