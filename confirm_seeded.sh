#!/bin/bash
# confirms each seeded change in a scratch worktree: applies, builds, runs the whole test suite, runs the demo with and without the change
BASE=${BASE:-b3e2adb}
for d in /verif/seeded/*/; do
  id=$(basename $d)
  [ -f $d/confirm.log ] && grep -q "^RESULT" $d/confirm.log && continue
  wt=/tmp/wt_confirm_$id
  git -C /repo worktree remove --force $wt 2>/dev/null
  base=$BASE; [ "$id" = "C06-a" ] && base=HEAD; case "$id" in *-b) base=${BASE_B:-7c57eb8};; esac; mb=$(python3 -c "import json,sys; print(json.load(open(sys.argv[1])).get('base',''))" $d/meta.json 2>/dev/null); [ -n "$mb" ] && base=$mb
  git -C /repo worktree add -q --detach $wt $base || continue
  (
    cd $wt
    g++ -std=c++14 -O1 -I$wt/include $d/demo.cpp -o /tmp/demo_orig_$id -lz -lbz2 -lexpat -lpthread 2>/dev/null; /tmp/demo_orig_$id >/dev/null 2>&1; orig=$?
    git apply $d/patch.diff || { echo "RESULT $id patch does not apply on $base"; exit; }
    g++ -std=c++14 -O1 -I$wt/include $d/demo.cpp -o /tmp/demo_mut_$id -lz -lbz2 -lexpat -lpthread 2>/dev/null; /tmp/demo_mut_$id >/dev/null 2>&1; mut=$?
    cmake -G Ninja -B build -DCMAKE_BUILD_TYPE=RelWithDebInfo -DCMAKE_CXX_FLAGS=-Wno-error -DBUILD_EXAMPLES=ON -DBUILD_DATA_TESTS=ON -DBUILD_BENCHMARKS=OFF >/dev/null 2>&1
    ninja -C build -j6 >/dev/null 2>&1; b=$?
    t=$(ctest --test-dir build -j6 --timeout 900 2>&1 | grep "tests passed")
    echo "RESULT $id base=$base demo_without_change_exit=$orig demo_with_change_exit=$mut build_rc=$b tests: $t"
  ) > $d/confirm.log 2>&1
  rm -f /tmp/demo_orig_$id /tmp/demo_mut_$id
  git -C /repo worktree remove --force $wt
done
# changes that had to be ported onto a repaired function: the ported form is confirmed on the current HEAD
for d in /verif/seeded/*/; do
  id=$(basename $d); [ -f $d/patch_ported.diff ] || continue
  [ -f $d/confirm_ported.log ] && grep -q "^RESULT" $d/confirm_ported.log && continue
  wt=/tmp/wt_confirm_${id}_ported
  git -C /repo worktree remove --force $wt 2>/dev/null
  git -C /repo worktree add -q --detach $wt HEAD || continue
  (
    cd $wt
    g++ -std=c++14 -O1 -I$wt/include $d/demo.cpp -o /tmp/demo_orig_$id -lz -lbz2 -lexpat -lpthread 2>/dev/null; /tmp/demo_orig_$id >/dev/null 2>&1; orig=$?
    git apply $d/patch_ported.diff || { echo "RESULT $id ported patch does not apply on HEAD"; exit; }
    g++ -std=c++14 -O1 -I$wt/include $d/demo.cpp -o /tmp/demo_mut_$id -lz -lbz2 -lexpat -lpthread 2>/dev/null; /tmp/demo_mut_$id >/dev/null 2>&1; mut=$?
    cmake -G Ninja -B build -DCMAKE_BUILD_TYPE=RelWithDebInfo -DCMAKE_CXX_FLAGS=-Wno-error -DBUILD_EXAMPLES=ON -DBUILD_DATA_TESTS=ON -DBUILD_BENCHMARKS=OFF >/dev/null 2>&1
    ninja -C build -j6 >/dev/null 2>&1; b=$?
    t=$(ctest --test-dir build -j6 --timeout 900 2>&1 | grep "tests passed")
    echo "RESULT $id (ported) base=$(git -C /repo rev-parse --short HEAD) demo_without_change_exit=$orig demo_with_change_exit=$mut build_rc=$b tests: $t"
  ) > $d/confirm_ported.log 2>&1
  rm -f /tmp/demo_orig_$id /tmp/demo_mut_$id
  git -C /repo worktree remove --force $wt
done
git -C /repo worktree prune
grep -h "^RESULT" /verif/seeded/*/confirm.log
